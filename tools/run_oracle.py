#!/venv/bin/python
"""Self-test of the failing-input oracles: on the unchanged tree no oracle may report a failure.
usage: tools/run_oracle.py C03 C04 ...   (quick-tier cases, VERIF_SEED honoured)"""
import sys, os, importlib, time
HERE = os.path.dirname(os.path.dirname(os.path.abspath(__file__)))
sys.path.insert(0, os.path.join(HERE, 'harness'))
import common
rc = 0
for pid in sys.argv[1:]:
    mod = importlib.import_module(f'props.{pid.lower()}')
    rng = common.Rng(int(os.environ.get('VERIF_SEED', '0')) * 1000003 + int(pid[1:]))
    t0 = time.time(); n = bad = 0
    for c in mod.cases(rng, 'quick'):
        n += 1
        f = mod.oracle(c)
        if f:
            bad += 1
            if bad <= 3: print(pid, 'ORACLE FAILS:', str(f.get('what'))[:400], '\n   key', f.get('key'))
    print(f'{pid}: {n} cases, {bad} oracle failures, {time.time() - t0:.1f}s')
    rc |= bad > 0
sys.exit(rc)
