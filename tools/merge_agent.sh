#!/bin/sh
# usage: merge_agent.sh <agent verif dir> <base commit> files...   — 3-way merge of an agent's edits into /verif
A=$1; base=$2; shift 2
for f in "$@"; do
  if git -C /verif cat-file -e $base:$f 2>/dev/null; then
    git -C /verif show $base:$f > /tmp/merge.base
    if cmp -s /tmp/merge.base /verif/$f; then cp $A/$f /verif/$f; echo "copied $f";
    else git merge-file -p /verif/$f /tmp/merge.base $A/$f > /tmp/merge.out; rc=$?; cp /tmp/merge.out /verif/$f; echo "merged $f conflicts=$rc"; fi
  else mkdir -p $(dirname /verif/$f); cp $A/$f /verif/$f; echo "new $f"; fi
done
