#!/bin/sh
# usage: tools/confirm_seed.sh <scratch worktree of /repo> <dir holding patch.diff and demo.py>
# Confirms a seeded change: the demonstration fails with the change and passes without it, and the repository's test suite
# still passes with it. Uses only `git checkout -- .` and `git apply` inside the given worktree (never `git stash`: the stash is
# shared by all worktrees of a repository, so concurrent runs would pop each other's changes).
wt=$1; out=$2
cd "$wt" || exit 2
git checkout -q -- . && git clean -fdq synapgrad
PYTHONPATH=. /venv/bin/python "$out/demo.py" > "$out/confirm_without.log" 2>&1; rc_without=$?
git apply "$out/patch.diff" || { echo "$(basename $out): patch does not apply"; exit 2; }
PYTHONPATH=. /venv/bin/python "$out/demo.py" > "$out/confirm_with.log" 2>&1; rc_with=$?
/venv/bin/python -m pytest -q -p no:cacheprovider --timeout=900 > "$out/confirm_suite.log" 2>&1
tail -1 "$out/confirm_suite.log" > "$out/confirm_suite.txt"
files=$(git status --short | awk '{print $2}' | tr '\n' ' ')
git checkout -q -- . && git clean -fdq synapgrad
echo "$(basename $out): demo_with=$rc_with demo_without=$rc_without suite: $(cat $out/confirm_suite.txt) [files: $files]"
