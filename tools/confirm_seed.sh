#!/bin/sh
# usage: tools/confirm_seed.sh <worktree> <outdir>  — confirms a seeded change: demo fails with it, passes without, suite still passes
wt=$1; out=$2
cd "$wt" || exit 2
PYTHONPATH=. /venv/bin/python "$out/demo.py" > "$out/confirm_with.log" 2>&1; rc_with=$?
git stash -q
PYTHONPATH=. /venv/bin/python "$out/demo.py" > "$out/confirm_without.log" 2>&1; rc_without=$?
git stash pop -q
/venv/bin/python -m pytest -q -p no:cacheprovider --timeout=900 > "$out/confirm_suite.log" 2>&1
tail -1 "$out/confirm_suite.log" > "$out/confirm_suite.txt"
echo "$(basename $wt): demo_with=$rc_with demo_without=$rc_without suite: $(cat $out/confirm_suite.txt)"
