#!/usr/bin/env python3
"""prints the table of DESIGN §12.8 from evidence/*.json (quick figures of the last run in /verif) and, when given, the output of
`tools/selftest.sh thorough` (thorough figures):   tools/gen_cost_table.py [thorough.out]"""
import json, os, re, sys
HERE = os.path.dirname(os.path.dirname(os.path.abspath(__file__)))
th = {}
if len(sys.argv) > 1:
    for l in open(sys.argv[1]):
        m = re.search(r'(C\d\d) tier=thorough seed=\d+: theorems=(\d+)/(\d+) cases=(\d+) .* wall=([\d.]+)s', l)
        if m: th[m.group(1)] = (int(m.group(4)), float(m.group(5)))
print('| prop | theorems audited | quick cases / wall | thorough cases / wall (incl. leanchecker) |')
print('|---|---|---|---|')
for i in range(1, 21):
    p = f'C{i:02d}'
    e = json.load(open(os.path.join(HERE, 'evidence', p + '.json')))
    c = e['coverage']
    q = f"{c['traces_validated_against_impl']} / {e['wall_s']:.0f} s" if e['tier'] == 'quick' else '(evidence holds a thorough run)'
    t = f"{th[p][0]} / {th[p][1]:.0f} s" if p in th else '—'
    print(f"| {p} | {c['discharged']} | {q} | {t} |")
