#!/usr/bin/env python3
"""usage: stmt_diff.py stub.lean final.lean — every theorem/def statement of the stub must occur verbatim in final"""
import re, sys
def stmts(src):
    out = {}
    for m in re.finditer(r'^(theorem|def|inductive|structure)\s+(\S+)(.*?)(?=:= by|:=\n|:= |\n\n)', src, flags=re.S | re.M):
        out[m.group(2)] = ' '.join((m.group(1) + ' ' + m.group(2) + m.group(3)).split())
    return out
a, b = stmts(open(sys.argv[1]).read()), stmts(open(sys.argv[2]).read())
bad = [n for n in a if a[n] != b.get(n)]
for n in bad:
    print('CHANGED/MISSING:', n, '\n  stub :', a[n][:300], '\n  final:', (b.get(n) or '')[:300])
print(f'{len(a)} statements checked, {len(bad)} differ')
sys.exit(1 if bad else 0)
