#!/bin/sh
# usage: tools/cross_seed.sh <seeded dir> [Cxx ...]   — runs the quick check of EVERY claimed property (or the ones named) against one
# stored change, in a private copy of /verif and a scratch worktree of /repo, and prints which checks report it.
# (Experiment tool only: registered commands always run in /verif against /repo.)
set -u
d=$(cd "$1" && pwd); shift
here=$(cd "$(dirname "$0")/.." && pwd)
cp_=$(mktemp -d /tmp/xverif.XXXXXX)
wt=$(mktemp -d /tmp/xwt.XXXXXX); rmdir "$wt"
trap 'rm -rf "$cp_"; git -C /repo worktree remove --force "$wt" 2>/dev/null' EXIT
rsync -a --exclude .git --exclude replays --exclude seeded "$here"/ "$cp_"/
git -C /repo worktree add -q --detach "$wt" HEAD || exit 2
{ git -C "$wt" apply "$d/patch.diff" 2>/dev/null || { git -C "$wt" apply -3 "$d/patch.diff" 2>/dev/null || { git -C "$wt" reset -q --hard HEAD; false; }; } || git -C "$wt" apply -C1 "$d/patch.diff"; } || { echo "patch does not apply"; exit 2; }
props=${*:-$(python3 -c "import json;print(' '.join(c['property_id'] for c in json.load(open('$here/MANIFEST.json'))['checks']))")}
cd "$cp_"
for p in $props; do echo $p; done | xargs -P ${JOBS:-5} -I{} sh -c \
  'out=$(SYNAPGRAD_REPO='"$wt"' VERIF_SEED='"${SEED:-0}"' ./check {} --tier quick 2>&1); rc=$?; echo "{} rc=$rc $(echo "$out" | grep -c "^VIOLATION") $(echo "$out" | grep "^VIOLATION" | head -1 | cut -c1-100)"' | sort
