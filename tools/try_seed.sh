#!/bin/sh
# usage: tools/try_seed.sh <seeded dir> <Cxx> [more Cyy ...]  — applies patch.diff to a SCRATCH worktree of /repo (so that /repo itself
# stays untouched while other checks run against it), runs the quick checks against that worktree under SEEDS, removes it.
# (The registered commands always run against /repo; SYNAPGRAD_REPO only redirects them for this experiment.)
set -u
d=$1; shift
wt=$(mktemp -d /tmp/seedwt.XXXXXX); rmdir "$wt"
git -C /repo worktree add -q --detach "$wt" HEAD || exit 2
keep=$(mktemp -d /tmp/evidence.keep.XXXXXX); cp -r evidence/. "$keep"/
trap 'cp -r "$keep"/. evidence/; rm -rf "$keep"; git -C /repo worktree remove --force "$wt" 2>/dev/null; git checkout -- lean/SynapModel/Generated 2>/dev/null' EXIT
{ git -C "$wt" apply "$d/patch.diff" 2>/dev/null || { git -C "$wt" apply -3 "$d/patch.diff" 2>/dev/null || { git -C "$wt" reset -q --hard HEAD; false; }; } || git -C "$wt" apply -C1 "$d/patch.diff"; } || { echo "patch does not apply"; exit 2; }
for p in "$@"; do for s in ${SEEDS:-0}; do
  out=$(SYNAPGRAD_REPO="$wt" VERIF_SEED=$s ./check "$p" --tier ${TIER:-quick} 2>&1); rc=$?
  echo "rc=$rc seed=$s $(echo "$out" | grep -c '^VIOLATION') violation line(s): $(echo "$out" | tail -1)"
done; done
