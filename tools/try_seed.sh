#!/bin/sh
# usage: tools/try_seed.sh <seeded dir> <Cxx> [more Cyy ...]  — applies patch.diff to /repo, runs the quick checks under SEEDS, reverts
set -u
d=$1; shift
keep=$(mktemp -d /tmp/evidence.keep.XXXXXX); cp -r evidence/. "$keep"/; trap 'cp -r "$keep"/. evidence/; rm -rf "$keep"; git -C /repo checkout -- . 2>/dev/null; git checkout -- lean/SynapModel/Generated 2>/dev/null' EXIT
git -C /repo apply "$d/patch.diff" || { echo "patch does not apply"; exit 2; }
for p in "$@"; do for s in ${SEEDS:-0}; do
  out=$(VERIF_SEED=$s ./check "$p" --tier ${TIER:-quick} 2>&1); rc=$?
  echo "rc=$rc seed=$s $(echo "$out" | grep -c '^VIOLATION') violation line(s): $(echo "$out" | tail -1)"
done; done
git -C /repo checkout -- . ; git -C /repo status --short | head -3
