#!/bin/sh
# usage: tools/try_seed.sh <seeded dir> <Cxx> [more Cyy ...]   — applies seeded/<id>/patch.diff to /repo, runs the quick checks, reverts
set -u
d=$1; shift
git -C /repo apply "$d/patch.diff" || { echo "patch does not apply"; exit 2; }
for p in "$@"; do ./check "$p" --tier quick | tail -3; echo "exit=$? for $p"; done
git -C /repo checkout -- . ; git -C /repo status --short | head -3
