#!/bin/bash
# Battery for the effect extractor (C11 stage 2): tools/effects_battery_snippets.py holds small kernels `bad_*` (each modifies
# an operand through some aliasing / in-place form) and `ok_*` (in-place work on fresh arrays only).  They are appended to a
# scratch copy of the committed cpu_ops.py, translated by harness/effects.py, and the verdicts of the *Lean* analysis
# (`Synap.Effects.safe`) are checked by the kernel: every bad_* rejected, every ok_* accepted, every real kernel accepted.
# /repo is only read (git show).  usage: tools/effects_battery.sh [scratch dir]
set -e
VERIF="$(cd "$(dirname "$0")/.." && pwd)"
S="${1:-/tmp/agents/effects/tricks}"
rm -rf "$S"; mkdir -p "$S/synapgrad"
git -C /repo show HEAD:synapgrad/conv_tools.py > "$S/synapgrad/conv_tools.py"
git -C /repo show HEAD:synapgrad/cpu_ops.py > "$S/synapgrad/cpu_ops.py"
printf '\n\n' >> "$S/synapgrad/cpu_ops.py"; cat "$VERIF/tools/effects_battery_snippets.py" >> "$S/synapgrad/cpu_ops.py"
cd "$VERIF/harness" && /venv/bin/python effects.py --root "$S" --out "$S/Table.lean" | head -1
{ echo 'import SynapModel.Effects'; sed -n '2,$p' "$S/Table.lean" | sed 's/^namespace Synap.Generated/namespace Tricks/; s/^end Synap.Generated/end Tricks/'
  cat <<'LEAN'
open Synap.Effects Tricks
def battery := effectTable.filter (fun k => k.name.startsWith "bad_" || k.name.startsWith "ok_")
#eval (battery.length, (battery.filter (fun k => !safe k)).length, (battery.filter safe).map (·.name))
theorem battery_verdicts : battery.all (fun k => safe k == k.name.startsWith "ok_") = true := by decide +kernel
theorem rest_safe : (effectTable.filter (fun k => !(k.name.startsWith "bad_" || k.name.startsWith "ok_"))).all safe = true := by decide +kernel
LEAN
} > "$S/BatteryCheck.lean"
cd "$VERIF/lean" && lake env lean "$S/BatteryCheck.lean" && echo "battery: all verdicts as expected"
