#!/venv/bin/python
"""Mutation experiments for the effect table (C11 stage 2).

For every mutant: copy /repo/synapgrad/{cpu_ops,conv_tools}.py to a scratch tree, apply one textual change,
(optionally) run the changed kernel to show that it really modifies an operand at run time, regenerate
lean/SynapModel/Generated/EffectTable.lean from the scratch tree and `lake build Props.C11`.
`bad` mutants must make the build fail at `kernels_never_write_operands`; `benign` mutants (in-place work on
fresh arrays) must keep it green.  At the end the table is regenerated from the unchanged /repo and built again.
/repo is never written.   usage: tools/effects_mutants.py [--scratch DIR] [--only NAME …] [--json OUT]"""
import os, sys, shutil, subprocess, json, time, argparse, textwrap

HERE = os.path.dirname(os.path.abspath(__file__))
VERIF = os.path.dirname(HERE)
sys.path.insert(0, os.path.join(VERIF, 'harness'))
import common, effects

CPU, CONV = 'synapgrad/cpu_ops.py', 'synapgrad/conv_tools.py'
FUN, NNF, TEN = 'synapgrad/functional.py', 'synapgrad/nn/functional.py', 'synapgrad/tensor.py'
A = 'np.arange(24.0).reshape(2, 3, 4) + 1'

# (name, kind, file, old, new, probe)   probe: Python source run against the scratch tree; must print CHANGED if an operand changed
MUTANTS = [
    ('batch_norm_forward: x -= x.mean(...)', 'bad', CPU,
     "    n = x.size / x.shape[1]\n    if training and n <= 1:",
     "    n = x.size / x.shape[1]\n    x -= x.mean(axis=normed_dims, keepdims=True)\n    if training and n <= 1:",
     f"x = {A}; b = x.tobytes(); m.batch_norm_forward(x, None, None, None, None, True, 0.1, 1e-5); print('CHANGED' if x.tobytes() != b else 'same')"),
    ('mul_backward: grad *= b', 'bad', CPU,
     "    grad_a = grad * b\n    grad_b = grad * a",
     "    grad_b = grad * a\n    grad *= b\n    grad_a = grad",
     f"g = {A}; b = g.tobytes(); m.mul_backward(g, g + 1, g + 2); print('CHANGED' if g.tobytes() != b else 'same')"),
    ('relu_forward: v = a.reshape(-1); v[0] = 0', 'bad', CPU,
     "    return np.maximum(0, a)",
     "    v = a.reshape(-1)\n    v[0] = 0\n    return np.maximum(0, a)",
     f"x = {A}; b = x.tobytes(); m.relu_forward(x); print('CHANGED' if x.tobytes() != b else 'same')"),
    ('slice_forward: np.add.at(a, s, 1.0)', 'bad', CPU,
     "    return a[s]",
     "    np.add.at(a, s, 1.0)\n    return a[s]",
     f"x = {A}; b = x.tobytes(); m.slice_forward(x, (0,)); print('CHANGED' if x.tobytes() != b else 'same')"),
    ('exp_forward: np.exp(a, out=a)', 'bad', CPU,
     "    return np.exp(a)", "    return np.exp(a, out=a)",
     f"x = {A}; b = x.tobytes(); m.exp_forward(x); print('CHANGED' if x.tobytes() != b else 'same')"),
    ('sqrt_forward: np.sqrt(a, a)  (positional out)', 'bad', CPU,
     "    return np.sqrt(a)", "    return np.sqrt(a, a)",
     f"x = {A}; b = x.tobytes(); m.sqrt_forward(x); print('CHANGED' if x.tobytes() != b else 'same')"),
    ('unsqueeze_forward (helper inlined into 12 kernels): a[...] = 0', 'bad', CPU,
     "    return np.expand_dims(a, axis)", "    a[...] = 0\n    return np.expand_dims(a, axis)",
     f"g = np.ones((2, 4)); b = g.tobytes(); m.sum_backward(g, (2, 3, 4), 1, False); print('CHANGED' if g.tobytes() != b else 'same')"),
    ('softmax_forward: write through a tuple / conditional expression / .T', 'bad', CPU,
     "    shiftx = a - a.max(axis=axis, keepdims=True) ",
     "    t = (a, a.T)\n    w = t[1] if axis else t[0]\n    w[0] = 0\n    shiftx = a - a.max(axis=axis, keepdims=True) ",
     f"x = {A}; b = x.tobytes(); m.softmax_forward(x, 1); print('CHANGED' if x.tobytes() != b else 'same')"),
    ('sum_forward: loop in which the write precedes the re-binding (t[0] = 0; t = a)', 'bad', CPU,
     "    return np.sum(a, axis=axis, keepdims=keepdims)",
     "    t = np.zeros(3)\n    for i in range(2):\n        t[0] = 0\n        t = a\n    return np.sum(a, axis=axis, keepdims=keepdims)",
     f"x = {A}; b = x.tobytes(); m.sum_forward(x, None, False); print('CHANGED' if x.tobytes() != b else 'same')"),
    ('tanh_forward: b = np.asarray(a); b *= 2', 'bad', CPU,
     "    return np.tanh(a)", "    b = np.asarray(a)\n    b *= 2\n    return np.tanh(a)",
     f"x = {A}; b = x.tobytes(); m.tanh_forward(x); print('CHANGED' if x.tobytes() != b else 'same')"),
    ('sigmoid_forward: c = a.astype(a.dtype, copy=False); c[...] = 1', 'bad', CPU,
     "    return 1/(1 + np.exp(-a))", "    c = a.astype(a.dtype, copy=False)\n    c[...] = 1\n    return 1/(1 + np.exp(-a))",
     f"x = {A}; b = x.tobytes(); m.sigmoid_forward(x); print('CHANGED' if x.tobytes() != b else 'same')"),
    ('place_windows (conv_tools): windows[...] = 0 after moveaxis', 'bad', CONV,
     "    windows = np.moveaxis(windows, dims, 0)\n",
     "    windows = np.moveaxis(windows, dims, 0)\n    windows[...] = 0\n",
     "w = np.ones((3, 1, 1, 2)); b = w.tobytes(); c.place_windows(w, (1, 1, 4), 2); print('CHANGED' if w.tobytes() != b else 'same')"),
    ('neg_forward: l = [a] * 2; l[1][...] = 0  (list repetition keeps references)', 'bad', CPU,
     "    return -a", "    l = [a] * 2\n    l[1][...] = 0\n    return -a",
     f"x = {A}; b = x.tobytes(); m.neg_forward(x); print('CHANGED' if x.tobytes() != b else 'same')"),
    ('log_forward: for row in a: row[0] = 0', 'bad', CPU,
     "    return np.log(a + epsilon)", "    for row in a:\n        row[0] = 0\n    return np.log(a + epsilon)",
     f"x = {A}; b = x.tobytes(); m.log_forward(x); print('CHANGED' if x.tobytes() != b else 'same')"),
    ('mse_loss_forward: np.copyto(y_true, y_pred)  (target overwritten)', 'bad', CPU,
     "    loss = (y_pred - y_true)**2", "    np.copyto(y_true, y_pred)\n    loss = (y_pred - y_true)**2",
     f"p = {A}; t = p + 1; b = t.tobytes(); m.mse_loss_forward(p, t); print('CHANGED' if t.tobytes() != b else 'same')"),
    ('nll_loss_backward: y_true.fill(0)', 'bad', CPU,
     "    loss_grad = np.zeros(y_pred.shape)\n", "    loss_grad = np.zeros(y_pred.shape)\n    y_true.fill(0)\n",
     "p = np.ones((2, 3)); t = np.array([1, 2]); b = t.tobytes(); m.nll_loss_backward(np.ones(2), p, t); print('CHANGED' if t.tobytes() != b else 'same')"),
    ('max_forward: a.sort()', 'bad', CPU,
     "    return np.max(a, axis=axis, keepdims=keepdims)", "    a.sort()\n    return np.max(a, axis=axis, keepdims=keepdims)",
     "x = np.array([3., 1., 2.]); b = x.tobytes(); m.max_forward(x, None, False); print('CHANGED' if x.tobytes() != b else 'same')"),
    ('clone_forward: np.nan_to_num(a, copy=False)  (a call the extractor does not know)', 'bad', CPU,
     "    return a.copy()", "    np.nan_to_num(a, copy=False)\n    return a.copy()",
     "x = np.array([np.nan, 1.]); b = x.tobytes(); m.clone_forward(x); print('CHANGED' if x.tobytes() != b else 'same')"),
    ('rpow_forward: f = lambda z: z.fill(0); f(a)', 'bad', CPU,
     "    return n ** a", "    f = lambda z: z.fill(0)\n    f(a)\n    return n ** a",
     f"x = {A}; b = x.tobytes(); m.rpow_forward(x, 2.0); print('CHANGED' if x.tobytes() != b else 'same')"),
    ('pow_forward: nested def helper(z): z += 1; helper(a)', 'bad', CPU,
     "    return a ** n", "    def helper(z):\n        z += 1\n    helper(a)\n    return a ** n",
     f"x = {A}; b = x.tobytes(); m.pow_forward(x, 2); print('CHANGED' if x.tobytes() != b else 'same')"),
    ('min_forward: [r.fill(0) for r in np.split(a, 2)]', 'bad', CPU,
     "    return np.min(a, axis=axis, keepdims=keepdims)", "    [r.fill(0) for r in np.split(a, 2)]\n    return np.min(a, axis=axis, keepdims=keepdims)",
     f"x = {A}; b = x.tobytes(); m.min_forward(x, None, False); print('CHANGED' if x.tobytes() != b else 'same')"),
    ('mean_forward: a.flat[0] = 7', 'bad', CPU,
     "    return np.mean(a, axis=axis, keepdims=keepdims)", "    a.flat[0] = 7\n    return np.mean(a, axis=axis, keepdims=keepdims)",
     f"x = {A}; b = x.tobytes(); m.mean_forward(x, None, False); print('CHANGED' if x.tobytes() != b else 'same')"),
    ('conv2d_backward: grad /= 2 in the bias branch', 'bad', CPU,
     "        bias_grad = grad.sum(axis=(0,2,3))", "        grad /= 2\n        bias_grad = grad.sum(axis=(0,2,3))", None),
    # ---- phase 2 / 3: wrappers, closures, Tensor methods (probes import the whole scratch package)
    ('clone closure: x._grad = a_grad instead of += (a_grad IS the upstream gradient array)', 'bad', FUN,
     "            a_grad = cpu_ops.clone_backward(grad_output.data)\n        else:\n            raise RuntimeError(f\"{grad_output.device} not supported\")\n        \n        if x.requires_grad: x._grad += a_grad",
     "            a_grad = cpu_ops.clone_backward(grad_output.data)\n        else:\n            raise RuntimeError(f\"{grad_output.device} not supported\")\n        \n        if x.requires_grad: x._grad = a_grad",
     "x = sg.Tensor(np.ones(3), requires_grad=True); y = x.clone(); z = (y * y); y.retain_grad(); z.backward(sg.Tensor(np.ones(3))); print('CHANGED' if np.shares_memory(x._grad, y._grad) else 'same')"),
    ('add closure: x1._grad = a_grad instead of += (a_grad is a fresh array: no aliasing, a C03 defect, not a C11 one)', 'benign', FUN,
     "            a_grad, b_grad = cpu_ops.add_backward(grad_output.data, x1.shape, x2.shape)\n        else:\n            raise RuntimeError(f\"{grad_output.device} not supported\")\n        \n        if x1.requires_grad: x1._grad += a_grad",
     "            a_grad, b_grad = cpu_ops.add_backward(grad_output.data, x1.shape, x2.shape)\n        else:\n            raise RuntimeError(f\"{grad_output.device} not supported\")\n        \n        if x1.requires_grad: x1._grad = a_grad", None),
    ('mul closure: grad_output.data *= 2', 'bad', FUN,
     "            a_grad, b_grad = cpu_ops.mul_backward(grad_output.data, x1.data, x2.data)",
     "            grad_output.data *= 2\n            a_grad, b_grad = cpu_ops.mul_backward(grad_output.data, x1.data, x2.data)",
     "x = sg.Tensor(np.ones(3), requires_grad=True); y = x * x; y.retain_grad(); z = y * 3.0; z.backward(sg.Tensor(np.ones(3))); print('CHANGED' if not np.allclose(y._grad, 3.0) else 'same')"),
    ('relu wrapper: x.data[...] = 0', 'bad', NNF,
     "        out_data = cpu_ops.relu_forward(x.data)", "        out_data = cpu_ops.relu_forward(x.data)\n        x.data[...] = 0",
     "import synapgrad.nn.functional as NF; x = sg.Tensor(np.ones(3)); b = x.data.tobytes(); NF.relu(x); print('CHANGED' if x.data.tobytes() != b else 'same')"),
    ('relu wrapper: out_data = np.maximum(x.data, 0, out=x.data)', 'bad', NNF,
     "        out_data = cpu_ops.relu_forward(x.data)", "        out_data = np.maximum(x.data, 0, out=x.data)",
     "import synapgrad.nn.functional as NF; x = sg.Tensor(-np.ones(3)); b = x.data.tobytes(); NF.relu(x); print('CHANGED' if x.data.tobytes() != b else 'same')"),
    ('exp wrapper: x.data = x.data * 2 (re-binding of an operand\'s data, no buffer written)', 'bad', FUN,
     "        out_data = cpu_ops.exp_forward(x.data)", "        out_data = cpu_ops.exp_forward(x.data)\n        x.data = x.data * 2",
     "x = sg.Tensor(np.ones(3)); x.exp(); print('CHANGED' if x.data[0] != 1.0 else 'same')"),
    ('Tensor.backward: grad_data = grad.data (no copy)', 'bad', TEN,
     "        grad_data = grad.data.astype(self.dtype) # own copy, in the dtype of this tensor", "        grad_data = grad.data",
     "x = sg.Tensor(np.ones(3), requires_grad=True); g = sg.Tensor(np.ones(3)); x.backward(g); print('CHANGED' if np.shares_memory(x._grad, g.data) else 'same')"),
    ('Tensor.backward: grad.data.astype(self.dtype, copy=False)', 'bad', TEN,
     "        grad_data = grad.data.astype(self.dtype) # own copy, in the dtype of this tensor", "        grad_data = grad.data.astype(self.dtype, copy=False)",
     "x = sg.Tensor(np.ones(3, dtype=np.float32), requires_grad=True); g = sg.Tensor(np.ones(3, dtype=np.float32)); x.backward(g); print('CHANGED' if np.shares_memory(x._grad, g.data) else 'same')"),
    ('Tensor.zero_: the gradient buffer is the data array (self.grad = Tensor(self.data))', 'bad', TEN,
     "        self.grad = Tensor(np.zeros_like(self.data), device=self.device)", "        self.grad = Tensor(self.data, device=self.device)",
     "x = sg.Tensor(np.ones(3), requires_grad=True); x.zero_(); print('CHANGED' if np.shares_memory(x._grad, x.data) else 'same')"),
    ('Tensor.detach returns a view (no .copy())', 'bad', TEN,
     "        return Tensor(self.data.copy(), requires_grad=False, name=self.name, device=self.device)", "        return Tensor(self.data, requires_grad=False, name=self.name, device=self.device)",
     "x = sg.Tensor(np.ones(3)); print('CHANGED' if np.shares_memory(x.detach().data, x.data) else 'same')"),
    ('clone_forward returns its operand (kernel; reaches F.clone and Tensor.clone)', 'bad', CPU,
     "    return a.copy()", "    return a",
     "x = sg.Tensor(np.ones(3)); print('CHANGED' if np.shares_memory(x.clone().data, x.data) else 'same')"),
    ('benign refactor of the mul closure: local renamed, expression split', 'benign', FUN,
     "            a_grad, b_grad = cpu_ops.mul_backward(grad_output.data, x1.data, x2.data)\n        else:\n            raise RuntimeError(f\"{grad_output.device} not supported\")\n        \n        if x1.requires_grad: x1._grad += a_grad \n        if x2.requires_grad: x2._grad += b_grad",
     "            upstream = grad_output.data\n            grads = cpu_ops.mul_backward(upstream, x1.data, x2.data)\n            ga = grads[0]\n            gb = grads[1]\n        else:\n            raise RuntimeError(f\"{grad_output.device} not supported\")\n        \n        if x1.requires_grad: x1._grad += ga\n        if x2.requires_grad: x2._grad += gb", None),
    ('benign refactor of Tensor.detach: d = self.data.copy(); return Tensor(d, …)', 'benign', TEN,
     "        return Tensor(self.data.copy(), requires_grad=False, name=self.name, device=self.device)", "        d = self.data.copy()\n        return Tensor(d, requires_grad=False, name=self.name, device=self.device)", None),
    # ---- benign: in-place work on arrays the kernel allocated itself; the build must stay green
    ('exp_forward: out = np.exp(a); out += 1', 'benign', CPU,
     "    return np.exp(a)", "    out = np.exp(a)\n    out += 1\n    return out", None),
    ('relu_forward: b = a.copy(); b[0] = 0; v = a.reshape(-1); w = v * 2; w[0] = 0', 'benign', CPU,
     "    return np.maximum(0, a)", "    b = a.copy()\n    b[0] = 0\n    v = a.reshape(-1)\n    w = v * 2\n    w[0] = 0\n    return np.maximum(0, a)", None),
    ('slice_forward: b = np.zeros_like(a); np.add.at(b, s, a[s]); np.exp(a, out=b)', 'benign', CPU,
     "    return a[s]", "    b = np.zeros_like(a)\n    np.add.at(b, s, a[s])\n    np.exp(a, out=b)\n    return a[s]", None),
]


def sh(cmd, **kw):
    return subprocess.run(cmd, capture_output=True, text=True, **kw)


def theorem_at(err):
    """name of the theorem of Props/C11.lean that contains the reported line"""
    import re
    m = re.search(r'C11\.lean:(\d+)', err)
    if not m: return '?'
    lines = open(os.path.join(common.LEAN_DIR, 'Props', 'C11.lean')).read().split('\n')
    for i in range(int(m.group(1)) - 1, -1, -1):
        mm = re.match(r'theorem (\S+)', lines[i])
        if mm: return mm.group(1)
    return '?'


def build():
    p = sh(['lake', 'build', 'Props.C11'], cwd=common.LEAN_DIR)
    errs = [l for l in (p.stdout + p.stderr).split('\n') if l.startswith('error:')]
    return p.returncode == 0, errs


def main():
    ap = argparse.ArgumentParser()
    ap.add_argument('--scratch', default='/tmp/agents/effects/scratch')
    ap.add_argument('--only', nargs='*')
    ap.add_argument('--json', default=None)
    a = ap.parse_args()
    results = []
    # baseline = the committed source (`git show HEAD:…`, read-only): the working tree of /repo may be modified transiently
    # by other experiments running on this machine
    base = a.scratch.rstrip('/') + '-base'
    shutil.rmtree(base, ignore_errors=True)
    os.makedirs(base)
    p = subprocess.run('git -C /repo archive HEAD synapgrad | tar -x -C ' + base, shell=True, capture_output=True, text=True)
    assert p.returncode == 0, p.stderr
    try:
        for name, kind, rel, old, new, probe in MUTANTS:
            if a.only and not any(o in name for o in a.only):
                continue
            t0 = time.time()
            shutil.rmtree(a.scratch, ignore_errors=True)
            shutil.copytree(base, a.scratch)
            path = os.path.join(a.scratch, rel)
            src = open(path).read()
            assert src.count(old) >= 1, (name, src.count(old))
            open(path, 'w').write(src.replace(old, new, 1))
            compile(open(path).read(), path, 'exec')
            runtime = None
            if probe:
                code = ("import sys, warnings, io; warnings.simplefilter('ignore'); sys.path.insert(0, %r); sys.path.insert(0, %r)\nimport numpy as np\n"
                        "import synapgrad as sg, synapgrad.cpu_ops as m, synapgrad.conv_tools as c\nassert m.__file__.startswith(%r)\n"
                        % (os.path.join(VERIF, 'harness', 'stubs'), a.scratch, a.scratch)) + probe
                p = sh([sys.executable, '-c', code])
                runtime = p.stdout.strip().split('\n')[-1] if p.returncode == 0 else 'probe failed: ' + p.stderr.strip().split('\n')[-1][:120]
            notes = effects.write_effect_table(root=a.scratch)
            predicted = [l for l in notes if 'PREDICTED UNSAFE' in l]
            ok, errs = build()
            expected_ok = kind == 'benign'
            results.append({'mutant': name, 'kind': kind, 'file': rel, 'runtime_probe': runtime, 'build_ok': ok,
                            'as_expected': ok == expected_ok,
                            'failing_theorem': None if ok else ', '.join(theorem_at(e) for e in errs if 'C11.lean' in e),
                            'lean_errors': errs[:2], 'extractor_diagnostic': (predicted[0].split(': ', 2)[-1][:400] if predicted else None),
                            'wall_s': round(time.time() - t0, 1)})
            r = results[-1]
            print(f"[{kind:6}] {name}\n         runtime: {runtime}; lake build Props.C11: {'ok' if ok else 'FAILED'}; "
                  f"{'as expected' if r['as_expected'] else 'UNEXPECTED'} ({r['wall_s']} s)", flush=True)
            if errs: print('         fails at: ' + str(r['failing_theorem']) + '   ' + str(r['extractor_diagnostic'])[:160], flush=True)
    finally:
        # back to the unchanged source
        notes = effects.write_effect_table(root=base)
        ok, errs = build()
        print(f"unchanged source (HEAD of /repo): {notes[0]}\n         lake build Props.C11: {'ok' if ok else 'FAILED ' + str(errs[:2])}", flush=True)
        results.append({'mutant': '(none: unchanged source, HEAD of /repo)', 'extractor': notes[0], 'kind': 'baseline', 'build_ok': ok, 'as_expected': ok})
    if a.json:
        json.dump(results, open(a.json, 'w'), indent=1)
    bad = [r for r in results if not r['as_expected']]
    print(f"{len(results) - 1} mutants, {len(bad)} unexpected outcomes")
    return 1 if bad else 0


if __name__ == '__main__':
    sys.exit(main())
