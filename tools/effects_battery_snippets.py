# ---------------------------------------------------------------- battery (bad_* must be unsafe, ok_* must be safe)
def bad_01(a, b):
    x = a if b is None else a.copy()
    x[0] = 0
def bad_02(a, b):
    np.negative(a, a)
def bad_03(a, b):
    a.T[0] = 1
def bad_04(a, b):
    np.reshape(a, -1)[0] = 1
def bad_05(a, b):
    d = {'k': a}
    d['k'][0] = 1
def bad_06(a, b):
    (lambda: a.fill(0))()
def bad_07(a, b):
    getattr(a, 'fill')(0)
def bad_08(a, b):
    np.ndarray.fill(a, 0)
def bad_09(a, b):
    out = a
    np.exp(b, out)
def bad_10(a, b):
    np.add(a, 1, out=(a,))
def bad_11(a, b):
    np.matmul(a, b, a)
def bad_12(a, b):
    a.clip(0, 1, a)
def bad_13(a, b):
    np.exp(*[a, a])
def bad_14(a, b):
    np.exp(a, **{'out': a})
def bad_15(a, b):
    np = a
    np.fill(0)
def bad_16(a, b):
    f = np.add.at
    f(a, 0, 1)
def bad_17(a, b):
    a.data[0] = 1
def bad_18(a, b):
    np.frombuffer(a)[0] = 1
def bad_19(a, b):
    x, y = a, b
    y += 1
def bad_20(a, b):
    l = []
    l.append(a)
    l[0][0] = 1
def bad_21(a, b):
    l = [[a]]
    m = l[0] * 2
    m[1][0] = 5
def bad_22(a, b):
    del a[0]
def bad_23(a, b):
    a.shape = (-1,)
def bad_24(a, b):
    if (v := a[1:]) is not None:
        v -= 1
def bad_25(a, b):
    for i, (x, y) in enumerate(zip(a, b)):
        x[...] = y
def bad_26(a, b):
    w = extract_windows(a, 2)
    w2 = np.lib.stride_tricks.as_strided(w, shape=(1,), strides=(8,))
    w2[0] = 1
def bad_27(a, b):
    g = unbroadcast(a, a.shape)
    g += 1
def bad_28(a, b):
    import operator
    operator.iadd(a, 1)
def bad_29(a, b):
    class K: pass
def bad_30(a, b):
    global epsilon
    epsilon = a
def bad_31(a, b):
    t = b
    t = a
    s = t
    t = np.zeros(3)
    s[0] = 1
def bad_32(a, *rest):
    rest[0][...] = 0
def bad_33(a, b):
    np.einsum('ii->i', a)[...] = 0
def bad_34(a, b):
    c = np.broadcast_to(a, (2,) + a.shape)
    d = np.require(c, requirements='W') if False else np.squeeze(np.atleast_2d(a))
    d += 1
def bad_35(a, b):
    sum([], a).fill(0)
def bad_36(a, b):
    max(a, b, key=id)[...] = 0
def ok_01(a, b):
    x = a * 2
    x[0] = 0
    y = np.where(a > 0, a, b)
    y += 1
    z = np.concatenate([a, b])
    z.sort()
    return x, y, z
def ok_02(a, b):
    m = np.zeros_like(a)
    np.put_along_axis(m, np.argmax(a, axis=0, keepdims=True), 1, axis=0)
    g, h = mul_backward(a, a, b)
    g += 1
    h *= 2
    return m, g
def ok_03(a, b):
    s = [slice(None)] * a.ndim
    s[0] = slice(0, 1)
    acc = np.zeros(a.shape)
    for i in range(3):
        acc[tuple(s)] += a[tuple(s)]
    return acc
def ok_04(a, b):
    w = extract_windows(a, 2)
    out = place_windows(w, a.shape, 2)
    out /= 2
    c = a.astype(np.float32)
    c -= 1
    d = a.flatten()
    d[0] = 0
    e = np.array(a)
    e[...] = 0
    return out
