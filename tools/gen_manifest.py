#!/usr/bin/env python3-vt
"""Regenerates MANIFEST.json from the table below (kept here so the manifest is always valid)."""
import json, os
HERE = os.path.dirname(os.path.dirname(os.path.abspath(__file__)))
NOTE = ("Trusted: Lean 4.33.0 kernel; axioms propext/Classical.choice/Quot.sound only (audited on every run, no sorry/"
        "native_decide/own axioms); the hand-written Lean model is tied to /repo by the correspondence run (sampling, "
        "distribution reported in the evidence) and by tables regenerated from the source where stated; NumPy and CPython "
        "are modelled, not verified.")
CLAIMED = {
 'C18': ('Lean proof over the list model of data.py + correspondence run',
         'Theorems for every length/fraction/shuffle/batch size (partition, floor sizes, exact aligned batches, one-hot) about Synap.Data; the model is executed against split_dataset/DataLoader/one_hot_encode on a grid incl. shuffles, batch 0, batch > n, transform on/off.', '6 C18'),
 'C20': ('Lean proof over the event-trace model of Trainer.fit + correspondence run',
         'Trace theorem: fit = epochs copies of an explicit epoch block, hence epochs*batches steps, each step after forward(train mode)/zero_grad/backward, validation in eval mode inside no_grad with no step, grad mode restored, history shape, accuracy; the real Trainer is run with recording wrappers on the whole configuration grid and must produce the model trace.', '6 C20'),
}
CLAIMED['C12'] = ('Lean proof over the module-world model (ids, two ordered registries) + correspondence run',
         'Theorems for every world/tree shape/sharing/assignment history: parameters() has no duplicates, equals first-occurrence de-duplication of the pre-order listing, contains exactly the parameters registered on reachable modules, num_params splits, setattr replaces the registration, train/eval reach exactly the descendants, Sequential order; random module programs with shared and re-assigned attributes are run on the real Module/Sequential and on the model.', '6 C12')
CLAIMED['C08'] = ('Lean refinement proof: optimizer history model refines the published recursions + correspondence run',
         'For every hyper-parameter setting, parameter count and history over {backward, zero_grad, step, freeze/unfreeze}: each parameter trajectory under SGD (momentum, dampening, Nesterov, weight decay, maximize), Adam, AdamW equals the left fold of the documented update over the effective gradients; frozen parameters fixed; parameters independent. The real optimizers are run on generated histories (several backward per step, steps without zero_grad, frozen parameters) and compared element-wise with the model after every event, plus in-place/dtype/shape flags.', '6 C08')
CLAIMED['C13'] = ('Lean proof over the BatchNorm/Dropout history model + correspondence run with captured draws',
         'For every option setting and every history: eval forwards never change the layer state and normalise with the running statistics; a training forward advances the counter once and moves running mean / unbiased variance by the documented factor; closed forms of the exponential and cumulative averages; without tracking the batch statistics are always used; Dropout is the identity in eval, zeroes exactly the draws <= p and scales survivors by 1/(1-p), and its backward is the transpose through the same mask. Real layers are run on generated histories over the option grid; uniform draws are captured so the mask relation is exact.', '6 C13')
CLAIMED['C15'] = ('Lean proof over the request model of nn/init.py + correspondence with captured generator arguments',
         'Theorems: fan_in/fan_out formula and rank guard, gain table, and for each initialiser the (low, high | mean, std) handed to the generator equal the documented expressions (std itself, not std^2; gain/sqrt(fan); U(-1/sqrt(fan_in), 1/sqrt(fan_in)) for layers). The real initialisers and layer constructors run with np.random.uniform/normal wrapped: captured arguments must equal the model request and the tensor data must be the draw with the model parameters; identity, shape, dtype, requires_grad preserved.', '6 C15')
PENDING = {}
ALL = [f'C{i:02d}' for i in range(1, 21)]

def main():
    checks = []
    for pid in ALL:
        if pid in CLAIMED:
            tech, text, ref = CLAIMED[pid]
            checks.append({
                'property_id': pid,
                'quick_cmd': f'./check {pid} --tier quick',
                'thorough_cmd': f'./check {pid} --tier thorough',
                'evidence_file': f'evidence/{pid}.json',
                'replay_cmd_template': './check --replay {path}',
                'engine': 'lean-model',
                'level_claimed': {'category': 'proof', 'text': text, 'design_ref': f'DESIGN.md section {ref}'},
                'level_note': NOTE,
                'technique': tech,
            })
    na = [{'property_id': p, 'reason': PENDING.get(p, 'check not built yet in this round (model and theorems in progress; see DESIGN.md section 9 staging); not a claim that the technique cannot apply')}
          for p in ALL if p not in CLAIMED]
    m = {
        'version': 1,
        'setup_cmd': 'cd lean && lake build',
        'hooks': {'guard': 'SYNAPGRAD_VERIF', 'enable': 'no source hooks: every observation is made by wrapping public objects from the harness',
                  'baseline_off_cmd': 'cd /repo && /venv/bin/python -m pytest -ra -q -p no:cacheprovider --timeout=900 --continue-on-collection-errors',
                  'source_commits': [], 'add_only': True},
        'engines': [{'name': 'lean-model', 'path': 'lean/', 'serves_properties': sorted(CLAIMED),
                     'kind_free_text': 'Lean 4 model (SynapModel/), theorems (Props/), compiled line-protocol driver (synapdrv) run against the implementation by harness/check.py'}],
        'checks': checks,
        'not_applicable': na,
        'notes': 'Genuine defects repaired in /repo by "fix:" commits are listed in known_findings.jsonl (kind fixed).',
    }
    with open(os.path.join(HERE, 'MANIFEST.json'), 'w') as f:
        json.dump(m, f, indent=1)
    import jsonschema
    jsonschema.validate(m, json.load(open('/root/.vp/MANIFEST.schema.json')))
    print('MANIFEST ok:', len(checks), 'claimed,', len(na), 'not claimed')

if __name__ == '__main__':
    main()
