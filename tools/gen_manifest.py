#!/usr/bin/env python3-vt
"""Regenerates MANIFEST.json from the table below (kept here so the manifest is always valid)."""
import json, os
HERE = os.path.dirname(os.path.dirname(os.path.abspath(__file__)))
NOTE = ("Trusted: Lean 4.33.0 kernel; axioms propext/Classical.choice/Quot.sound only (audited on every run, no sorry/"
        "native_decide/own axioms); the hand-written Lean model is tied to /repo by the correspondence run (sampling, "
        "distribution reported in the evidence) and by tables regenerated from the source where stated; NumPy and CPython "
        "are modelled, not verified.")
CLAIMED = {
 'C18': ('Lean proof over the list model of data.py + correspondence run',
         'Theorems for every length/fraction/shuffle/batch size (partition, floor sizes, exact aligned batches, one-hot) about Synap.Data; the model is executed against split_dataset/DataLoader/one_hot_encode on a grid incl. shuffles, batch 0, batch > n, transform on/off.', '6 C18'),
 'C20': ('Lean proof over the event-trace model of Trainer.fit + correspondence run',
         'Trace theorem: fit = epochs copies of an explicit epoch block, hence epochs*batches steps, each step after forward(train mode)/zero_grad/backward, validation in eval mode inside no_grad with no step, grad mode restored, history shape, accuracy; the real Trainer is run with recording wrappers on the whole configuration grid and must produce the model trace.', '6 C20'),
}
CLAIMED['C12'] = ('Lean proof over the module-world model (ids, two ordered registries) + correspondence run',
         'Theorems for every world/tree shape/sharing/assignment history: parameters() has no duplicates, equals first-occurrence de-duplication of the pre-order listing, contains exactly the parameters registered on reachable modules, num_params splits, setattr replaces the registration, train/eval reach exactly the descendants, Sequential order; random module programs with shared and re-assigned attributes are run on the real Module/Sequential and on the model.', '6 C12')
CLAIMED['C08'] = ('Lean refinement proof: optimizer history model refines the published recursions + correspondence run',
         'For every hyper-parameter setting, parameter count and history over {backward, zero_grad, step, freeze/unfreeze}: each parameter trajectory under SGD (momentum, dampening, Nesterov, weight decay, maximize), Adam, AdamW equals the left fold of the documented update over the effective gradients; frozen parameters fixed; parameters independent. The real optimizers are run on generated histories (several backward per step, steps without zero_grad, frozen parameters) and compared element-wise with the model after every event, plus in-place/dtype/shape flags.', '6 C08')
CLAIMED['C13'] = ('Lean proof over the BatchNorm/Dropout history model + correspondence run with captured draws',
         'For every option setting and every history: eval forwards never change the layer state and normalise with the running statistics; a training forward advances the counter once and moves running mean / unbiased variance by the documented factor; closed forms of the exponential and cumulative averages; without tracking the batch statistics are always used; Dropout is the identity in eval, zeroes exactly the draws <= p and scales survivors by 1/(1-p), and its backward is the transpose through the same mask. Real layers are run on generated histories over the option grid; uniform draws are captured so the mask relation is exact.', '6 C13')
CLAIMED['C15'] = ('Lean proof over the request model of nn/init.py + correspondence with captured generator arguments',
         'Theorems: fan_in/fan_out formula and rank guard, gain table, and for each initialiser the (low, high | mean, std) handed to the generator equal the documented expressions (std itself, not std^2; gain/sqrt(fan); U(-1/sqrt(fan_in), 1/sqrt(fan_in)) for layers). The real initialisers and layer constructors run with np.random.uniform/normal wrapped: captured arguments must equal the model request and the tensor data must be the draw with the model parameters; identity, shape, dtype, requires_grad preserved.', '6 C15')
CLAIMED['C03'] = ('Lean proof: reverse-mode sweep of the engine model is the transpose of forward mode on any DAG + regenerated op table + correspondence on random DAG programs',
         'Theorems about the model of Tensor.backward for every finite DAG: post-order is topological and covers exactly the reachable nodes; each grad_fn is called exactly once; backward completes; chain_rule_any_dag (for any bi-additive pairing and any tangent assignment obeying the forward recursion, the root pairing equals the total increment of the leaf pairings: sum over all paths, fan-out, repeated operands, multi-output ops, mixed requires_grad). The per-op adjoint identity is a hypothesis here (C01/C02). A table of all 48 op wrappers is regenerated from the source each run and proved well-formed by decide. Random DAG programs (values, flags, engine trace, all gradients, shuffled construction order) are run on model and implementation.', '3.2, 6 C03')
CLAIMED['C04'] = ('Lean proof over the engine model for arbitrary buffer states (= any history) + correspondence on generated histories',
         'Theorems: the traversal freshly zeroes every non-leaf operand; no_leftover_leak (states differing only in gradients left on non-leaf tensors give the same trace and the same gradients on reachable nodes and leaves); leaf_gradients_accumulate (the increment a call adds to a leaf is independent of all buffers); unreachable tensors untouched, only buffers change. Histories over shared leaves (backward from any node incl. earlier roots/interiors, repeats, retain_grad, retain_grads, zeroing, re-use) compare every gradient after every event.', '3.2, 6 C04')
CLAIMED['C07'] = ('Lean proof over the grad-mode / tensor-creation model + correspondence on event sequences',
         'Theorems: a context restores the mode in force at entry whatever its stale prev field held (normal exit and exit by exception run the same __exit__); modes_stack for every well-nested block structure at any depth; result flag = mode and any operand; a result that does not require grad has no grad_fn, no operands, no gradient, refuses backward and never acquires a gradient; float-only rule at creation and in the setter (leaves only); release rule after backward. Event sequences with pre-constructed and re-used contexts, exits by exception, mixed dtypes and flags are run on both sides comparing modes and all flags after every event.', '3.2, 6 C07')
CLAIMED['C17'] = ('Lean proof (each op once, linear trace, no history for untracked results) + correspondence on deep/wide graphs; runtime residue observed',
         'Theorems for graphs of any depth: the traversal covers exactly the reachable nodes once, each grad_fn is called exactly once, at most 3 engine events per reachable node, backward completes; an untracked result (no_grad or no operand requiring grad) holds no operands and no grad_fn. PARTIAL by nature: CPython recursion depth, reference counting and wall time cannot be exhibited by a model; they are observed on the implementation (50 000-op chain, 100 000 untracked updates with weakrefs) and a failure there is reported with that run as the replay.', '6 C17')
CLAIMED['C19'] = ('Lean proof over the regenerated random-site table and an abstract non-interference theorem + double-run correspondence',
         'Theorems: every call site of the package that can draw randomness or read process-dependent state uses a generator manual_seed seeds (table regenerated from the source every run, decide); every modelled API draws only through seeded generator functions; a run whose steps ignore the environment is determined by the seed. PARTIAL by nature: bit-reproducibility of NumPy/BLAS and allocation layout are runtime behaviour; the check hashes seeded programs (random tensors, layers, init, dropout, shuffled split, training steps, a fan-out graph) repeated in-process and in fresh processes under several PYTHONHASHSEEDs and compares draw signatures with the model.', '6 C19')
CLAIMED['C01'] = ('Lean proof of the adjoint identity per op over the index-function kernel model + correspondence over the whole argument space',
         'For transpose, movedim, reshape, flatten, squeeze, unsqueeze, unfold(dimension,size,step), indexing (slices with any step, ellipsis, newaxis, repeated integer lists), neg, clone, add, mul (every broadcasting pattern), sum, mean (tuple dims with negative entries), matmul (batch broadcasting), addmm, concat, stack, unbind: IsAdjoint = whenever forward is accepted backward returns, the gradient has the operand shape, and <F v, g> = <v, B g> for all v, g over any commutative ring; vjp_unique shows this determines the kernel. PARTIAL: pow/rpow/exp/log/sqrt (HasDerivAt over the reals) and max/min (subgradient) are modelled and corresponded only until their theorems land (listed as unproved_ops in the evidence). Per-op generators over shapes of rank 0-4, all dims/tuples/keepdims/index expressions/exponents, non-uniform upstream gradients, malformed arguments compare accept/reject, values and every operand gradient; the failing-input search uses finite differences of the implementation.', '3.1, 6 C01')
CLAIMED['C10'] = ('Lean proof over the dtype / buffer-shape model + correspondence over op x dtype x upstream dtype',
         'Theorems: the result dtype rule gives float32 for float32 operands and float64 for float64 operands (independent of rank, so 0-d results included; integer label operands do not matter); a Python scalar operand takes the dtype of the tensor it meets; the store stays aligned; after backward every gradient buffer has exactly the shape of its tensor whatever the kernels returned (buffers are zeros_like / the shape-checked caller gradient and only updated in place). PARTIAL: the float32-vs-float64 value agreement is observed (rel 2e-4), not proved. Every op / nn op / loss reduction / scalar-operator form is run at both dtypes with both upstream dtypes and result / gradient dtypes and shapes are compared.', '6 C10')
CLAIMED['C11'] = ('Lean proof that model transitions only append / only touch gradient buffers + byte-level snapshots on the implementation',
         'Theorems: applying an op keeps every existing tensor (data, dtype, graph state) and is repeatable with identical values; backward changes no data, dtype or mode; the root stores the caller gradient as a value; zeroing touches no data (with backward_frame of C04 for unrelated gradients). PARTIAL by nature: aliasing between NumPy arrays cannot be expressed in a value-level model; the check snapshots tobytes() of every operand, target, base array, unrelated tensor/gradient and caller gradient around every forward and backward (aliased view operands, reused operands, repeated backward through one root) and repeats every op bit for bit.', '6 C11')
CLAIMED['C16'] = ('Lean proof: the three im2col / col2im models equal one specification, col2im is the transpose of im2col + correspondence on a geometry grid',
         'Theorems for every geometry with a window, any pad value, any data: the index-array, double-loop and strided-view im2col all equal cols[n,(c*kH+a)*kW+b,i*lW+j] = xpad[n,c,i*sH+a*dH,j*sW+b*dW]; the three col2im equal the scatter-add of that map; <im2col x, y> = <x, col2im y>; extract_windows / place_windows are adjoint; fold(unfold x) multiplies each pixel by the number of covering windows. Each real implementation (3 + 3 + extract / place, both layouts, int and tuple kernel sizes) is compared with its own model on integer-valued data over a geometry grid; implementation-side relations (bitwise agreement of the variants, adjoint identity in exact integers, coverage) are checked too.', '6 C16')
CLAIMED['C09'] = ('Lean proofs over the reals (exactness of the shifted formulas, range of every intermediate) + the model kernels executed at Float32 and Float against the implementation',
         'PARTIAL by nature. Proved over the reals: exp(100) exceeds the float32 maximum (so shifts are necessary); after the max-shift every softmax exponent is <= 0, each exp in (0,1], the sum in [1,n], outputs in (0,1]; the shift and the log-sum-exp rearrangement change nothing (softmax, log_softmax, cross-entropy exact, logarithm in [0, log n]); sigmoid in (0,1), overflow of exp(-x) annihilated by 1/(1+E) <= 1/E; sigmoid and tanh backward factors bounded; selu backward evaluates exp(min(x,0)) in (0,1]; BCE-with-logits exponents <= 0 and value exactly (1-y)x + log(1+exp(-x)). Rounding and IEEE overflow are not proved: the same kernels are run at Float32 / Float and compared with the implementation on the magnitude table up to 1e4 and random rows; the failing-input search compares with 50-digit mpmath.', '6 C09')
CLAIMED['C06'] = ('Lean proofs of the nn-op definitions and layer argument rules + correspondence over the geometry grid',
         'Theorems: conv output length = floor((L+2p-d(k-1)-1)/s)+1 = number of windows that fit, none exactly when no window fits; conv1d is the cross-correlation sum with zero padding; padding=same keeps the length for stride 1 when d(k-1) is even and is rejected otherwise; int-or-tuple broadcasting and default stride = kernel; max pooling never selects padding and dominates the real window entries; average pooling divides the zero-padded window sum by the full kernel size; NLL picks minus the prediction at the label with one value per sample. Forward values of all nn ops (C02 generators, malformed configurations included), loss modules under every reduction and geometry layers built from int/tuple/same/valid arguments are compared with the model; torch.nn.functional is the oracle of the failing-input search.', '6 C06')
CLAIMED['C14'] = ('Lean proofs of the identities on the model + both sides evaluated on model and implementation',
         'Theorems: linear = x @ W.T (+ b), addmm = a + b @ c, cross-entropy = NLL of log_softmax, mean = sum / count, flatten = reshape, a - b = a + (b * -1), a / b = a * b ** -1 (by definition of the model, whose fused forms are validated against the implementation), stack = concat of unsqueezed, unbind inverts stack, movedim between adjacent dims = transpose (index-level proofs). For 16 identities (also BCE-with-logits | BCE of sigmoid, log_softmax | log of softmax, conv | unfold+matmul, pooling | unfold+max/mean, Neuron) both sides are built over shared leaves; values and the gradients of every leaf after backward with the same upstream gradient must agree on the implementation, on the model, and between them. Identities through the 1e-12 guard use tolerance 1e-6 on moderate logits.', '6 C14')
PENDING = {}
ALL = [f'C{i:02d}' for i in range(1, 21)]

def main():
    checks = []
    for pid in ALL:
        if pid in CLAIMED:
            tech, text, ref = CLAIMED[pid]
            checks.append({
                'property_id': pid,
                'quick_cmd': f'./check {pid} --tier quick',
                'thorough_cmd': f'./check {pid} --tier thorough',
                'evidence_file': f'evidence/{pid}.json',
                'replay_cmd_template': './check --replay {path}',
                'engine': 'lean-model',
                'level_claimed': {'category': 'proof', 'text': text, 'design_ref': f'DESIGN.md section {ref}'},
                'level_note': NOTE,
                'technique': tech,
            })
    na = [{'property_id': p, 'reason': PENDING.get(p, 'check not built yet in this round (model and theorems in progress; see DESIGN.md section 9 staging); not a claim that the technique cannot apply')}
          for p in ALL if p not in CLAIMED]
    m = {
        'version': 1,
        'setup_cmd': 'cd lean && lake build',
        'hooks': {'guard': 'SYNAPGRAD_VERIF', 'enable': 'no source hooks: every observation is made by wrapping public objects from the harness',
                  'baseline_off_cmd': 'cd /repo && /venv/bin/python -m pytest -ra -q -p no:cacheprovider --timeout=900 --continue-on-collection-errors',
                  'source_commits': [], 'add_only': True},
        'engines': [{'name': 'lean-model', 'path': 'lean/', 'serves_properties': sorted(CLAIMED),
                     'kind_free_text': 'Lean 4 model (SynapModel/), theorems (Props/), compiled line-protocol driver (synapdrv) run against the implementation by harness/check.py'}],
        'checks': checks,
        'not_applicable': na,
        'notes': 'Genuine defects repaired in /repo by "fix:" commits are listed in known_findings.jsonl (kind fixed).',
    }
    with open(os.path.join(HERE, 'MANIFEST.json'), 'w') as f:
        json.dump(m, f, indent=1)
    import jsonschema
    jsonschema.validate(m, json.load(open('/root/.vp/MANIFEST.schema.json')))
    print('MANIFEST ok:', len(checks), 'claimed,', len(na), 'not claimed')

if __name__ == '__main__':
    main()
