#!/bin/sh
# runs every claimed check (quick, or the tier given as $1) under several seeds on the unchanged tree; any non-zero exit is printed
tier=${1:-quick}
seeds=${SEEDS:-"0 1 2 3"}
for p in $(python3 -c "import json;print(' '.join(c['property_id'] for c in json.load(open('MANIFEST.json'))['checks']))"); do
  for s in $seeds; do
    out=$(VERIF_SEED=$s ./check $p --tier $tier 2>&1); rc=$?
    line=$(echo "$out" | tail -1)
    if [ $rc -ne 0 ]; then echo "FAIL rc=$rc seed=$s $line"; echo "$out" | grep -i "violation\|infra\|Traceback" | head -3; else echo "ok   seed=$s $line"; fi
  done
done
