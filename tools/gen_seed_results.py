#!/venv/bin/python
"""regenerates seeded/RESULTS.md from seeded/*/meta.json, seeded/matrix.txt (last output of tools/seed_matrix.sh) and seeded/notes.json"""
import json, os
HERE = os.path.dirname(os.path.dirname(os.path.abspath(__file__)))
S = os.path.join(HERE, 'seeded')
notes = json.load(open(os.path.join(S, 'notes.json')))
res = {}
for l in open(os.path.join(S, 'matrix.txt')):
    t = l.split()
    if len(t) >= 4 and t[0].startswith('C'): res.setdefault(t[0], []).append(t[3])
nfif = sum(1 for l in open(os.path.join(S, 'matrix.txt')) if l.rstrip().endswith('no-failing-input-found'))
rows = []
for d in sorted(x for x in os.listdir(S) if x.startswith('C') and os.path.isdir(os.path.join(S, x))):
    m = json.load(open(os.path.join(S, d, 'meta.json')))
    rows.append(f"| {d} | {m['breaks_property']} | {m['summary'].replace(chr(10), ' ')[:260]} | {m['needs'].replace(chr(10), ' ')[:260]} | {' '.join(res.get(d, []))} | {notes.get(d, '')} |")
out = ['# Seeded changes and what detects them', '',
 'Each directory holds one change to pgmesa/synapgrad made by a sub-agent that saw only the text of the property (and, from the third wave on, a one-line',
 'summary of the changes already tried for that property, to force a different site and mechanism), working in its own scratch worktree with nothing from /verif:',
 '`patch.diff`, the agent\'s demonstration `demo.py` (fails with the change, passes without) and `meta.json`. Every change was confirmed by the builder',
 '(`tools/confirm_seed.sh`: demo without the change, demo with it, whole test suite with it: 92 passed + the one baseline failure). None is committed to /repo.',
 '`tools/seed_matrix.sh` applies each patch to /repo, runs the quick check of the property it breaks under seeds 0 1 2 and reverts (`matrix.txt` is its last output).', '',
 f'{len(rows)} changes; {sum(1 for v in res.values() for r in v if r == "rc=1")} of {sum(len(v) for v in res.values())} check runs report the violation'
 f' ({nfif} of them as `no-failing-input-found`: a tie theorem or the correspondence broke and the search did not exhibit an input within the quick budget).',
 'C17 and C19 were run under seeds 0 1 only in the last matrix (their quick checks take a minute per run on a changed tree); two entries (C10-w9b, C17-w4) were re-measured',
 'after the corrections described in DESIGN 12.6.', '',
 '| seed | property | change | needs | quick check of its property (seeds 0,1,2) | history |', '|---|---|---|---|---|---|'] + rows
out += ['', 'rc=1 = the check exits 1 with a `VIOLATION property=<id> replay=<path>` line; the replay file holds a concrete failing input found on the real code, or (lines of matrix.txt ending in',
 '`no-failing-input-found`) names the theorem / correspondence that no longer checks.',
 'Waves 1 and 2 (C01..C20): one change per property. Wave 3 (Cxx-w3): preferably two cooperating sites or state carried across calls. Wave 4 (Cxx-w4): unusual',
 'but legal argument types and spellings, shared objects, boundary values, call order. Wave 5 (Cxx-w5): changes meant to survive a randomized differential test (coincidence of several conditions, size thresholds, less common entry points).',
 'Wave 6 (Cxx-w6): adversarial thresholds. Waves 7 to 11 (Cxx-w7a/b ... Cxx-w11a/b): plain brief (the property text only), two per property and wave; `first_try` in meta.json records what the checks',
 'of that moment reported on arrival, the history column what was missing when they did not (first-try rate of the last four waves: 24, 21, 25 and 24 of 40).']
open(os.path.join(S, 'RESULTS.md'), 'w').write('\n'.join(out) + '\n')
print(len(rows), 'rows')
