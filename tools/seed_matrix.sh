#!/bin/sh
# usage: tools/seed_matrix.sh [Cxx ...]   — for each seeded change (default: all under seeded/): apply seeded/<id>/patch.diff to a
# SCRATCH worktree of /repo (HEAD), run the quick check of the property it breaks against that worktree under SEEDS (default
# "0 1 2"), and print one line per run. /repo itself is never touched (other checks may be running against it); the worktree is
# removed at the end. (The registered commands always run against /repo; SYNAPGRAD_REPO only redirects them for this experiment.)
set -u
cd "$(dirname "$0")/.."
wt=$(mktemp -d /tmp/seedwt.XXXXXX); rmdir "$wt"
git -C /repo worktree add -q --detach "$wt" HEAD || exit 2
# the evidence files describe the unchanged tree: keep them aside while checks run against changed trees
keep=$(mktemp -d /tmp/evidence.keep.XXXXXX); cp -r evidence/. "$keep"/
trap 'cp -r "$keep"/. evidence/; rm -rf "$keep"; git -C /repo worktree remove --force "$wt" 2>/dev/null; git checkout -- lean/SynapModel/Generated 2>/dev/null' EXIT
ids=${*:-$(ls seeded | grep '^C')}
for id in $ids; do
  d=seeded/$id
  prop=$(python3 -c "import json;print(json.load(open('$d/meta.json'))['breaks_property'])")
  { git -C "$wt" apply "$PWD/$d/patch.diff" 2>/dev/null || { git -C "$wt" apply -3 "$PWD/$d/patch.diff" 2>/dev/null || { git -C "$wt" reset -q --hard HEAD; false; }; } || git -C "$wt" apply -C1 "$PWD/$d/patch.diff"; } || { echo "$id: patch does not apply"; continue; }   # context lines may have moved under later fix: commits
  for p in $prop ${EXTRA:-}; do for s in ${SEEDS:-0 1 2}; do
    out=$(SYNAPGRAD_REPO="$wt" VERIF_SEED=$s ./check "$p" --tier ${TIER:-quick} 2>&1); rc=$?
    v=$(echo "$out" | grep '^VIOLATION' | head -1 | cut -c1-160)
    echo "$id check=$p seed=$s rc=$rc $v"
  done; done
  git -C "$wt" reset -q --hard HEAD; git -C "$wt" clean -fdq synapgrad
done
