#!/bin/sh
# usage: tools/seed_matrix.sh [Cxx ...]   — for each seeded change (default: all under seeded/): apply seeded/<id>/patch.diff to
# /repo, run the quick check of the property it breaks under SEEDS (default "0 1 2"), revert, and print one line per run.
# Never leaves /repo modified (the patch is reverted even when a check crashes); refuses to start on a dirty /repo.
set -u
cd "$(dirname "$0")/.."
[ -z "$(git -C /repo status --porcelain)" ] || { echo "/repo is not clean"; exit 2; }
# the evidence files describe the unchanged tree: keep them aside while checks run against changed trees
keep=$(mktemp -d /tmp/evidence.keep.XXXXXX); cp -r evidence/. "$keep"/; trap 'cp -r "$keep"/. evidence/; rm -rf "$keep"; git -C /repo checkout -- . 2>/dev/null; git checkout -- lean/SynapModel/Generated 2>/dev/null' EXIT
ids=${*:-$(ls seeded | grep '^C')}
for id in $ids; do
  d=seeded/$id
  prop=$(python3 -c "import json;print(json.load(open('$d/meta.json'))['breaks_property'])")
  git -C /repo apply "$PWD/$d/patch.diff" || { echo "$id: patch does not apply"; continue; }
  for p in $prop ${EXTRA:-}; do for s in ${SEEDS:-0 1 2}; do
    out=$(VERIF_SEED=$s ./check "$p" --tier ${TIER:-quick} 2>&1); rc=$?
    v=$(echo "$out" | grep '^VIOLATION' | head -1 | cut -c1-160)
    echo "$id check=$p seed=$s rc=$rc $v"
  done; done
  git -C /repo checkout -- . ; [ -z "$(git -C /repo status --porcelain)" ] || { echo "could not revert /repo"; exit 2; }
done
