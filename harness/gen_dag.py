"""Generator of tensor programs (DAGs over the basic op catalogue) with shape tracking.

A program is a list of *nodes*; node k is either a leaf or an op over earlier nodes.  Protocol
lines are produced from the node list (optionally in another topological order)."""
import numpy as np
from common import show_floats, show_ints, fbits
from tprog import show_sel

SHAPES = [(), (1,), (2,), (3,), (2, 3), (3, 2), (1, 3), (2, 1), (2, 2), (2, 1, 3), (2, 3, 2)]


def rand_data(rng, shape, lo=-2, hi=2):
    n = int(np.prod(shape)) if shape else 1
    return [rng.dyadic(lo, hi) if rng.chance(.6) else round(rng.uniform(lo, hi), 3) for _ in range(n)]


def leaf_line(shape, data, rg, dt='f64'):
    return f"t leaf {dt} {show_ints(shape)} {int(rg)} {show_floats(data)}"


class Prog:
    def __init__(self):
        self.nodes = []      # dict(kind='leaf'|'op', shape, ins, name, args, outs)
        self.tshape = []     # shape per tensor id
        self.owner = []      # tensor id -> node index

    def add_leaf(self, shape, data, rg, dt='f64'):
        self.nodes.append({'kind': 'leaf', 'shape': shape, 'data': data, 'rg': rg, 'dt': dt, 'ins': [], 'outs': [len(self.tshape)]})
        self.tshape.append(shape); self.owner.append(len(self.nodes) - 1)
        return len(self.tshape) - 1

    def add_op(self, name, ins, args, out_shapes):
        outs = list(range(len(self.tshape), len(self.tshape) + len(out_shapes)))
        self.nodes.append({'kind': 'op', 'name': name, 'ins': ins, 'args': args, 'outs': outs})
        for s in out_shapes:
            self.tshape.append(s); self.owner.append(len(self.nodes) - 1)
        return outs

    def lines(self, order=None):
        """protocol lines creating the tensors; `order` = a topological order of node indices;
        returns (lines, tensor renaming old id -> new id)"""
        order = order if order is not None else list(range(len(self.nodes)))
        ren, out = {}, []
        nxt = 0
        for k in order:
            nd = self.nodes[k]
            if nd['kind'] == 'leaf':
                out.append(leaf_line(nd['shape'], nd['data'], nd['rg'], nd['dt']))
            else:
                out.append(' '.join(['t op', nd['name'], show_ints([ren[i] for i in nd['ins']])] + [str(a) for a in nd['args']]))
            for o in nd['outs']:
                ren[o] = nxt; nxt += 1
        return out, ren

    def topo_shuffle(self, rng):
        """a random order of the nodes in which every node still follows its operands"""
        done, order = set(), []
        remaining = list(range(len(self.nodes)))
        while remaining:
            ready = [k for k in remaining if all(self.owner[i] in done for i in self.nodes[k]['ins'])]
            k = rng.pick(ready)
            order.append(k); done.add(k); remaining.remove(k)
        return order


def bshape(a, b):
    try:
        return tuple(np.broadcast_shapes(a, b))
    except ValueError:
        return None


def gen_op(rng, P, allow=None, eligible=None):
    """append one random op over existing tensors (only `eligible` ones as operands when given);
    returns the new tensor ids (or None)"""
    nt = len(P.tshape)
    el = list(range(nt)) if eligible is None else list(eligible)
    if not el: return None
    kinds = allow or ['add', 'mul', 'neg', 'clone', 'sum', 'mean', 'reshape', 'transpose', 'slice', 'unbind',
                      'stack', 'concat', 'matmul', 'pow', 'unsqueeze', 'squeeze', 'self2', 'movedim', 'flatten']
    kind = rng.pick(kinds)
    a = rng.pick(el)
    sa = P.tshape[a]
    if kind in ('add', 'mul'):
        cands = [b for b in el if bshape(sa, P.tshape[b]) is not None]
        b = rng.pick(cands)
        return P.add_op(kind, [a, b], [], [bshape(sa, P.tshape[b])])
    if kind == 'self2':   # the same tensor used twice by one op
        return P.add_op(rng.pick(['add', 'mul']), [a, a], [], [sa])
    if kind in ('neg', 'clone', 'relu', 'tanh', 'sigmoid'):
        return P.add_op(kind, [a], [], [sa])
    if kind in ('softmax', 'log_softmax'):
        if len(sa) == 0: return None
        return P.add_op(kind, [a], [rng.randrange(-len(sa), len(sa))], [sa])
    if kind == 'cross_entropy':      # needs an (N, C) operand and an existing integer leaf of N labels below C
        if len(sa) != 2 or 0 in sa: return None
        labs = [nd for nd in P.nodes if nd['kind'] == 'leaf' and nd.get('dt') == 'i64' and tuple(nd['shape']) == (sa[0],) and max(nd['data']) < sa[1]]
        if not labs: return None
        nd = rng.pick(labs)
        return P.add_op('cross_entropy', [a, nd['outs'][0]], [show_ints([int(v) for v in nd['data']])], [(sa[0],)])
    if kind == 'pow':
        return P.add_op('pow', [a], [fbits(2.0)], [sa])
    if kind in ('sum', 'mean'):
        if len(sa) == 0 or rng.chance(.3):
            keep = rng.chance(.5)
            return P.add_op(kind, [a], ['all', int(keep)], [tuple(1 for _ in sa) if keep else ()])
        ax = rng.randrange(-len(sa), len(sa))
        keep = rng.chance(.5)
        axn = ax % len(sa)
        if kind == 'mean' and sa[axn] == 0: return None
        out = tuple(1 if i == axn else n for i, n in enumerate(sa)) if keep else tuple(n for i, n in enumerate(sa) if i != axn)
        return P.add_op(kind, [a], [f'i:{ax}', int(keep)], [out])
    if kind == 'reshape':
        n = int(np.prod(sa)) if sa else 1
        opts = [s for s in [(n,), (1, n), (n, 1), (-1,)] + ([(2, n // 2)] if n % 2 == 0 and n else [])]
        tgt = rng.pick(opts)
        out = tuple(int(v) for v in np.zeros(sa).reshape(tgt).shape)
        return P.add_op('reshape', [a], [show_ints(tgt)], [out])
    if kind == 'transpose':
        if len(sa) < 2: return None
        d0, d1 = rng.randrange(-len(sa), len(sa)), rng.randrange(-len(sa), len(sa))
        return P.add_op('transpose', [a], [d0, d1], [tuple(int(v) for v in np.swapaxes(np.zeros(sa), d0, d1).shape)])
    if kind == 'movedim':
        if len(sa) < 2: return None
        d0, d1 = rng.randrange(-len(sa), len(sa)), rng.randrange(-len(sa), len(sa))
        return P.add_op('movedim', [a], [d0, d1], [tuple(int(v) for v in np.moveaxis(np.zeros(sa), d0, d1).shape)])
    if kind == 'flatten':
        if len(sa) < 1: return None
        s0 = rng.randrange(0, len(sa)); e0 = rng.randrange(s0, len(sa))
        st = s0 if rng.chance(.5) else s0 - len(sa); en = e0 if rng.chance(.5) else e0 - len(sa)
        out = sa[:s0] + (int(np.prod(sa[s0:e0 + 1])),) + sa[e0 + 1:]
        return P.add_op('flatten', [a], [st, en], [out])
    if kind == 'slice':
        if len(sa) == 0: return None
        sel = []
        for n in sa:
            r = rng.random()
            if r < .3 and n > 0: sel.append(rng.randrange(-n, n))
            elif r < .8:
                step = rng.pick([1, 1, 2, -1])
                sel.append(slice(rng.pick([None, 0, 1, -1]), rng.pick([None, n, -1]), step))
            else:
                break
        if not sel: sel = [slice(None, None, 1)]
        sel = tuple(sel)
        out = tuple(int(v) for v in np.zeros(sa)[sel].shape)
        if 0 in out: return None
        return P.add_op('slice', [a], [show_sel(sel)], [out])
    if kind == 'unbind':
        if len(sa) == 0: return None
        ax = rng.randrange(-len(sa), len(sa))
        axn = ax % len(sa)
        if sa[axn] == 0 or sa[axn] > 3: return None
        out = tuple(n for i, n in enumerate(sa) if i != axn)
        return P.add_op('unbind', [a], [ax], [out] * sa[axn])
    if kind in ('stack', 'concat'):
        same = [b for b in el if P.tshape[b] == sa]
        xs = [a] + [rng.pick(same) for _ in range(rng.randint(1, 2))]
        if kind == 'stack':
            ax = rng.randrange(-(len(sa) + 1), len(sa) + 1)
            out = tuple(int(v) for v in np.stack([np.zeros(sa)] * len(xs), ax).shape)
            return P.add_op('stack', xs, [ax], [out])
        if len(sa) == 0: return None
        ax = rng.randrange(-len(sa), len(sa))
        out = tuple(int(v) for v in np.concatenate([np.zeros(sa)] * len(xs), ax).shape)
        return P.add_op('concat', xs, [ax], [out])
    if kind == 'matmul':
        if len(sa) != 2: return None
        cands = [b for b in el if len(P.tshape[b]) == 2 and P.tshape[b][0] == sa[1]]
        if not cands: return None
        b = rng.pick(cands)
        return P.add_op('matmul', [a, b], [], [(sa[0], P.tshape[b][1])])
    if kind == 'unsqueeze':
        ax = rng.randrange(-(len(sa) + 1), len(sa) + 1)
        return P.add_op('unsqueeze', [a], [show_ints([ax])], [tuple(int(v) for v in np.expand_dims(np.zeros(sa), ax).shape)])
    if kind == 'squeeze':
        return P.add_op('squeeze', [a], ['all'], [tuple(n for n in sa if n != 1)])
    return None


def gen_program(rng, nleaves, nops, p_rg=0.7, allow=None, shapes=None):
    P = Prog()
    for _ in range(nleaves):
        sh = rng.pick(shapes or SHAPES)
        P.add_leaf(sh, rand_data(rng, sh), rng.chance(p_rg))
    tries = 0
    while sum(1 for n in P.nodes if n['kind'] == 'op') < nops and tries < 20 * nops:
        tries += 1
        gen_op(rng, P, allow)
    return P
