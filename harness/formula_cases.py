"""Correspondence family `formula` (C01 / C02): the definitions `harness/formulas.py` generated from `cpu_ops.py` on this run,
executed by the Lean driver at Float (`gf <kernel> <floats>`), against the real kernel on one-element arrays with the same values.
This validates the TRANSLATION (the trusted step between the source and the tie theorems of `Proofs/FormulaTie.lean`) on every
run; it cannot notice a wrong formula by itself (both sides are the source's formula) — the tie theorems do that.

`pair_search` is the failing-input search used when a tie theorem or the translation no longer checks: it looks, on the real
kernels only, for a point of the op's domain where backward is not `g ·` the derivative of forward (finite differences of the
implementation's own forward, incl. far-out magnitudes where a formula may overflow)."""
import ast, math
import numpy as np
import common, formulas
from common import show_floats, show_ints


def signature_table():
    """kernel name -> [(argname, 'elem' | 'shape' | 'scalar')], from the source as it is now"""
    tree = ast.parse(open(formulas.SRC()).read())
    tab = {}
    for st in tree.body:
        if isinstance(st, ast.FunctionDef) and st.name in formulas.WANTED:
            sig = []
            for a in st.args.args:
                ann = ast.unparse(a.annotation) if a.annotation is not None else ''
                if 'tuple' in ann and 'ndarray' not in ann and 'int' not in ann: sig.append((a.arg, 'shape'))
                elif 'ndarray' in ann or ann == '': sig.append((a.arg, 'elem'))
                else: sig.append((a.arg, 'scalar'))
            tab[st.name] = sig
    return tab


SPECIAL = [0.0, -0.0, 1.0, -1.0, 0.5, 2.0, 1e-13, -1e-13, 30.0, -30.0, 88.0, -88.0, 100.0, -100.0, 705.0, -705.0, 750.0, -750.0, 1e4, -1e4]


def draw(rng, name, arg):
    """one input value: mostly moderate dyadic numbers of both signs, sometimes exact zeros, tiny and far-out magnitudes;
    probabilities for the BCE prediction / target, positive bases where the op needs them"""
    r = rng.random()
    if name.startswith('bce_loss') and arg in ('y_pred', 'y_true'):
        return rng.pick([0.0, 1.0, 0.5, 0.25, 1e-13]) if r < .25 else rng.random()
    if arg == 'n' and name.startswith('pow'):
        return float(rng.pick([2, 3, -1, -2, 0, 1, 0.5, 1.5, -0.5]))
    if arg == 'n' and name.startswith('rpow'):
        return rng.pick([2.0, 0.5, 1.0, 3.0, math.e, 10.0])
    if r < .2:
        return rng.pick(SPECIAL)
    if r < .3:
        return rng.dyadic(-4, 4, 8) * rng.pick([1e-6, 1e3, 60.0])
    return rng.dyadic(-4, 4, 8)


def cases(rng, tier, prop):
    tab = signature_table()
    out = []
    per = 6 if tier == 'quick' else 200
    for name, sig in tab.items():
        if formulas.WANTED[name] != prop: continue
        for _ in range(per):
            vals = {a: draw(rng, name, a) for a, k in sig if k != 'shape'}
            xs = [vals[a] for a, k in sig if k != 'shape']
            line = f'gf {name} {show_floats(xs)}'
            out.append({'kind': 'formula', 'op': 'formula/' + name, 'name': name, 'vals': vals, 'lines': [line], 'nout': 1,
                        'malformed': False, 'leaves': [((), [0.0], True)], 'args': [], 'desc': f'{line}  # {vals}'})
    return out


def call_real(name, vals, sig=None):
    sg = common.impl()
    import importlib
    ops = importlib.import_module('synapgrad.cpu_ops')
    sig = sig or signature_table()[name]
    args = []
    for a, k in sig:
        if k == 'shape': args.append((1,))
        elif k == 'elem': args.append(np.array([vals[a]], dtype=np.float64))
        else: args.append(float(vals[a]))
    r = getattr(ops, name)(*args)
    rs = r if isinstance(r, tuple) else (r,)
    return [float(np.asarray(v, dtype=np.float64).reshape(-1)[0]) for v in rs]


def impl(c):
    def f():
        r = call_real(c['name'], c['vals'])
        return show_ints([len(r)]) + '|' + show_floats(r)
    return [common.outcome(f)]


# ---------------------------------------------------------------------------------------------------------------------
# forward / backward pairs: (forward, backward, how backward is fed, differentiated argument, fixed arguments generator)
PAIRS = {
    'C01': [('add', 'a'), ('add', 'b'), ('mul', 'a'), ('mul', 'b'), ('pow', 'a'), ('rpow', 'a'), ('neg', 'a'), ('clone', 'a'),
            ('exp', 'a'), ('log', 'a'), ('sqrt', 'a')],
    'C02': [('relu', 'a'), ('leaky_relu', 'a'), ('selu', 'a'), ('tanh', 'a'), ('sigmoid', 'a'), ('mse_loss', 'y_pred'),
            ('bce_loss', 'y_pred'), ('bce_with_logits_loss', 'y_pred')],
}
GRID = [0.3, -0.3, 1.7, -1.7, 4.25, -4.25, 20.0, -20.0, 60.0, -60.0, 100.0, -100.0, 300.0, -300.0, 720.0, -720.0, 5000.0, -5000.0]
SELU = (1.6732632423543772, 1.0507009873554805)


def _domain(op, x, other):
    if op in ('log', 'sqrt'): return x > 0.05
    if op == 'pow': return x > 0.05 or float(other['n']).is_integer()
    if op == 'bce_loss': return 0.02 < x < 0.98
    if op in ('relu', 'leaky_relu', 'selu'): return abs(x) > 1e-3
    return True


def pair_point(op, wrt, x, g, other):
    """-> None when backward is g * d/dx forward at x (to finite-difference accuracy) on the real kernels, else a description"""
    tab = signature_table()
    fs, bs = tab.get(op + '_forward'), tab.get(op + '_backward')
    if fs is None or bs is None:
        return None
    fv = dict(other); fv[wrt] = x
    def fwd(v):
        d = dict(fv); d[wrt] = v
        return call_real(op + '_forward', d, fs)[0]
    y = fwd(x)
    h = 1e-6 * max(1.0, abs(x))
    yp, ym = fwd(x + h), fwd(x - h)
    if not all(math.isfinite(v) for v in (y, yp, ym)):
        return None                                  # outside the domain on which forward is finite
    fd = g * (yp - ym) / (2 * h)
    bv = {'grad': g}
    for a, k in bs:
        if k == 'shape' or a == 'grad': continue
        if a in fv: bv[a] = fv[a]
        else: bv[a] = y                              # backward reads the forward result (exp_a, sqrt_a, tanh_a, sigmoid_a, exp_n_a)
    r = call_real(op + '_backward', bv, bs)
    elems = [a for a, k in fs if k == 'elem']
    got = r[elems.index(wrt)] if len(r) > 1 else r[0]
    tol = 2e-4 * max(1.0, abs(fd), abs(got)) + (1e-9 if op != 'bce_with_logits_loss' else 1e-9 + abs(g) * 2e-12)
    if not math.isfinite(got) or abs(got - fd) > tol:
        return {'key': {'op': op, 'cls': 'formula-pair', 'wrt': wrt, 'far': abs(x) > 50},
                'case': {'kind': 'formula-pair', 'op': op, 'wrt': wrt, 'x': x, 'g': g, 'other': other},
                'what': f'cpu_ops.{op}_backward(grad={g}, …) at {wrt}={x} ({other}) returns {got}; g · d/d{wrt} {op}_forward by central differences of the implementation is {fd}'}
    return None


def others(rng, op):
    if op in ('add', 'mul'): return {'a': rng.dyadic(), 'b': rng.dyadic()}
    if op == 'pow': return {'n': float(rng.pick([2, 3, -1, 0.5, 1.5]))}
    if op == 'rpow': return {'n': rng.pick([2.0, 0.5, 3.0])}
    if op == 'leaky_relu': return {'neg_slope': rng.pick([0.01, 0.2, 1.5, 0.0])}
    if op == 'selu': return {'alpha': SELU[0], 'scale': SELU[1]}
    if op in ('mse_loss', 'bce_with_logits_loss'): return {'y_true': rng.pick([0.0, 1.0, 0.25, rng.dyadic()])}
    if op == 'bce_loss': return {'y_true': rng.pick([0.0, 1.0, 0.25, 0.8])}
    return {}


def pair_search(rng, tier, prop):
    for op, wrt in PAIRS[prop]:
        grid = list(GRID) + [rng.dyadic(-4, 4, 16) for _ in range(6)]
        if op == 'bce_loss': grid = [0.1, 0.3, 0.5, 0.9, 0.97] + [0.03 + 0.94 * rng.random() for _ in range(6)]
        for x in grid:
            o = others(rng, op)
            if not _domain(op, x, o): continue
            if op in ('pow', 'rpow', 'exp') and abs(x) > 100: continue          # forward itself leaves the float range nearby
            for g in (1.0, -2.5):
                f = pair_point(op, wrt, x, g, o)
                if f:
                    yield f
                    break


def replay_pair(case):
    f = pair_point(case['op'], case['wrt'], case['x'], case['g'], case['other'])
    return {'fails': f is not None, 'now': f}
