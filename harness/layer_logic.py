"""Translator of the decision logic of `BatchNorm.forward` (C13): which averaging factor and counter the layer hands to
`F.batch_norm`, whether batch statistics are used, and whether the running buffers are passed — read from
`synapgrad/nn/layers.py` with `ast` on every run and re-emitted as ONE pure Lean function
(`lean/SynapModel/Generated/LayerLogic.lean`).  `Proofs/LayerLogicTie.lean` proves it equal to `avgFactor` / `useBatch` of the
hand-written layer model (`SynapModel/Layers.lean`), which the history theorems of C13 are about.

Reading (trusted; small): the method body is straight-line code with `if`s over the attributes of the layer.  Conditions are
Boolean expressions over named atoms as in `harness/engine_logic.py` (`self_training`, `self_momentum_is_None`, …); local variables
are typed by what is assigned to them (a number, a natural number, a Boolean, "the buffer or None"); `self.num_batches_tracked += 1`
is the counter; `float(n)` is the cast of a natural number; a variable assigned in one branch of an `if` takes the value
`if c then new else old`; the result is the argument tuple of the final `F.batch_norm(…)` call restricted to
(counter, factor, bn_training, running_mean passed, running_var passed).
"""
import ast, os
import common
from formulas import Untranslatable, lit, ident
from engine_logic import Cond, atom_name

SRC = lambda: os.path.join(common.REPO, 'synapgrad', 'nn', 'layers.py')
OUT = os.path.join(common.LEAN_DIR, 'SynapModel', 'Generated', 'LayerLogic.lean')


class BN:
    def __init__(self, fn):
        self.fn = fn
        self.atoms = []            # Boolean atoms (conditions)
        self.nums = []             # numeric attributes read as values
        self.env = {'self.num_batches_tracked': ('nat', 'num_batches_tracked')}

    def cond(self, e):
        c = Cond(); s = c.tr(e)
        for a in c.atoms:
            if a not in self.atoms: self.atoms.append(a)
        return s

    def val(self, e):
        """-> (type, lean)"""
        if isinstance(e, ast.Constant):
            if isinstance(e.value, bool): return ('bool', 'true' if e.value else 'false')
            if e.value is None: return ('none', 'none')
            return ('num', lit(e.value))
        if isinstance(e, ast.Name):
            if e.id in self.env: return self.env[e.id]
            raise Untranslatable('name ' + e.id)
        if isinstance(e, ast.Attribute) and isinstance(e.value, ast.Name) and e.value.id == 'self':
            k = 'self.' + e.attr
            if k in self.env: return self.env[k]
            if e.attr in ('running_mean', 'running_var'): return ('buf', e.attr)
            if e.attr not in self.nums: self.nums.append(e.attr)
            return ('num', ident(e.attr))
        if isinstance(e, ast.Call) and isinstance(e.func, ast.Name) and e.func.id == 'float' and len(e.args) == 1:
            t, v = self.val(e.args[0])
            if t != 'nat': raise Untranslatable('float() of a non-counter')
            return ('num', f'(({v} : Nat) : α)')
        if isinstance(e, ast.BinOp) and isinstance(e.op, (ast.Add, ast.Sub, ast.Mult, ast.Div)):
            (ta, a), (tb, b) = self.val(e.left), self.val(e.right)
            if ta != 'num' or tb != 'num': raise Untranslatable('arithmetic on ' + ast.unparse(e))
            return ('num', f'({a} {dict(Add="+", Sub="-", Mult="*", Div="/")[type(e.op).__name__]} {b})')
        if isinstance(e, (ast.BoolOp, ast.Compare)) or (isinstance(e, ast.UnaryOp) and isinstance(e.op, ast.Not)):
            return ('bool', self.cond(e))
        if isinstance(e, ast.IfExp):
            c = self.cond(e.test)
            (ta, a), (tb, b) = self.val(e.body), self.val(e.orelse)
            if ta == 'buf' and tb == 'none': return ('passed', (a, c))            # `self.running_mean if c else None`
            if ta == tb and ta in ('num', 'bool'): return (ta, f'(if {c} then {a} else {b})')
            raise Untranslatable(ast.unparse(e))
        raise Untranslatable(ast.unparse(e))

    def block(self, stmts):
        for st in stmts:
            if isinstance(st, ast.Expr) and isinstance(st.value, ast.Constant): continue
            if isinstance(st, ast.Assign) and len(st.targets) == 1:
                t = st.targets[0]
                key = t.id if isinstance(t, ast.Name) else ast.unparse(t)
                self.env[key] = self.val(st.value)
            elif isinstance(st, ast.AugAssign) and ast.unparse(st.target) == 'self.num_batches_tracked' and isinstance(st.op, ast.Add) \
                    and isinstance(st.value, ast.Constant) and isinstance(st.value.value, int) and st.value.value >= 0:
                t, v = self.env['self.num_batches_tracked']
                self.env['self.num_batches_tracked'] = ('nat', f'({v} + {st.value.value})')
            elif isinstance(st, ast.If):
                c = self.cond(st.test)
                before = dict(self.env)
                self.block(st.body); after_t = dict(self.env)
                self.env = dict(before)
                self.block(st.orelse); after_e = dict(self.env)
                merged = dict(before)
                for k in set(after_t) | set(after_e):
                    a, b = after_t.get(k, before.get(k)), after_e.get(k, before.get(k))
                    if a == b: merged[k] = a; continue
                    if a is None or b is None:
                        raise Untranslatable(f'{k} is assigned in one branch of an if only and not before it')
                    if a[0] != b[0] or a[0] not in ('num', 'bool', 'nat'): raise Untranslatable('branches disagree on ' + k)
                    merged[k] = (a[0], f'(if {c} then {a[1]} else {b[1]})')
                self.env = merged
            elif isinstance(st, ast.Return):
                return st.value
            else:
                raise Untranslatable('statement ' + ast.unparse(st).split('\n')[0])
        return None

    def emit(self):
        stmts = [s for s in self.fn.body]
        ret = self.block(stmts)
        if not (isinstance(ret, ast.Call) and ast.unparse(ret.func) == 'F.batch_norm' and len(ret.args) == 8 and not ret.keywords):
            raise Untranslatable('forward does not end in F.batch_norm with eight positional arguments')
        names = ['x', 'weight', 'bias', 'running_mean', 'running_var', 'training', 'momentum', 'eps']
        args = dict(zip(names, ret.args))
        for n_, want in (('x', 'x'), ('weight', 'self.weight'), ('bias', 'self.bias'), ('eps', 'self.eps')):
            if ast.unparse(args[n_]) != want: raise Untranslatable(f'F.batch_norm argument {n_} is {ast.unparse(args[n_])}')
        tr, ftr = self.val(args['training'])
        tm, fm = self.val(args['momentum'])
        prm, prv = self.val(args['running_mean']), self.val(args['running_var'])
        if tr != 'bool' or tm != 'num' or prm[0] != 'passed' or prv[0] != 'passed' or prm[1][0] != 'running_mean' or prv[1][0] != 'running_var':
            raise Untranslatable('types of the F.batch_norm arguments')
        nbt = self.env['self.num_batches_tracked'][1]
        atoms, nums = sorted(self.atoms), sorted(self.nums)
        sig = 'def bn_forward_logic {α : Type} [Zero α] [One α] [Add α] [Sub α] [Mul α] [Div α] [NatCast α] [OfScientific α] [Neg α]'
        if nums: sig += ' (' + ' '.join(ident(n) for n in nums) + ' : α)'
        if atoms: sig += ' (' + ' '.join(atoms) + ' : Bool)'
        sig += ' (num_batches_tracked : Nat) : Nat × α × Bool × Bool × Bool :='
        body = f'  ({nbt}, {fm}, {ftr}, {prm[1][1]}, {prv[1][1]})'
        return sig + '\n' + body + '\n', {'atoms': atoms, 'nums': nums}


def translate(src_path=None):
    tree = ast.parse(open(src_path or SRC()).read())
    C = [c for c in tree.body if isinstance(c, ast.ClassDef) and c.name == 'BatchNorm']
    if not C: raise Untranslatable('no class BatchNorm')
    f = [m for m in C[0].body if isinstance(m, ast.FunctionDef) and m.name == 'forward']
    if not f: raise Untranslatable('BatchNorm has no forward')
    text, sig = BN(f[0]).emit()
    out = ['/-! GENERATED by harness/layer_logic.py from synapgrad/nn/layers.py on every run — do not edit.',
           '    `BatchNorm.forward`: (new counter, averaging factor, bn_training, running_mean passed, running_var passed). -/',
           'set_option linter.unusedVariables false', 'namespace Synap.Gen.Layer', '',
           f'/-- `BatchNorm.forward`, layers.py line {f[0].lineno} -/', text, 'end Synap.Gen.Layer']
    return '\n'.join(out) + '\n', sig


def write():
    try:
        text, sig = translate()
        notes = [f'layer-logic translator: BatchNorm.forward read from layers.py into Generated/LayerLogic.lean (atoms {sig["atoms"]}, values {sig["nums"]})']
    except Untranslatable as ex:
        text = ('/-! GENERATED by harness/layer_logic.py — layers.py could not be read: ' + str(ex).replace('-/', '- /') + ' -/\n'
                'namespace Synap.Gen.Layer\nend Synap.Gen.Layer\n')
        notes = [f'layer-logic translator: layers.py not readable: {ex}']
    old = open(OUT).read() if os.path.exists(OUT) else None
    if old != text:
        with open(OUT, 'w') as f: f.write(text)
    return notes, None


if __name__ == '__main__':
    print(translate()[0])
