"""Import stub: `synapgrad.nn.utils.train` imports pkbar, which is not installed in /venv
(its own import needs pkg_resources).  Only the progress bar is stubbed; nothing of synapgrad is."""
class Kbar:
    def __init__(self, *a, **k): self.calls = []
    def update(self, *a, **k): self.calls.append(('update', a, k))
    def add(self, *a, **k): self.calls.append(('add', a, k))
