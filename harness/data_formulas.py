"""Translator of the index arithmetic of `synapgrad/nn/utils/data.py` (C18): the expressions of `DataLoader.__len__`, the slice bounds of
`__getitem__`, the continuation test and cursor updates of `__next__` / `__iter__`, and the split point of `split_dataset` are read
with `ast` on every run and re-emitted as Lean definitions over natural numbers (`lean/SynapModel/Generated/LoaderLogic.lean`).
`Proofs/LoaderLogicTie.lean` proves them equal to `loaderLen`, `loaderItem`'s bounds, `Loader.next`, `Loader.iter` and `splitIndices`' cut
of the hand-written model `SynapModel/Data.lean`.

Reading (trusted; small): `len(self.y)` / `len(self.X)` are the natural numbers `len_y` / `len_x`, every other `self.<name>` is a
natural number named `<name>` (so the attribute the code reads is part of the signature), `//` is floor division on naturals (Python
raises for a zero divisor; the model's `loaderLen` carries that case as `none` and the tie states it under `batch ≠ 0`), `*` and `+`
as usual, `a < b` is a Boolean.  A call `self.__len__()` / `self.__getitem__(e)` is a call of the generated definition.
"""
import ast, os
import common
from formulas import Untranslatable, ident

SRC = lambda: os.path.join(common.REPO, 'synapgrad', 'nn', 'utils', 'data.py')
OUT = os.path.join(common.LEAN_DIR, 'SynapModel', 'Generated', 'LoaderLogic.lean')


class Ex:
    def __init__(self, locals_=()):
        self.atoms, self.locals = [], dict(locals_)

    def atom(self, name):
        if name not in self.atoms: self.atoms.append(name)
        return ident(name)

    def tr(self, e):
        if isinstance(e, ast.Constant) and isinstance(e.value, int) and not isinstance(e.value, bool) and e.value >= 0:
            return str(e.value)
        if isinstance(e, ast.Name):
            if e.id in self.locals: return self.locals[e.id]
            return self.atom(e.id)
        if isinstance(e, ast.Attribute) and isinstance(e.value, ast.Name) and e.value.id == 'self':
            return self.atom(e.attr)
        if isinstance(e, ast.Call) and isinstance(e.func, ast.Name) and e.func.id == 'len' and len(e.args) == 1 \
                and isinstance(e.args[0], ast.Attribute) and isinstance(e.args[0].value, ast.Name) and e.args[0].value.id == 'self':
            return self.atom('len_' + e.args[0].attr.lower())
        if isinstance(e, ast.Call) and isinstance(e.func, ast.Attribute) and isinstance(e.func.value, ast.Name) and e.func.value.id == 'self' \
                and e.func.attr == '__len__' and not e.args:
            return self.atom('len_')          # the value of self.__len__()
        if isinstance(e, ast.BinOp):
            op = {ast.Add: '+', ast.Mult: '*', ast.FloorDiv: '/', ast.Sub: '-'}.get(type(e.op))
            if op is None: raise Untranslatable(ast.unparse(e))
            return f'({self.tr(e.left)} {op} {self.tr(e.right)})'
        if isinstance(e, ast.Compare) and len(e.ops) == 1 and isinstance(e.ops[0], (ast.Lt, ast.LtE, ast.Gt, ast.GtE)):
            a, b = self.tr(e.left), self.tr(e.comparators[0])
            o = e.ops[0]
            return f'decide ({a} < {b})' if isinstance(o, ast.Lt) else f'decide ({a} ≤ {b})' if isinstance(o, ast.LtE) else \
                   f'decide ({b} < {a})' if isinstance(o, ast.Gt) else f'decide ({b} ≤ {a})'
        raise Untranslatable(ast.unparse(e))


def _cls(tree, name):
    c = [c for c in tree.body if isinstance(c, ast.ClassDef) and c.name == name]
    if not c: raise Untranslatable('no class ' + name)
    return c[0]


def _meth(cls, name):
    m = [f for f in cls.body if isinstance(f, ast.FunctionDef) and f.name == name]
    if not m: raise Untranslatable('no method ' + name)
    return m[0]


def _stmts(fn):
    return [s for s in fn.body if not (isinstance(s, ast.Expr) and isinstance(s.value, ast.Constant))]


def translate(src_path=None):
    tree = ast.parse(open(src_path or SRC()).read())
    D = _cls(tree, 'DataLoader')
    defs = []
    # __len__
    b = _stmts(_meth(D, '__len__'))
    if len(b) != 1 or not isinstance(b[0], ast.Return): raise Untranslatable('__len__ is not a single return')
    ex = Ex(); body = ex.tr(b[0].value)
    defs.append(('loader_len', sorted(ex.atoms), 'Nat', body, 'DataLoader.__len__: `' + ast.unparse(b[0].value) + '`'))
    # __iter__: self.step = <const>; return self
    b = _stmts(_meth(D, '__iter__'))
    if len(b) != 2 or not isinstance(b[0], ast.Assign) or ast.unparse(b[0].targets[0]) != 'self.step' or ast.unparse(b[1]) != 'return self':
        raise Untranslatable('__iter__ is not `self.step = …; return self`')
    ex = Ex(); body = ex.tr(b[0].value)
    defs.append(('loader_iter_step', sorted(ex.atoms), 'Nat', body, 'DataLoader.__iter__: the cursor after the call'))
    # __next__: if <cond>: item = self.__getitem__(self.step); self.step += k; return item   raise StopIteration
    b = _stmts(_meth(D, '__next__'))
    if len(b) != 2 or not isinstance(b[0], ast.If) or b[0].orelse or not isinstance(b[1], ast.Raise) or 'StopIteration' not in ast.unparse(b[1]):
        raise Untranslatable('__next__ is not `if …: …; raise StopIteration`')
    ex = Ex(); cond = ex.tr(b[0].test)
    defs.append(('loader_has_next', sorted(ex.atoms), 'Bool', cond, 'DataLoader.__next__: yield another batch when `' + ast.unparse(b[0].test) + '`'))
    tb = b[0].body
    if len(tb) != 3 or not isinstance(tb[0], ast.Assign) or not isinstance(tb[1], ast.AugAssign) or not isinstance(tb[2], ast.Return) \
            or ast.unparse(tb[2].value) != ast.unparse(tb[0].targets[0]) or ast.unparse(tb[1].target) != 'self.step' or not isinstance(tb[1].op, ast.Add):
        raise Untranslatable('__next__: then-branch is not `item = self.__getitem__(…); self.step += …; return item`')
    call = tb[0].value
    if not (isinstance(call, ast.Call) and ast.unparse(call.func) == 'self.__getitem__' and len(call.args) == 1):
        raise Untranslatable('__next__: item is not self.__getitem__(…)')
    ex = Ex(); body = ex.tr(call.args[0])
    defs.append(('loader_next_index', sorted(ex.atoms), 'Nat', body, 'DataLoader.__next__: the index handed to __getitem__'))
    ex = Ex(); body = '(' + ex.tr(ast.Attribute(value=ast.Name(id='self'), attr='step')) + ' + ' + ex.tr(tb[1].value) + ')'
    defs.append(('loader_next_step', sorted(ex.atoms), 'Nat', body, 'DataLoader.__next__: the cursor after a yielded batch'))
    # __getitem__: start = …; end = …; X_batch = self.X[start:end]; y_batch = self.y[start:end]
    g = _meth(D, '__getitem__')
    idx = g.args.args[1].arg
    st = {s.targets[0].id: s.value for s in _stmts(g) if isinstance(s, ast.Assign) and isinstance(s.targets[0], ast.Name)}
    sl = [s for s in _stmts(g) if isinstance(s, ast.Assign) and isinstance(s.value, ast.Subscript) and isinstance(s.value.slice, ast.Slice)]
    if len(sl) != 2 or {ast.unparse(s.value.value) for s in sl} != {'self.X', 'self.y'}: raise Untranslatable('__getitem__: two slices of self.X / self.y expected')
    for s in sl:
        lo, hi = s.value.slice.lower, s.value.slice.upper
        if s.value.slice.step is not None or lo is None or hi is None: raise Untranslatable('__getitem__: slice form')
        which = 'x' if ast.unparse(s.value.value) == 'self.X' else 'y'
        for nm, e in (('start', lo), ('end', hi)):
            e = st.get(e.id, e) if isinstance(e, ast.Name) else e
            ex = Ex({idx: 'idx'}); body = ex.tr(e)
            defs.append((f'loader_{which}_{nm}', ['idx'] + sorted(ex.atoms), 'Nat', body, f'DataLoader.__getitem__: {nm} of the slice of self.{which.upper() if which == "x" else which}'))
    out = ['/-! GENERATED by harness/data_formulas.py from synapgrad/nn/utils/data.py on every run — do not edit.',
           '    The index arithmetic of DataLoader over natural numbers; parameters are named after what the code reads. -/',
           'set_option linter.unusedVariables false', 'namespace Synap.Gen.Loader', '']
    sig = {}
    for name, atoms, ty, body, doc in defs:
        ps = (' (' + ' '.join(ident(a) for a in atoms) + ' : Nat)') if atoms else ''
        out += [f'/-- {doc} -/', f'def {name}{ps} : {ty} :=', f'  {body}', '']
        sig[name] = atoms
    out.append('end Synap.Gen.Loader')
    return '\n'.join(out) + '\n', sig


def write():
    try:
        text, sig = translate()
        notes = [f'loader-logic translator: {len(sig)} definitions of DataLoader read from data.py into Generated/LoaderLogic.lean']
    except Untranslatable as ex:
        text = ('/-! GENERATED by harness/data_formulas.py — data.py could not be read: ' + str(ex).replace('-/', '- /') + ' -/\n'
                'namespace Synap.Gen.Loader\nend Synap.Gen.Loader\n')
        notes = [f'loader-logic translator: data.py not readable: {ex}']
    old = open(OUT).read() if os.path.exists(OUT) else None
    if old != text:
        with open(OUT, 'w') as f: f.write(text)
    return notes, None


if __name__ == '__main__':
    print(translate()[0])
