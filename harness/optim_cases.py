"""Correspondence family `gstep` (C08): the step bodies `harness/optim_formulas.py` generated from `optimizers.py` on this run,
executed by the Lean driver at Float (`gs <Class> …`), against ONE call of the real optimizer's `step()` on a one-element
parameter whose hyper-parameters, flags and per-parameter state were set to the same values.  Validates the translation
(signature reading, flag naming, SSA / branch merging); the tie theorems of `Props/C08.lean` are about the generated text."""
import numpy as np
import common, optim_formulas
from common import fbits, bitsf


def _flag_value(opt, flag):
    """a flag named `<attr>_<cmp>_<literal>` is that comparison of the attribute; any other flag is the attribute's truth value"""
    import re
    m = re.match(r'^(.*)_(ne|eq|gt|lt|ge|le)_(m?\d+(?:_\d+)?)$', flag)
    if m and hasattr(opt, m.group(1)):
        v = getattr(opt, m.group(1)); lit = float(m.group(3).replace('m', '-').replace('_', '.'))
        return {'ne': v != lit, 'eq': v == lit, 'gt': v > lit, 'lt': v < lit, 'ge': v >= lit, 'le': v <= lit}[m.group(2)]
    return bool(getattr(opt, flag))


def draw_hyper(rng, name):
    if name in ('momentum', 'dampening', 'weight_decay'):
        return rng.pick([0.0, 0.0, 0.9, 0.25, 0.3, rng.random()])
    if name in ('beta1', 'beta2'):
        return rng.pick([0.9, 0.999, 0.5, 0.75, rng.random()])
    if name == 'epsilon': return rng.pick([1e-8, 0.0, 1e-3])
    if name == 'lr': return rng.pick([0.1, 0.05, 1.0, rng.random()])
    return rng.dyadic()


def cases(rng, tier):
    _, rep = optim_formulas.translate()
    out = []
    for cname, sig in rep['signatures'].items():
        for _ in range(30 if tier == 'quick' else 1500):
            hyp = {h: draw_hyper(rng, h) for h in sig['hyper']}
            boolflags = {f: rng.chance(.5) for f in sig['flags'] if f not in [x for x in sig['flags'] if '_' in x and x.rsplit('_', 2)[0] in sig['hyper']]}
            st = {}
            for s, k in sig['slots'].items():
                if k == 'opt': st[s] = None if rng.chance(.4) else rng.dyadic()
                elif k == 'nat': st[s] = rng.pick([0, 0, 1, 2, 5, 40])
                else: st[s] = rng.pick([0.0, rng.dyadic(), abs(rng.dyadic())]) if s != 'm2' else abs(rng.dyadic())
            c = {'kind': 'gstep', 'opt': cname.lower(), 'cls': cname, 'hyp': hyp, 'boolflags': boolflags, 'state': st, 'theta': rng.dyadic(), 'g': rng.dyadic(),
                 'sig': sig, 'hp': dict(hyp, **boolflags), 'thetas': [[0.0]], 'rgs': [True], 'evs': [('step',)]}
            out.append(c)
    return out


def _real(c):
    sg = common.impl()
    import importlib
    O = importlib.import_module('synapgrad.optim.optimizers')
    p = sg.Tensor(np.array([c['theta']], dtype=np.float64), requires_grad=True)
    opt = getattr(O, c['cls'])([p])
    for h, v in c['hyp'].items(): setattr(opt, h, v)
    for f, v in c['boolflags'].items(): setattr(opt, f, v)
    for s, v in c['state'].items():
        k = c['sig']['slots'][s]
        getattr(opt, s)[0] = None if v is None else (int(v) if k == 'nat' else np.array([v], dtype=np.float64))
    p._grad = np.array([c['g']], dtype=np.float64)
    flags = [_flag_value(opt, f) for f in c['sig']['flags']]
    opt.step()
    res = {s: getattr(opt, s)[0] for s in c['sig']['slots']}
    return flags, float(p.data[0]), res


def lines_of(c):
    """the flags are computed by the REAL object from the values given (so a changed test in the source shows up as a different
    flag on the two sides only through the generated signature)"""
    sig = c['sig']
    sg = common.impl()
    import importlib
    O = importlib.import_module('synapgrad.optim.optimizers')
    p = sg.Tensor(np.array([0.0]), requires_grad=True)
    opt = getattr(O, c['cls'])([p])
    for h, v in c['hyp'].items(): setattr(opt, h, v)
    for f, v in c['boolflags'].items(): setattr(opt, f, v)
    flags = [_flag_value(opt, f) for f in sig['flags']]
    xs = [c['hyp'][h] for h in sig['hyper']] + [c['theta'], c['g']] + [c['state'][s] for s, k in sig['slots'].items() if k == 'val']
    os_ = [c['state'][s] for s, k in sig['slots'].items() if k == 'opt']
    ns = [c['state'][s] for s, k in sig['slots'].items() if k == 'nat']
    f = lambda l, sh: ','.join(sh(v) for v in l) if l else '_'
    return ['gs ' + ' '.join([c['cls'], f(xs, lambda v: str(fbits(v))), f(flags, lambda b: '1' if b else '0'),
                              f(os_, lambda v: '-' if v is None else str(fbits(v))), f(ns, str)])]


def impl(c):
    def run():
        sig = c['sig']
        _, theta, res = _real(c)
        sc = lambda v: float(np.asarray(v, dtype=np.float64).reshape(-1)[0])
        xs = [theta] + [sc(res[s]) for s, k in sig['slots'].items() if k == 'val']
        os_ = [None if res[s] is None else sc(res[s]) for s, k in sig['slots'].items() if k == 'opt']
        ns = [int(res[s]) for s, k in sig['slots'].items() if k == 'nat']
        f = lambda l, sh: ','.join(sh(v) for v in l) if l else '_'
        return '|'.join([f(xs, lambda v: str(fbits(v))), f(os_, lambda v: '-' if v is None else str(fbits(v))), f(ns, str)])
    return [common.outcome(run)]


def _close(a, b):
    if a == b: return True
    if a in ('-', '_') or b in ('-', '_'): return False
    try: x, y = bitsf(a), bitsf(b)
    except Exception: return False
    if x != x or y != y: return x != x and y != y
    if abs(x) == float('inf') or abs(y) == float('inf'): return x == y
    return abs(x - y) <= 1e-10 * (1 + abs(x) + abs(y))


def compare(c, mo, io):
    m, i = mo[0], io[0]
    if m == i: return []
    mp, ip = m.split('|'), str(i).split('|')
    if len(mp) != 3 or len(ip) != 3 or mp[2] != ip[2]:
        return [(c['lines'][0], m, i)]
    for a, b in zip(mp[:2], ip[:2]):
        at, bt = a.split(','), b.split(',')
        if len(at) != len(bt) or not all(_close(x, y) for x, y in zip(at, bt)):
            return [(c['lines'][0], m, i)]
    return []
