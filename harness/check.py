#!/venv/bin/python
"""./check Cxx [--tier quick|thorough]   |   ./check --replay replays/<file>.json

Per property:  (1) regenerate extracted tables, (2) lake build Props.Cxx + driver (a build failure
= broken proof obligation), (3) audit axioms, (4) correspondence run model <-> implementation,
(5) if anything broke: search for a concrete failing input of the property on the real code,
(6) known findings, (7) evidence.   Exit 0 / 1 (VIOLATION line) / 2 (infrastructure)."""
import os, sys, json, time, subprocess, importlib, fcntl, re, traceback, argparse

HERE = os.path.dirname(os.path.abspath(__file__))
sys.path.insert(0, HERE)
import common
from common import VERIF, LEAN_DIR, ALLOWED_AXIOMS, Rng, digest

FORBIDDEN = re.compile(r'\b(sorry|admit|native_decide|bv_decide|implemented_by|unsafe)\b|^\s*axiom\s|maxHeartbeats 0', re.M)


def log(*a):
    print(*a, flush=True)


# --------------------------------------------------------------------------------------------
def lake_build(targets):
    """serialised `lake build`; returns (ok, output)"""
    os.makedirs(os.path.join(LEAN_DIR, '.lake'), exist_ok=True)
    with open(os.path.join(LEAN_DIR, '.build.lock'), 'w') as lk:
        fcntl.flock(lk, fcntl.LOCK_EX)
        p = subprocess.run(['lake', 'build'] + targets, cwd=LEAN_DIR, capture_output=True, text=True)
    return p.returncode == 0, p.stdout + p.stderr


def strip_comments(src):
    src = re.sub(r'/-.*?-/', '', src, flags=re.S)
    return re.sub(r'--.*', '', src)


def source_audit(pid):
    """grep the Lean sources a property depends on (the whole model, all helper lemmas, its own
    Props file) for forbidden constructs (comments removed)"""
    hits = []
    files = [os.path.join(LEAN_DIR, 'Props', f'{pid}.lean'), os.path.join(LEAN_DIR, 'Driver.lean')]
    for root in (os.path.join(LEAN_DIR, d) for d in ('SynapModel', 'Proofs')):
        for dp, _, fs in os.walk(root):
            files += [os.path.join(dp, f) for f in fs if f.endswith('.lean')]
    for p in files:
        if os.path.exists(p):
            for m in FORBIDDEN.finditer(strip_comments(open(p).read())):
                hits.append(f'{os.path.relpath(p, LEAN_DIR)}: {m.group(0).strip()}')
    return sorted(set(hits))


def import_closure(root):
    """project modules (Props / Proofs / SynapModel) that `root` imports, transitively, root included"""
    seen, todo = [], [root]
    while todo:
        m = todo.pop()
        if m in seen: continue
        path = os.path.join(LEAN_DIR, *m.split('.')) + '.lean'
        if not os.path.exists(path): continue
        seen.append(m)
        for line in open(path):
            mm = re.match(r'\s*import\s+((?:Props|Proofs|SynapModel)\S*)', line)
            if mm: todo.append(mm.group(1))
    return sorted(seen)


def axiom_audit(pid):
    """run `#audit_ns Props.Cxx`; returns (theorems, bad) where theorems = [(name, [axioms])]"""
    path = os.path.join(LEAN_DIR, 'Audit', f'{pid}.lean')
    if not os.path.exists(path):
        with open(path, 'w') as f:
            f.write(f'import Audit.Cmd\nimport Props.{pid}\n#audit_ns Props.{pid}\n')
    p = subprocess.run(['lake', 'env', 'lean', path], cwd=LEAN_DIR, capture_output=True, text=True)
    thms, bad = [], []
    for line in (p.stdout + p.stderr).split('\n'):
        m = re.search(r'AUDIT (\S+) axioms=\[(.*)\]', line)
        if m:
            ax = [a.strip() for a in m.group(2).split(',') if a.strip()]
            thms.append((m.group(1), ax))
            if not set(ax) <= ALLOWED_AXIOMS:
                bad.append((m.group(1), ax))
    ok = p.returncode == 0 and 'AUDIT-END' in (p.stdout + p.stderr)
    return ok, thms, bad, (p.stdout + p.stderr)[-2000:]


# --------------------------------------------------------------------------------------------
def load_known(pid):
    path = os.path.join(VERIF, 'known_findings.jsonl')
    out = []
    if os.path.exists(path):
        for line in open(path):
            line = line.strip()
            if line:
                r = json.loads(line)
                if r.get('property') == pid:
                    out.append(r)
    return out


def write_replay(pid, payload):
    os.makedirs(os.path.join(VERIF, 'replays'), exist_ok=True)
    name = f'{pid}-{digest(payload)}.json'
    path = os.path.join(VERIF, 'replays', name)
    with open(path, 'w') as f:
        json.dump(payload, f, indent=1, default=str)
    return os.path.join('replays', name)


def write_evidence(pid, ev):
    os.makedirs(os.path.join(VERIF, 'evidence'), exist_ok=True)
    with open(os.path.join(VERIF, 'evidence', f'{pid}.json'), 'w') as f:
        json.dump(ev, f, indent=1, default=str)


def _limit_memory(on):
    """address-space cap (VERIF_MEM_CAP_GB, default 32) while the implementation executes the generated cases"""
    try:
        import resource
        soft, hard = resource.getrlimit(resource.RLIMIT_AS)
        cap = int(os.environ.get('VERIF_MEM_CAP_GB', '32')) << 30
        if hard != resource.RLIM_INFINITY: cap = min(cap, hard)
        resource.setrlimit(resource.RLIMIT_AS, (cap if on else hard, hard))
    except Exception:
        pass


# --------------------------------------------------------------------------------------------
def run_check(pid, tier, seed):
    t0 = time.time()
    mod = importlib.import_module(f'props.{pid.lower()}')
    rng = Rng(seed * 1000003 + int(pid[1:]))
    broken = []          # obligations / correspondences that no longer check
    notes = []

    # 1. extracted tables (regenerated from /repo's source on every run)
    if hasattr(mod, 'extract'):
        try:
            notes += mod.extract() or []
        except Exception as e:
            broken.append({'kind': 'extractor', 'what': f'extractor failed: {e!r}'})

    # 2. build
    targets = list(getattr(mod, 'LEAN_TARGETS', [f'Props.{pid}'])) + ['synapdrv', 'Audit']
    ok, out = lake_build(targets)
    build_ok = ok
    if not ok:
        errs = [l for l in out.split('\n') if 'error' in l][:8]
        broken.append({'kind': 'proof', 'what': 'lake build failed', 'detail': errs})
        # the driver may still be usable for the search if only a Props module failed
        ok2, _ = lake_build(['synapdrv'])
        if not ok2 and not os.path.exists(common.DRIVER):
            log(f'INFRA: driver cannot be built\n{out[-3000:]}')
            return 2

    # 3. audit
    thms, bad = [], []
    if build_ok:
        aok, thms, bad, aout = axiom_audit(pid)
        if not aok:
            broken.append({'kind': 'proof', 'what': 'axiom audit did not complete', 'detail': aout[-500:]})
        for name, ax in bad:
            broken.append({'kind': 'proof', 'what': f'theorem {name} depends on non-standard axioms {ax}'})
        hits = source_audit(pid)
        for h in hits:
            broken.append({'kind': 'proof', 'what': f'forbidden construct in Lean sources: {h}'})
        if tier == 'thorough' and os.environ.get('VERIF_LEANCHECKER', '1') != '0':
            # independent re-check of the compiled modules this property depends on (Props.Cxx and every project module it imports)
            mods = import_closure(f'Props.{pid}')
            # one module per leanchecker process (a single process over the whole closure needs tens of GB), four at a time
            from concurrent.futures import ThreadPoolExecutor
            def lc(m):
                p = subprocess.run(['lake', 'env', 'leanchecker', m], cwd=LEAN_DIR, capture_output=True, text=True)
                return m, p.returncode, (p.stdout + p.stderr)[-400:]
            with ThreadPoolExecutor(max_workers=4) as ex:
                res = list(ex.map(lc, mods))
            bad_lc = [(m, out) for m, rc, out in res if rc != 0]
            if bad_lc:
                broken.append({'kind': 'proof', 'what': f'leanchecker rejected compiled module(s) {[m for m, _ in bad_lc]}', 'detail': bad_lc[0][1]})
            else:
                notes.append(f'leanchecker re-checked {len(mods)} compiled modules: ok')
    required = set(getattr(mod, 'REQUIRED_THEOREMS', []))
    have = {n for n, _ in thms}
    for r in sorted(required - have):
        if build_ok:
            broken.append({'kind': 'proof', 'what': f'required theorem {r} is missing'})
    obligations = max(len(thms), len(required)) if (thms or required) else 0
    discharged = len([1 for n, ax in thms if set(ax) <= ALLOWED_AXIOMS]) if build_ok else 0

    # 4. correspondence
    try:
        cases = list(mod.cases(rng, tier))
    except Exception as e:
        # a generator that consults the implementation (captured draws, shapes) can fail on a changed tree: that is a broken
        # correspondence (the search below looks for a failing input), not an infrastructure error
        if os.environ.get('SYNAPGRAD_REPO', '/repo') == '/repo' and os.environ.get('VERIF_STRICT_GEN') == '1':
            raise
        broken.append({'kind': 'correspondence', 'what': f'case generation failed against this tree: {e!r}', 'detail': traceback.format_exc()[-1500:]})
        cases = []
    stats = {'evaluations': 0, 'mismatches': 0}
    lines, owner = [], []
    impl_out = []
    _limit_memory(True)       # a changed tree that hoards memory must end in MemoryError (a mismatch), not in the OOM killer (no verdict)
    for ci, c in enumerate(cases):
        try:
            io = mod.impl(c)
            assert len(io) == len(c['lines']), (c.get('desc'), io)
        except Exception as e:
            io = [f'harness-error: {e!r}'[:200]] * len(c['lines'])
        impl_out.append(io)
        tm_ = getattr(mod, 'to_model', None)        # optional: how a protocol line is spelled for the model (e.g. dtypes it does not distinguish)
        lines += ['reset'] + ([tm_(l) for l in c['lines']] if tm_ else c['lines'])
        owner += [None] + [ci] * len(c['lines'])
    _limit_memory(False)
    try:
        drv = common.run_driver(lines)
    except Exception as e:
        log(f'INFRA: {e}')
        return 2
    model_out = [[] for _ in cases]
    for o, w in zip(drv, owner):
        if w is not None:
            model_out[w].append(o)
    mismatching = []
    cmp = getattr(mod, 'compare', None)
    for ci, c in enumerate(cases):
        stats['evaluations'] += len(c['lines'])
        if cmp is not None:
            diffs = cmp(c, model_out[ci], impl_out[ci])
        else:
            diffs = [(k, m, i) for k, (m, i) in enumerate(zip(model_out[ci], impl_out[ci])) if m != i]
        if diffs:
            mismatching.append((ci, diffs))
    stats['mismatches'] = len(mismatching)
    if mismatching:
        ci, diffs = mismatching[0]
        broken.append({'kind': 'correspondence', 'what': f'model and implementation differ on {len(mismatching)} of {len(cases)} cases',
                       'first': {'case': cases[ci].get('desc', cases[ci]['lines']), 'diffs': [list(map(str, d)) for d in diffs[:5]]}})

    # 5. failing-input search (only when something broke)
    known = load_known(pid)
    violations, known_hits = [], []

    def classify(fail):
        for k in known:
            if k.get('kind') == 'known' and mod.matches_known(k, fail):
                known_hits.append((k, fail))
                return 'known'
        violations.append(fail)
        return 'violation'

    unexplained_cases = []        # mismatching cases for which the oracle found no failure (so no listed finding explains them either)
    if broken:
        seen = {}
        for n_, (ci, diffs) in enumerate(mismatching):
            # the first 50 always; beyond that only while nothing has been found to report (a listed finding must not shadow the rest)
            if n_ >= 50 and (violations or n_ >= 400): break
            try:
                f = mod.oracle(cases[ci])
            except Exception as e:
                f = None
                notes.append(f'oracle error on case {ci}: {e!r}')
            if f:
                d = digest(f.get('key', f))
                if d not in seen:
                    seen[d] = classify(f)
            else:
                unexplained_cases.append(ci)
        if not violations and (not known_hits or unexplained_cases) and hasattr(mod, 'search'):
            try:
                for f in mod.search(Rng(seed + 17), tier) or []:
                    classify(f)
                    if violations:
                        break
            except Exception as e:
                notes.append(f'search error: {e!r}')

    # 6. known findings: re-run each recorded witness on the implementation
    known_lines = []
    for k in known:
        if k.get('kind') == 'known':
            still = None
            try:
                still = mod.rerun_known(k)
            except Exception as e:
                notes.append(f'known-finding witness error: {e!r}')
            if still:
                known_lines.append(f"KNOWN-FINDING: property={pid} {k['line'].split(' ', 2)[2] if k['line'].startswith('known:') else k['line']}")
    for l in known_lines:
        log(l)

    # verdict
    rc = 0
    vio_lines = []
    if violations:
        for f in violations[:3]:
            rp = write_replay(pid, {'property': pid, 'kind': 'failing-input', 'failure': f, 'broken': broken, 'seed': seed, 'tier': tier})
            vio_lines.append(f'VIOLATION property={pid} replay={rp}')
        rc = 1
    elif broken and not known_hits:
        rp = write_replay(pid, {'property': pid, 'kind': 'no-failing-input-found', 'broken': broken, 'seed': seed, 'tier': tier,
                                'note': 'the named theorem / correspondence no longer checks; the search found no concrete failing input'})
        vio_lines.append(f'VIOLATION property={pid} replay={rp} no-failing-input-found')
        rc = 1
    elif broken and known_hits:
        # everything that broke is explained by listed findings only if no unexplained mismatch remains
        unexplained = [b for b in broken if b['kind'] != 'correspondence']
        if unexplained_cases:
            ci = unexplained_cases[0]
            unexplained.append({'kind': 'correspondence', 'what': f'model and implementation differ on {len(unexplained_cases)} case(s) that no listed finding explains',
                                'first': {'case': cases[ci].get('desc', cases[ci]['lines'])}})
        if unexplained:
            rp = write_replay(pid, {'property': pid, 'kind': 'no-failing-input-found', 'broken': unexplained, 'seed': seed, 'tier': tier})
            vio_lines.append(f'VIOLATION property={pid} replay={rp} no-failing-input-found')
            rc = 1
    for l in vio_lines:
        log(l)

    # 7. evidence
    nontriv = set()
    for c in cases:
        if mod.nontrivial(c):
            nontriv.add(digest(c.get('key', c['lines'])))
    cov = {
        'obligations': obligations,
        'discharged': discharged,
        'checker_cmd': f'cd lean && lake build {" ".join(targets)} && lake env lean Audit/{pid}.lean   (Lean 4.33.0 kernel; axioms audited per theorem)',
        'trusted_base': getattr(mod, 'TRUSTED_BASE', []) + [
            'Lean 4.33.0 kernel', 'axioms: propext, Classical.choice, Quot.sound (audited per theorem, nothing else accepted)',
            'hand-written Lean model tied to /repo by the correspondence run below (sampling)',
            'NumPy / CPython semantics as stated by the model'],
        'theorems': [n for n, _ in thms],
        'axioms_found': sorted({a for _, ax in thms for a in ax}),
        'traces_validated_against_impl': len(cases) - len(mismatching),
        'evaluations': stats['evaluations'],
        'distinct_nontrivial': len(nontriv),
        'rule': getattr(mod, 'RULE', ''),
        'samples': [c.get('desc', c['lines'][:6]) for c in cases[:3]] + ([cases[-1].get('desc', cases[-1]['lines'][:6])] if len(cases) > 3 else []),
        'distribution': (mod.distribution(cases) if cases else {'cases': 0}) if hasattr(mod, 'distribution') else {},
        'correspondence_mismatches': len(mismatching),
        'unproved_ops': getattr(mod, 'UNPROVED', []),
        'broken': broken,
        'known_findings_printed': known_lines,
        'notes': notes,
        'exhaustive': bool(getattr(mod, 'EXHAUSTIVE', {}).get(tier, False)),
    }
    ev = {
        'property_id': pid, 'tier': tier, 'seed': seed, 'level': 'proof', 'coverage': cov,
        'assumptions': getattr(mod, 'ASSUMPTIONS', []),
        'wall_s': round(time.time() - t0, 2), 'violations': len(vio_lines),
    }
    write_evidence(pid, ev)
    log(f'{pid} tier={tier} seed={seed}: theorems={discharged}/{obligations} cases={len(cases)} mismatches={len(mismatching)} '
        f'broken={len(broken)} violations={len(vio_lines)} wall={ev["wall_s"]}s')
    return rc


def replay(path):
    r = json.load(open(path if os.path.isabs(path) else os.path.join(VERIF, path)))
    pid = r['property']
    mod = importlib.import_module(f'props.{pid.lower()}')
    log(json.dumps(r, indent=1)[:4000])
    if r.get('kind') == 'failing-input' and hasattr(mod, 'replay'):
        res = mod.replay(r['failure'])
        log('REPLAY RESULT:', json.dumps(res, default=str)[:2000])
        return 1 if res and res.get('fails') else 0
    return 0


def main():
    ap = argparse.ArgumentParser()
    ap.add_argument('prop', nargs='?')
    ap.add_argument('--tier', default=os.environ.get('VERIF_TIER', 'quick'))
    ap.add_argument('--replay')
    a = ap.parse_args()
    os.chdir(VERIF)
    if a.replay:
        sys.exit(replay(a.replay))
    seed = int(os.environ.get('VERIF_SEED', '0') or 0)
    try:
        rc = run_check(a.prop.upper(), a.tier, seed)
    except Exception:
        traceback.print_exc()
        rc = 2
    sys.exit(rc)


if __name__ == '__main__':
    main()
