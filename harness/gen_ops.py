"""Per-op case generators over the whole legal argument space (plus a malformed stream).

A case = {'op', 'leaves': [(shape, data, rg)], 'args': [tokens], 'domain': str}; the program is
leaves, one op, a backward from every output with a random non-uniform gradient."""
import itertools
import numpy as np
from common import fbits, show_ints, show_floats
from tprog import show_sel
import gen_dag


def rshape(rng, rmin=0, rmax=4, smax=3):
    return tuple(rng.randint(1, smax) for _ in range(rng.randint(rmin, rmax)))


def vals(rng, shape, kind='any'):
    n = int(np.prod(shape)) if shape else 1
    if kind == 'pos':
        return [rng.pick([0.25, 0.5, 1.0, 1.5, 2.0, 3.0]) if rng.chance(.5) else round(rng.uniform(0.2, 3), 3) for _ in range(n)]
    if kind == 'distinct':
        base = rng.sample(range(-40, 40), n) if n <= 80 else rng.sample(range(-n, n), n)
        return [b / 8 for b in base]
    if kind == 'ties':       # few distinct values: the extreme is usually attained several times
        pool = rng.sample([-2.0, -0.5, 0.0, 0.5, 1.0, 3.0], rng.randint(1, 3))
        return [rng.pick(pool) for _ in range(n)]
    if kind == 'prob':
        return [round(rng.uniform(0.05, 0.95), 3) for _ in range(n)]
    return gen_dag.rand_data(rng, shape)


def bcast_operand(rng, s):
    """a shape that broadcasts to s"""
    t = list(s)
    k = rng.randint(0, len(t))
    t = t[k:] if rng.chance(.5) else t
    return tuple(1 if rng.chance(.3) else n for n in t)


def axes_arg(rng, ndim, allow_tuple=True):
    r = rng.random()
    if ndim == 0 or r < .2:
        return 'all'
    if r < .6 or not allow_tuple:
        return f'i:{rng.randrange(-ndim, ndim)}'
    if r < .66:
        return 't:_'          # the empty tuple of dims: nothing is reduced
    k = rng.randint(1, ndim)
    ax = rng.sample(range(ndim), k)
    return 't:' + show_ints([a if rng.chance(.5) else a - ndim for a in ax])


def index_expr(rng, shape):
    sel = []
    used_list = False
    has_int = False
    ell = False
    i = 0
    dims = list(shape)
    while i < len(dims):
        n = dims[i]
        r = rng.random()
        if r < .12 and not ell:
            sel.append(Ellipsis); ell = True
            i = len(dims) - rng.randint(0, len(dims) - i)
            continue
        if r < .2:
            sel.append(None); continue
        if r < .4 and not used_list:
            sel.append(rng.randrange(-n, n)); has_int = True
        elif r < .55 and not used_list and not has_int:
            # integer-array index: positions drawn from a small pool so that repeats are frequent, each written
            # either as k or as its negative alias k - n (the same element selected through different spellings)
            pool = [rng.randrange(n) for _ in range(rng.randint(1, 2))]
            sel.append([(q if rng.chance(.5) else q - n) for q in (rng.pick(pool) for _ in range(rng.randint(1, 4)))]); used_list = True
        else:
            step = rng.pick([1, 1, 2, -1, -2, 3])
            sel.append(slice(rng.pick([None, 0, 1, -1, -2, n]), rng.pick([None, 0, n, -1, 1, -n - 1]), step))
        i += 1
        if rng.chance(.15): break
    if used_list and has_int:
        sel = [s for s in sel if not isinstance(s, int) or isinstance(s, bool)]
    return tuple(sel)


def alias_list(rng, n):
    """an integer list over an axis of length n in which NO written value occurs twice while at least one position is selected twice —
    once as q and once as its negative alias q - n — next to further positions under either spelling, in shuffled order"""
    pos = rng.sample(range(n), rng.randint(1, min(n, 3)))
    both = [q for q in pos if rng.chance(.5)] or [rng.pick(pos)]
    lst = []
    for q in pos:
        lst += [q, q - n] if q in both else [q if rng.chance(.5) else q - n]
    rng.shuffle(lst)
    return lst


def index_expr_list(rng, shape, alias=None):
    """an index expression that certainly holds an integer-array index with aliased / repeated entries,
    surrounded by slices / ellipsis / newaxis; alias (default: half of the time): the repeats are ONLY visible modulo the axis length"""
    ax = rng.randrange(len(shape))
    n = shape[ax]
    pool = [rng.randrange(n) for _ in range(rng.randint(1, 2))]
    lst = [(q if rng.chance(.5) else q - n) for q in (rng.pick(pool) for _ in range(rng.randint(2, 4)))]
    if rng.chance(.5) if alias is None else alias: lst = alias_list(rng, n)
    sel = []
    for k, m in enumerate(shape):
        if k == ax: sel.append(lst)
        elif rng.chance(.25): sel.append(None); sel.append(slice(None, None, rng.pick([1, -1, 2])))
        else: sel.append(slice(rng.pick([None, 0, 1]), rng.pick([None, m, -1]), rng.pick([1, 1, -1, 2])))
    if rng.chance(.3) and ax + 1 < len(shape):
        sel = sel[:ax + 1] + [Ellipsis]
    return tuple(sel)


OPS_BASIC = ['add', 'mul', 'matmul', 'addmm', 'pow', 'rpow', 'neg', 'clone', 'exp', 'log', 'sqrt', 'slice', 'concat', 'stack',
             'unbind', 'sum', 'mean', 'max', 'min', 'squeeze', 'unsqueeze', 'reshape', 'movedim', 'transpose', 'flatten', 'unfold_dim']


def gen_basic(rng, op, malformed=False):
    L = lambda sh, kind='any', rg=True: (sh, vals(rng, sh, kind), rg)
    if op in ('add', 'mul'):
        s = rshape(rng)
        a, b = bcast_operand(rng, s), bcast_operand(rng, s)
        if malformed: b = tuple(n + 1 for n in b) + (4,)
        return [L(a, rg=rng.chance(.85)), L(b, rg=rng.chance(.85))], []
    if op == 'matmul':
        n, k, m = rng.randint(1, 3), rng.randint(1, 3), rng.randint(1, 3)
        batch = rshape(rng, 0, 2)
        a = bcast_operand(rng, batch) + (n, k); b = bcast_operand(rng, batch) + (k, m)
        if malformed: b = rng.pick([(k + 1, m), (m,)])
        return [L(a), L(b)], []
    if op == 'addmm':
        n, k, m = rng.randint(1, 3), rng.randint(1, 3), rng.randint(1, 3)
        a = bcast_operand(rng, (n, m))
        if malformed: a = (n + 1, m + 2)
        elif rng.chance(.3):
            # broadcasting the other way round: the PRODUCT has extent 1 along a matrix axis and the summand is larger there
            # (a + b @ c broadcasts both operands; whatever the forward accepts the backward has to differentiate)
            if rng.chance(.5): a = (rng.randint(2, 3), m); n = 1
            else: a = (n, rng.randint(2, 3)); m = 1
            if rng.chance(.3): a = (2,) + a
        return [L(a), L((n, k)), L((k, m))], []
    if op == 'pow':
        e = rng.pick([2, 3, -1, 0.5, 1.5, -2, 1, 2.5, 4, 0, 0, -0.0, 1 / 3, 2 / 3, 0.1, -0.5, 1 / 3])      # exponent 0: the constant 1 with gradient 0 (on non-zero operands); fractions on either-sign data give nan
        s = rshape(rng)
        lf = L(s, 'pos' if e == 0 or ((e != int(e) or e < 0) and rng.chance(.6)) else 'any')
        if e >= 1 and lf[1] and rng.chance(.5):        # an exact zero in the base (a squared ReLU output, v - v.max()): the derivative n * 0 ** (n - 1) is finite there
            lf[1][rng.randrange(len(lf[1]))] = rng.pick([0.0, 0.0, -0.0])
        return [lf], [fbits(float(e))]
    if op == 'rpow':
        return [L(rshape(rng))], [fbits(rng.pick([2.0, 0.5, 3.0, 2.718281828459045, 1.5]))]
    if op in ('neg', 'clone', 'exp'):
        return [L(rshape(rng))], []
    if op in ('log', 'sqrt'):
        return [L(rshape(rng), 'pos')], []
    if op == 'slice':
        s = rshape(rng, 1, 4, 4)
        sel = index_expr_list(rng, s) if rng.chance(.4) else index_expr(rng, s)
        if malformed: sel = sel + tuple(0 for _ in range(5))
        return [L(s)], [show_sel(sel)]
    if op in ('concat', 'stack'):
        s = rshape(rng, 1 if op == 'concat' else 0, 3)
        k = rng.randint(1, 3)
        if op == 'concat':
            ax = rng.randrange(-len(s), len(s))
            shapes = [tuple(rng.randint(1, 3) if i == ax % len(s) else n for i, n in enumerate(s)) for _ in range(k)]
        else:
            ax = rng.randrange(-(len(s) + 1), len(s) + 1)
            shapes = [s] * k
        if malformed: ax = len(s) + 2
        return [L(sh, rg=rng.chance(.8)) for sh in shapes], [ax]
    if op == 'unbind':
        s = rshape(rng, 1, 4)
        ax = rng.randrange(-len(s), len(s))
        if malformed: ax = len(s)
        return [L(s)], [ax]
    if op in ('sum', 'mean'):
        s = rshape(rng)
        ax = axes_arg(rng, len(s))
        if malformed: ax = f'i:{len(s) + 1}' if rng.chance(.5) else 't:0,0'
        return [L(s)], [ax, int(rng.chance(.5))]
    if op in ('max', 'min'):
        s = rshape(rng)
        ax = axes_arg(rng, len(s), allow_tuple=False)
        d = '~' if ax == 'all' or rng.chance(.25) else ax[2:]      # the global extreme (dim=None) has its own backward branch
        if malformed: d = str(len(s) + 1)
        return [L(s, rng.pick(['distinct', 'distinct', 'distinct', 'ties', 'ties', 'any']))], [d, int(rng.chance(.5))]
    if op == 'squeeze':
        s = tuple(1 if rng.chance(.5) else n for n in rshape(rng))
        ax = axes_arg(rng, len(s))
        if malformed: ax = f'i:{len(s) + 2}'
        return [L(s)], [ax]
    if op == 'unsqueeze':
        s = rshape(rng, 0, 3)
        k = rng.randint(1, 2)
        nd = len(s) + k
        ax = rng.sample(range(nd), k)
        ax = [a if rng.chance(.5) else a - nd for a in ax]
        if malformed: ax = [nd + 1]
        return [L(s)], [show_ints(ax)]
    if op == 'reshape':
        s = rshape(rng)
        n = int(np.prod(s)) if s else 1
        divs = [d for d in range(1, n + 1) if n % d == 0]
        d = rng.pick(divs)
        tgt = rng.pick([(n,), (-1,), (d, n // d), (d, -1), (-1, d), (1, n, 1), (n // d, d, 1)])
        if malformed: tgt = (n + 1,)
        return [L(s)], [show_ints(tgt)]
    if op in ('movedim', 'transpose'):
        s = rshape(rng, 1, 4)
        a, b = rng.randrange(-len(s), len(s)), rng.randrange(-len(s), len(s))
        if rng.chance(.3):                      # the same dimension named twice (directly or through its negative alias): identity
            b = rng.pick([a, a - len(s) if a >= 0 else a + len(s)])
        if malformed: a = len(s)
        return [L(s)], [a, b]
    if op == 'flatten':
        s = rshape(rng, 0, 4)
        nd = max(len(s), 1)
        a, b = rng.randrange(-nd, nd), rng.randrange(-nd, nd)
        if malformed: a = nd
        return [L(s)], [a, b]
    if op == 'unfold_dim':
        s = rshape(rng, 1, 3, 5)
        dmn = rng.randrange(-len(s), len(s))
        size = step = None
        if rng.chance(.6):        # a long axis: many windows, windows that overlap their second and third neighbours (size > 2 * step)
            s = list(s); s[dmn % len(s)] = rng.randint(5, 10); s = tuple(s)
            if rng.chance(.6):
                step = rng.randint(1, 2); size = rng.randint(2 * step + 1, min(s[dmn % len(s)], 3 * step + 2))
        size = size or rng.randint(1, s[dmn % len(s)])
        step = step or rng.randint(1, 3)
        if malformed: size = s[dmn % len(s)] + 1
        return [L(s)], [dmn, size, step]
    raise KeyError(op)


ZERO_D_INT_AXIS = True


def enumerate_basic(rng, tier):
    """the COMPLETE discrete argument space of the shape-manipulating and reducing ops on small operands — every dim in
    [-ndim - 1, ndim] (one step beyond the legal range on either side: the accept / reject boundary), every tuple of dims
    (any order, negative aliases, the empty tuple, a repeated dim), both keepdims, every (dim0, dim1) / (source, destination) /
    (start, end) pair — instead of a random sample of it. Yields (op, leaves, args, legal) with fresh random data."""
    import itertools
    sizes = (1, 2) if tier == 'quick' else (1, 2, 3)
    maxrank = 2 if tier == 'quick' else 3
    shapes = [sh for r in range(maxrank + 1) for sh in itertools.product(sizes, repeat=r)]
    if tier == 'quick':
        shapes = [sh for sh in shapes if sh in ((), (1,), (2,), (1, 2), (2, 1), (2, 2))] + [(2, 1, 2)]
    L = lambda sh, kind='any': (sh, vals(rng, sh, kind), True)
    def tuples(nd):
        out = [()]
        for k in range(1, nd + 1):
            for t in itertools.permutations(range(nd), k):
                out.append(t)
                out.append(tuple(a - nd for a in t))
                if k > 1: out.append(tuple(a - nd if i % 2 else a for i, a in enumerate(t)))
        if nd: out += [(0, 0), (0, -nd), (nd,)]          # the same dim twice (directly / through its alias), out of range
        return out
    for sh in shapes:
        nd = len(sh)
        dims = list(range(-nd - 1, nd + 1))
        # sum / max / min of a 0-d tensor with dim 0 / -1 are accepted by NumPy, PyTorch, the code and (since the correction) the
        # model; the switch stays for bisecting
        rdims = [d for d in dims if ZERO_D_INT_AXIS or nd > 0 or d not in (0, -1)]
        for keep in (0, 1):
            for op in ('sum', 'mean'):
                yield op, [L(sh)], ['all', keep]
                for d in (rdims if op == 'sum' else dims): yield op, [L(sh)], [f'i:{d}', keep]
                for t in tuples(nd): yield op, [L(sh)], ['t:' + show_ints(t), keep]
            for op in ('max', 'min'):
                yield op, [L(sh, 'distinct')], ['~', keep]
                for d in rdims: yield op, [L(sh, 'distinct')], [str(d), keep]
        yield 'squeeze', [L(sh)], ['all']
        for d in dims: yield 'squeeze', [L(sh)], [f'i:{d}']
        for t in tuples(nd): yield 'squeeze', [L(sh)], ['t:' + show_ints(t)]
        for d in range(-nd - 2, nd + 2): yield 'unsqueeze', [L(sh)], [show_ints([d])]
        if nd <= 2:
            for a, b in itertools.product(range(-nd - 2, nd + 2), repeat=2): yield 'unsqueeze', [L(sh)], [show_ints([a, b])]
        for a, b in itertools.product(dims, repeat=2):
            yield 'transpose', [L(sh)], [a, b]
            yield 'movedim', [L(sh)], [a, b]
            yield 'flatten', [L(sh)], [a, b]
        for d in dims: yield 'unbind', [L(sh)], [d]
        for d in range(-nd - 2, nd + 2):
            yield 'stack', [L(sh), L(sh)], [d]
            if nd: yield 'concat', [L(sh), L(tuple(n + 1 if i == d % nd else n for i, n in enumerate(sh)) if -nd <= d < nd else sh)], [d]
        n = int(np.prod(sh)) if sh else 1
        for tgt in {(n,), (-1,), (1, n), (n, 1), (-1, 1), (1, -1), (-1, n), (n, -1), (2, -1), (-1, 2), (-1, -1), (n + 1,), (), (1,) * 3}:
            yield 'reshape', [L(sh)], [show_ints(tgt)]


def program(case, rng, rg_outputs=None):
    """protocol lines + bookkeeping for a single-op case"""
    lines = []
    for lf in case['leaves']:
        sh, data, rg = lf[:3]
        lines.append(gen_dag.leaf_line(sh, data, rg, lf[3] if len(lf) > 3 else case.get('dt', 'f64')))
    nl = len(case['leaves'])
    lines.append(' '.join(['t op', case['op'], show_ints(range(nl))] + [str(a) for a in case['args']]))
    return lines


# ------------------------------------------------------------------------------------------- nn ops
WIDE_LEVELS = False      # set by the float64 property modules (C02, C06): batch-norm inputs riding on a level of 2^26; meaningless in float32
OPS_NN = ['relu', 'leaky_relu', 'selu', 'tanh', 'sigmoid', 'softmax', 'log_softmax', 'mse_loss', 'nll_loss', 'binary_cross_entropy',
          'binary_cross_entropy_with_logits', 'cross_entropy', 'linear', 'conv1d', 'conv2d', 'max_pool1d', 'avg_pool1d', 'max_pool2d',
          'avg_pool2d', 'unfold', 'fold', 'batch_norm']


def geom1(rng, malformed=False):
    """(L, k, s, p, d) with at least one window"""
    if not malformed and rng.chance(.25):
        # stride >= kernel with dilation > 1: the dilated windows interleave (taps of different windows share cells)
        k, d = rng.randint(2, 3), rng.randint(2, 3)
        s = rng.pick([k, k + 1, 2 * k])
        p = rng.randint(0, 1)
        L = d * (k - 1) + 1 + s * rng.randint(1, 2) - 2 * p + rng.randint(0, 1)
        if L >= 1 and L + 2 * p >= d * (k - 1) + 1:
            return L, k, s, p, d
    for _ in range(50):
        L, k, s, d = rng.randint(1, 7), rng.randint(1, 4), rng.randint(1, 4), rng.randint(1, 3)
        p = rng.randint(0, max(0, (d * (k - 1)) // 2 + 1))
        if malformed:
            return L, L + 2 * p + 3, s, p, 1
        if L + 2 * p >= d * (k - 1) + 1:
            return L, k, s, p, d
    return 5, 2, 1, 0, 1


def nonkink(rng, shape):
    """values away from 0 (relu-family kinks)"""
    return [v if abs(v) > 0.05 else 0.5 for v in vals(rng, shape)]


def geom2(rng, malformed=False):
    """two spatial axes; 40 % of the time the second axis takes the arguments (kernel, stride, padding, dilation) of the first, so that
    the `int` spelling of the `int or tuple` arguments applies"""
    H, kh, sh, ph, dh = geom1(rng, malformed)
    W, kw, sw, pw, dw = geom1(rng)
    if rng.chance(.4) and not malformed:
        kw, sw, pw, dw = kh, sh, ph, dh
        W = max(W, dw * (kw - 1) + 1 - 2 * pw, 1)
    return (H, kh, sh, ph, dh), (W, kw, sw, pw, dw)


def far_out(rng, data):
    """with WIDE_LEVELS: some entries replaced by magnitudes at which a naive exp / log formula overflows in binary64 too"""
    if WIDE_LEVELS and data and rng.chance(.45):
        data = list(data)
        pos = rng.sample(range(len(data)), min(len(data), rng.randint(1, 3)))
        for k, i in enumerate(pos):       # the first replaced entry is far on the negative side, the second far on the positive side
            data[i] = rng.pick([-800.0, -745.5, -711.0]) if k == 0 else rng.pick([800.0, 710.0]) if k == 1 else rng.pick([-100.0, 100.0, -40.0])
    return data


def gen_nn(rng, op, malformed=False):
    L = lambda sh, data=None, rg=True: (sh, data if data is not None else vals(rng, sh), rg)
    if op in ('relu', 'selu'):
        s = rshape(rng); return [L(s, nonkink(rng, s))], []
    if op == 'leaky_relu':
        s = rshape(rng); return [L(s, nonkink(rng, s))], [fbits(rng.pick([0.01, 0.2, 0.0, 1.5, -0.5]))]
    if op in ('tanh', 'sigmoid'):
        s = rshape(rng); return [L(s, far_out(rng, vals(rng, s)))], []
    if op in ('softmax', 'log_softmax'):
        if rng.chance(.3 if malformed else .2):
            # 0-d operand: the kernels reduce with `a.max(axis, keepdims=True)` / `.sum(axis, keepdims=True)`, and NumPy's reductions accept
            # the int axes 0 and -1 on a 0-d array (nothing is reduced: value 1 / 0, gradient 0); every other dim raises
            return [L(())], [rng.pick([1, -2, 2]) if malformed else rng.pick([0, -1])]
        s = rshape(rng, 1, 4)
        d = rng.randrange(-len(s), len(s))
        if malformed: d = len(s)
        return [L(s, far_out(rng, vals(rng, s)))], [d]
    if op == 'mse_loss':
        s = rshape(rng)
        t = s if not malformed else s + (2,)
        return [L(s, rg=rng.chance(.8)), L(t, rg=rng.chance(.6))], []
    if op in ('nll_loss', 'cross_entropy'):
        n, c = rng.randint(1, 4), rng.randint(1, 4)
        labels = [rng.randrange(c) for _ in range(n)]
        if malformed: labels[0] = c + 1
        return [L((n, c)), ((n,), [float(v) for v in labels], False, 'i64')], [show_ints(labels)]
    if op == 'binary_cross_entropy':
        s = rshape(rng, 1, 2)
        return [L(s, vals(rng, s, 'prob')), L(s, [float(rng.randint(0, 1)) if rng.chance(.7) else round(rng.random(), 2) for _ in range(int(np.prod(s)))], False)], []
    if op == 'binary_cross_entropy_with_logits':
        s = rshape(rng, 1, 2)
        return [L(s, far_out(rng, vals(rng, s))), L(s, [float(rng.randint(0, 1)) for _ in range(int(np.prod(s)))], False)], []
    if op == 'linear':
        n, i, o = rng.randint(1, 3), rng.randint(1, 4), rng.randint(1, 3)
        bias = rng.chance(.6)
        w = (o, i) if not malformed else (o, i + 1)
        return [L((n, i), rg=rng.chance(.8)), L(w)] + ([L((o,))] if bias else []), [int(bias)]
    if op == 'conv1d':
        n, c, co = rng.randint(1, 2), rng.randint(1, 3), rng.randint(1, 3)
        Ln, k, s, p, d = geom1(rng, malformed)
        bias = rng.chance(.6)
        return [L((n, c, Ln), rg=rng.chance(.8)), L((co, c, k))] + ([L((co,))] if bias else []), [int(bias), s, p, d]
    if op == 'conv2d':
        n, c, co = rng.randint(1, 2), rng.randint(1, 2), rng.randint(1, 2)
        (H, kh, sh, ph, dh), (W, kw, sw, pw, dw) = geom2(rng, malformed)
        bias = rng.chance(.6)
        return ([L((n, c, H, W), rg=rng.chance(.8)), L((co, c, kh, kw))] + ([L((co,))] if bias else []),
                [int(bias), show_ints((sh, sw)), show_ints((ph, pw)), show_ints((dh, dw))])
    if op in ('max_pool1d', 'avg_pool1d') and not malformed and rng.chance(.12):
        # a window of more than 256 elements (global pooling of a long signal): positions inside a window do not fit a byte
        Ln = rng.randint(262, 330); k = rng.randint(257, Ln); s = rng.randint(1, 40)
        sh = (1, rng.randint(1, 2), Ln)
        return [L(sh, vals(rng, sh, 'distinct') if op.startswith('max') else None)], [k, s, 0, 1]
    if op in ('max_pool2d', 'avg_pool2d') and not malformed and rng.chance(.12):
        H, W = rng.randint(17, 20), rng.randint(17, 20); kh, kw = rng.pick([(17, 17), (16, 17), (17, 16), (H, W)])
        s4 = (1, 1, H, W)
        return [L(s4, vals(rng, s4, 'distinct') if op.startswith('max') else None)], [show_ints((kh, kw)), show_ints((rng.randint(1, 3), rng.randint(1, 3))), show_ints((0, 0)), show_ints((1, 1))]
    if op in ('max_pool1d', 'avg_pool1d'):
        n, c = rng.randint(1, 2), rng.randint(1, 2)
        while True:
            Ln, k, s, p, d = geom1(rng, malformed)
            if malformed or p <= k // 2: break
        if not malformed and rng.chance(.2):
            # the textbook configuration — stride = kernel, no padding — with a DILATED kernel: the windows tile nothing
            k, d = rng.randint(2, 3), rng.randint(2, 3); s, p = k, 0
            Ln = d * (k - 1) + 1 + s * rng.randint(0, 2) + rng.randint(0, 1)
        sh = (n, c, Ln)
        data = vals(rng, sh, rng.pick(['distinct', 'distinct', 'ties'])) if op.startswith('max') else None
        return [L(sh, data)], [k, s, p, d]
    if op in ('max_pool2d', 'avg_pool2d'):
        n, c = rng.randint(1, 2), rng.randint(1, 2)
        while True:
            (H, kh, sh_, ph, dh), (W, kw, sw, pw, dw) = geom2(rng, malformed)
            if malformed or (ph <= kh // 2 and pw <= kw // 2): break
        if not malformed and rng.chance(.2):
            # stride = kernel, no padding, dilated kernel on at least one axis
            kh, kw = rng.randint(1, 3), rng.randint(1, 3); sh_, sw, ph, pw = kh, kw, 0, 0
            dh, dw = rng.pick([(2, 1), (1, 2), (2, 2), (3, 2)])
            H = dh * (kh - 1) + 1 + sh_ * rng.randint(0, 2) + rng.randint(0, 1); W = dw * (kw - 1) + 1 + sw * rng.randint(0, 2) + rng.randint(0, 1)
        s4 = (n, c, H, W)
        data = vals(rng, s4, rng.pick(['distinct', 'distinct', 'ties'])) if op.startswith('max') else None
        return [L(s4, data)], [show_ints((kh, kw)), show_ints((sh_, sw)), show_ints((ph, pw)), show_ints((dh, dw))]
    if op == 'unfold':
        n, c = rng.randint(1, 2), rng.randint(1, 2)
        (H, kh, sh_, ph, dh), (W, kw, sw, pw, dw) = geom2(rng, malformed)
        return [L((n, c, H, W))], [show_ints((kh, kw)), show_ints((dh, dw)), show_ints((sh_, sw)), show_ints((ph, pw)), fbits(rng.pick([0.0, 0.0, 1.5]))]
    if op == 'fold':
        n, c = rng.randint(1, 2), rng.randint(1, 2)
        (H, kh, sh_, ph, dh), (W, kw, sw, pw, dw) = geom2(rng)
        lh = (H + 2 * ph - dh * (kh - 1) - 1) // sh_ + 1
        lw = (W + 2 * pw - dw * (kw - 1) - 1) // sw + 1
        Lc = lh * lw + (1 if malformed else 0)
        return [L((n, c * kh * kw, Lc))], [show_ints((H, W)), show_ints((kh, kw)), show_ints((dh, dw)), show_ints((sh_, sw)), show_ints((ph, pw))]
    if op == 'batch_norm':
        c = rng.randint(1, 3)
        rest = rng.pick([(), (rng.randint(1, 3),), (rng.randint(1, 2), rng.randint(1, 2))])
        n = rng.randint(2, 4)
        sh = (n, c) + rest
        hw, hb, tr, track = rng.chance(.6), rng.chance(.6), rng.chance(.5), rng.chance(.6)
        if malformed: sh, tr = (1, c), True
        xdata = None
        if WIDE_LEVELS and rng.chance(.2) and not malformed:
            # channels whose level dwarfs their spread (2^26 + k/8, exact in binary64): a variance obtained by cancellation loses them
            off = rng.pick([2.0 ** 26, -2.0 ** 26, 2.0 ** 24])
            xdata = [off + rng.dyadic(-4, 4) for _ in range(int(np.prod(sh)))]
        leaves = [L(sh, xdata, rg=rng.chance(.85))] + ([L((c,), rg=rng.chance(.85))] if hw else []) + ([L((c,), rg=rng.chance(.85))] if hb else [])
        rm = show_floats([rng.dyadic(-1, 1) for _ in range(c)]) if track else '-'
        rv = show_floats([rng.randint(2, 24) / 8 for _ in range(c)]) if track else '-'
        return leaves, [int(hw), int(hb), int(tr), fbits(rng.pick([1e-5, 1e-3, 0.1])), rm, rv]
    raise KeyError(op)
