"""Formula translator: the arithmetic of the pointwise kernels of `synapgrad/cpu_ops.py` (and, through `optim_formulas.py`, of the
optimizer steps) is read from /repo's working tree with `ast` on every run and re-emitted as Lean definitions
(`lean/SynapModel/Generated/KernelFormulas.lean`), generic in the scalar type.  `Proofs/FormulaTie*.lean` then proves, over ℝ,
that every generated formula is the formula the hand-written model kernel applies element by element, and that each generated
`*_backward` is `grad ·` the derivative of the generated `*_forward` (`Props.C01` / `Props.C02`).  A change to a formula in the
source therefore changes the generated definition and the tie theorem stops compiling (a broken proof obligation); a formula the
translator cannot read is not emitted, which breaks the theorems that name it in the same way.

Semantics of the translation (the trusted part, validated on every run by executing the generated definitions at `Float` in the
driver against the real kernels on the same inputs — `gf` command family):

  * an `np.ndarray` parameter stands for ONE element of it (the kernels translated here are elementwise: no axis arguments, no
    indexing, no reductions; `unbroadcast(e, shape)` is the array-level wrapper and is translated as `e`), a shape parameter is
    dropped, a Python scalar parameter is a scalar;
  * `+ - * /` and unary minus are the field operations, `x ** k` for an integer literal k ≥ 1 is the k-fold product, any other
    `x ** y` is `Transc.pow x y`; `np.exp / log / sqrt / tanh` are `Transc.*`; `np.maximum / minimum` are `maxS / minS`;
  * a comparison in arithmetic position is the 0/1 indicator, in the condition of `np.where(c, x, y)` it is the proposition of
    `if c then x else y`; `x == y` is "neither smaller nor larger";
  * `np.ones(..)` is 1, `np.zeros(..)` / `np.zeros_like(..)` is 0, `x.copy()` is x; an integer-valued literal is a natural-number
    cast, any other float literal is its decimal expansion (`OfScientific`); a module-level float constant becomes a definition;
  * a call of another translated kernel is a call of its generated definition; local assignments are `let`s; a tuple is a tuple.

Anything else raises `Untranslatable` for that function only.
"""
import ast, os, re
from decimal import Decimal

import common

SRC = lambda: os.path.join(common.REPO, 'synapgrad', 'cpu_ops.py')
OUT = os.path.join(common.LEAN_DIR, 'SynapModel', 'Generated', 'KernelFormulas.lean')

# the elementwise kernels (name -> property whose tie theorems name it)
WANTED = {}
for _n in ('add', 'mul', 'pow', 'rpow', 'neg', 'clone', 'exp', 'log', 'sqrt'):
    WANTED[_n + '_forward'] = 'C01'; WANTED[_n + '_backward'] = 'C01'
for _n in ('relu', 'leaky_relu', 'selu', 'tanh', 'sigmoid', 'mse_loss', 'bce_loss', 'bce_with_logits_loss'):
    WANTED[_n + '_forward'] = 'C02'; WANTED[_n + '_backward'] = 'C02'

UNARY_NP = {'exp': 'Transc.exp', 'log': 'Transc.log', 'sqrt': 'Transc.sqrt', 'tanh': 'Transc.tanh'}
BINARY_NP = {'maximum': 'maxS', 'minimum': 'minS'}
LEAN_KEYWORDS = {'at', 'from', 'have', 'show', 'fun', 'let', 'in', 'if', 'then', 'else', 'do', 'end', 'open', 'variable', 'def',
                 'theorem', 'match', 'with', 'where', 'import', 'namespace', 'section', 'by', 'exp', 'instance', 'class'}


class Untranslatable(Exception):
    pass


def ident(name):
    name = re.sub(r'[^A-Za-z0-9_]', '_', name)
    return name + '_' if name in LEAN_KEYWORDS else name


def lit(value):
    """a Python numeric literal as a Lean term of the generic scalar type"""
    if isinstance(value, bool):
        raise Untranslatable('boolean literal')
    if isinstance(value, int) or (isinstance(value, float) and value == int(value) and abs(value) < 2 ** 53):
        k = int(value)
        if k < 0:
            return f'(-{lit(-k)})'
        if k == 0: return '(0 : α)'
        if k == 1: return '(1 : α)'
        return f'(({k} : Nat) : α)'
    if isinstance(value, float):
        if value != value or value in (float('inf'), float('-inf')):
            raise Untranslatable('non-finite literal')
        if value < 0:
            return f'(-{lit(-value)})'
        d = Decimal(repr(value))
        sign, digits, exp = d.as_tuple()
        m = int(''.join(map(str, digits)))
        if exp >= 0:
            return f'(({m * 10 ** exp} : Nat) : α)'
        return f'(OfScientific.ofScientific {m} true {-exp} : α)'
    raise Untranslatable(f'literal {value!r}')


class Fn:
    """translator of one kernel function"""

    def __init__(self, node, consts, known):
        self.node, self.consts, self.known = node, consts, known
        self.params, self.scalars = [], set()
        for a in node.args.args:
            ann = ast.unparse(a.annotation) if a.annotation is not None else ''
            if 'tuple' in ann and 'ndarray' not in ann and 'int' not in ann:
                continue                                   # a shape
            self.params.append(a.arg)
        if node.args.vararg or node.args.kwarg or node.args.kwonlyargs:
            raise Untranslatable('star / keyword-only parameters')
        self.locals = set(self.params)

    # ---- expressions -------------------------------------------------------------------
    def num(self, e):
        """numeric-valued expression -> Lean term"""
        if isinstance(e, ast.Constant):
            return lit(e.value)
        if isinstance(e, ast.Name):
            if e.id in self.locals: return ident(e.id)
            if e.id in self.consts: return ident(e.id) + '_c'
            raise Untranslatable(f'name {e.id}')
        if isinstance(e, ast.UnaryOp):
            if isinstance(e.op, ast.USub): return f'(-{self.num(e.operand)})'
            if isinstance(e.op, ast.UAdd): return self.num(e.operand)
            raise Untranslatable(ast.unparse(e))
        if isinstance(e, ast.BinOp):
            if isinstance(e.op, ast.Pow):
                r = e.right
                if isinstance(r, ast.Constant) and not isinstance(r.value, bool) and isinstance(r.value, (int, float)) \
                        and r.value == int(r.value) and 1 <= int(r.value) <= 4:
                    b = self.num(e.left)
                    return '(' + ' * '.join([b] * int(r.value)) + ')'
                return f'(Transc.pow {self.num(e.left)} {self.num(e.right)})'
            op = {ast.Add: '+', ast.Sub: '-', ast.Mult: '*', ast.Div: '/'}.get(type(e.op))
            if op is None:
                raise Untranslatable(ast.unparse(e))
            return f'({self.num(e.left)} {op} {self.num(e.right)})'
        if isinstance(e, ast.Compare):
            return f'(if {self.prop(e)} then (1 : α) else (0 : α))'
        if isinstance(e, ast.Call):
            return self.call(e)
        if isinstance(e, ast.Tuple):
            return '(' + ', '.join(self.num(x) for x in e.elts) + ')'
        raise Untranslatable(ast.unparse(e))

    def prop(self, e):
        """boolean-valued expression -> Lean proposition"""
        if isinstance(e, ast.Compare) and len(e.ops) == 1:
            a, b = self.num(e.left), self.num(e.comparators[0])
            op = e.ops[0]
            if isinstance(op, ast.Gt): return f'{b} < {a}'
            if isinstance(op, ast.Lt): return f'{a} < {b}'
            if isinstance(op, ast.GtE): return f'{b} ≤ {a}'
            if isinstance(op, ast.LtE): return f'{a} ≤ {b}'
            if isinstance(op, ast.Eq): return f'(¬ ({a} < {b}) ∧ ¬ ({b} < {a}))'
            if isinstance(op, ast.NotEq): return f'¬ (¬ ({a} < {b}) ∧ ¬ ({b} < {a}))'
        if isinstance(e, ast.BoolOp):
            j = ' ∧ ' if isinstance(e.op, ast.And) else ' ∨ '
            return '(' + j.join(self.prop(v) for v in e.values) + ')'
        if isinstance(e, ast.BinOp) and isinstance(e.op, (ast.BitAnd, ast.BitOr)):
            j = ' ∧ ' if isinstance(e.op, ast.BitAnd) else ' ∨ '
            return f'({self.prop(e.left)}{j}{self.prop(e.right)})'
        if isinstance(e, ast.UnaryOp) and isinstance(e.op, (ast.Not, ast.Invert)):
            return f'¬ ({self.prop(e.operand)})'
        raise Untranslatable('condition ' + ast.unparse(e))

    def call(self, e):
        f = e.func
        if isinstance(f, ast.Attribute) and isinstance(f.value, ast.Name) and f.value.id == 'np':
            n = f.attr
            if n in UNARY_NP and len(e.args) == 1 and not e.keywords:
                return f'({UNARY_NP[n]} {self.num(e.args[0])})'
            if n in BINARY_NP and len(e.args) == 2 and not e.keywords:
                return f'({BINARY_NP[n]} {self.num(e.args[0])} {self.num(e.args[1])})'
            if n == 'where' and len(e.args) == 3 and not e.keywords:
                return f'(if {self.prop(e.args[0])} then {self.num(e.args[1])} else {self.num(e.args[2])})'
            if n == 'ones': return '(1 : α)'
            if n in ('zeros', 'zeros_like'): return '(0 : α)'
            if n in ('array', 'asarray') and len(e.args) == 1: return self.num(e.args[0])
            raise Untranslatable('np.' + n)
        if isinstance(f, ast.Attribute) and f.attr == 'copy' and not e.args:
            return self.num(f.value)
        if isinstance(f, ast.Name):
            if f.id == 'unbroadcast' and len(e.args) == 2:
                return self.num(e.args[0])
            if f.id in self.known:
                callee = self.known[f.id]
                args = []
                pos = 0
                for a in callee.node.args.args:
                    if pos >= len(e.args): raise Untranslatable('call arity ' + ast.unparse(e))
                    if a.arg in callee.params:
                        args.append(self.num(e.args[pos]))
                    pos += 1
                if e.keywords or pos != len(e.args): raise Untranslatable('call shape ' + ast.unparse(e))
                return '(' + ' '.join([f.id] + args) + ')'
        raise Untranslatable('call ' + ast.unparse(e))

    # ---- statements --------------------------------------------------------------------
    def body(self):
        lets, ret = [], None
        for st in self.node.body:
            if isinstance(st, ast.Expr) and isinstance(st.value, ast.Constant) and isinstance(st.value.value, str):
                continue                                   # docstring
            if ret is not None:
                raise Untranslatable('statement after return')
            if isinstance(st, ast.Assign) and len(st.targets) == 1 and isinstance(st.targets[0], ast.Name):
                rhs = self.num(st.value)
                self.locals.add(st.targets[0].id)
                lets.append(f'let {ident(st.targets[0].id)} := {rhs}')
            elif isinstance(st, ast.Assign) and len(st.targets) == 1 and isinstance(st.targets[0], ast.Tuple) \
                    and all(isinstance(t, ast.Name) for t in st.targets[0].elts):
                rhs = self.num(st.value)
                names = [t.id for t in st.targets[0].elts]
                self.locals.update(names)
                lets.append(f'let ({", ".join(ident(n) for n in names)}) := {rhs}')
            elif isinstance(st, ast.Return) and st.value is not None:
                ret = self.num(st.value)
            else:
                raise Untranslatable('statement ' + ast.unparse(st).split('\n')[0])
        if ret is None:
            raise Untranslatable('no return value')
        return lets, ret

    def arity_out(self):
        r = [s for s in self.node.body if isinstance(s, ast.Return)]
        return len(r[0].value.elts) if r and isinstance(r[0].value, ast.Tuple) else 1


def translate(src_path=None):
    """-> (lean text, report).  report: {'functions': {name: 'ok' | reason}, 'consts': {...}}"""
    tree = ast.parse(open(src_path or SRC()).read())
    consts = {}
    for st in tree.body:
        if isinstance(st, ast.Assign) and len(st.targets) == 1 and isinstance(st.targets[0], ast.Name) \
                and isinstance(st.value, ast.Constant) and isinstance(st.value.value, (int, float)) and not isinstance(st.value.value, bool):
            consts[st.targets[0].id] = st.value.value
    out = ['import SynapModel.Kernels.NN',
           '/-! GENERATED by harness/formulas.py from synapgrad/cpu_ops.py on every run — do not edit.',
           '    One definition per elementwise kernel: the arithmetic of the source function applied to one element. -/',
           'set_option linter.unusedVariables false',
           'namespace Synap.Gen', 'open Synap.Kernels', '',
           'section', 'variable {α : Type} [Zero α] [One α] [Add α] [Sub α] [Mul α] [Div α] [Neg α] [NatCast α] [OfScientific α]',
           '  [LT α] [DecidableLT α] [LE α] [DecidableLE α] [Transc α]', '']
    for c, v in sorted(consts.items()):
        out.append(f'def {ident(c)}_c : α := {lit(v)}')
    out.append('')
    known, report, emitted = {}, {}, []
    for st in tree.body:
        if isinstance(st, ast.FunctionDef) and st.name in WANTED:
            try:
                fn = Fn(st, consts, known)
                lets, ret = fn.body()
            except Untranslatable as ex:
                report[st.name] = f'untranslatable: {ex}'
                continue
            k = fn.arity_out()
            ty = 'α' if k == 1 else ' × '.join(['α'] * k)
            ps = ' '.join(ident(p) for p in fn.params)
            sig = f'def {st.name} ({ps} : α) : {ty} :=' if fn.params else f'def {st.name} : {ty} :='
            out.append(f'/-- `{st.name}({", ".join(a.arg for a in st.args.args)})`, cpu_ops.py line {st.lineno} -/')
            out.append(sig)
            for l in lets: out.append('  ' + l)
            out.append('  ' + ret)
            out.append('')
            known[st.name] = fn
            report[st.name] = 'ok'
            emitted.append((st.name, fn, k))
    for n in WANTED:
        report.setdefault(n, 'missing: no such top-level function in cpu_ops.py')
    out.append('end')
    out.append('')
    out.append('/-- the translated functions, in source order -/')
    out.append('def names : List String := [' + ', '.join(f'"{n}"' for n, _, _ in emitted) + ']')
    out.append('')
    out.append('/-- the generated definitions at `Float` (used by the driver to validate the translation against the real kernels) -/')
    out.append('def runFloat [Transc Float] [NatCast Float] (name : String) (x : List Float) : Option (List Float) :=')
    out.append('  match name, x with')
    for n, fn, k in emitted:
        vs = [f'x{i}' for i in range(len(fn.params))]
        call = ' '.join([f'({n} (α := Float)'] + vs) + ')' if vs else f'({n} (α := Float))'
        if k == 1:
            res = f'[{call}]'
        else:
            res = f'(let r := {call}; [' + ', '.join(('r' + '.2' * i + ('.1' if i < k - 1 else '')) for i in range(k)) + '])'
        out.append(f'  | "{n}", [{", ".join(vs)}] => some {res}')
    out.append('  | _, _ => none')
    out.append('')
    out.append('end Synap.Gen')
    return '\n'.join(out) + '\n', {'functions': report, 'consts': consts}


def write():
    """regenerate the Lean file; returns notes for the evidence"""
    text, report = translate()
    os.makedirs(os.path.dirname(OUT), exist_ok=True)
    old = open(OUT).read() if os.path.exists(OUT) else None
    if old != text:
        with open(OUT, 'w') as f:
            f.write(text)
    bad = {k: v for k, v in report['functions'].items() if v != 'ok'}
    notes = [f'formula translator: {len(report["functions"]) - len(bad)} of {len(report["functions"])} elementwise kernels of cpu_ops.py translated into Generated/KernelFormulas.lean']
    for k, v in sorted(bad.items()):
        notes.append(f'formula translator: {k}: {v}')
    return notes, report


if __name__ == '__main__':
    t, r = translate()
    print(t)
    import json, sys
    print(json.dumps(r, indent=1), file=sys.stderr)
