"""Call-level translator for the array kernels of `cpu_ops.py` that are a few NumPy calls (C01 / C05): which NumPy functions a
kernel calls, on which arguments, in which order, is re-read from the source with `ast` on every run and re-emitted as Lean
definitions over the names of `lean/SynapModel/NpCalls.lean` (`lean/SynapModel/Generated/KernelCalls.lean`).
`Proofs/KernelCallsTie.lean` proves each generated definition equal to the hand-written model kernel.

What a NumPy function does is the hand-written array model (tied to NumPy by the correspondence runs); this translator ties the
*composition*: argument order (`np.moveaxis(grad, destination, source)`), which operand is swapped in `matmul_backward`, the
shape handed to `reshape`, the literal axes.  A kernel that stops being such a composition (a loop, a fast path, a hand-built
permutation) is untranslatable: it is not emitted and the theorems that name it stop compiling.
"""
import ast, os
import common
from formulas import Untranslatable, ident

SRC = lambda: os.path.join(common.REPO, 'synapgrad', 'cpu_ops.py')
OUT = os.path.join(common.LEAN_DIR, 'SynapModel', 'Generated', 'KernelCalls.lean')

# kernel -> {parameter: Lean type}; a parameter that is absent here is an `NDArray α`
KINDS = {
    'transpose_forward': {'axis0': 'Int', 'axis1': 'Int'}, 'transpose_backward': {'axis0': 'Int', 'axis1': 'Int'},
    'movedim_forward': {'source': 'Int', 'destination': 'Int'}, 'movedim_backward': {'source': 'Int', 'destination': 'Int'},
    'reshape_forward': {'shape': 'List Int'}, 'reshape_backward': {'a_shape': 'Shape'}, 'squeeze_backward': {'a_shape': 'Shape'},
    'unsqueeze_forward': {'axis': 'List Int'}, 'unsqueeze_backward': {'axis': 'List Int'},
    'matmul_forward': {}, 'matmul_backward': {}, 'addmm_forward': {},
    'sum_forward': {'axis': 'Axes', 'keepdims': 'Bool'},
    'concat_forward': {'a': 'List (NDArray α)', 'axis': 'Int'}, 'stack_forward': {'a': 'List (NDArray α)', 'axis': 'Int'},
    'unbind_forward': {'axis': 'Int'}, 'stack_backward': {'axis': 'Int'},
    'slice_forward': {'s': 'List Sel'}, 'slice_backward': {'a_shape': 'Shape', 's': 'List Sel'},
}
RET = {'matmul_backward': 'NDArray α × NDArray α', 'unbind_forward': 'List (NDArray α)', 'stack_backward': 'List (NDArray α)'}
# NumPy function / method -> (NpCall name, partial?)
NPF = {'swapaxes': 'swapaxes', 'moveaxis': 'moveaxis', 'expand_dims': 'expand_dims', 'squeeze': 'squeeze', 'sum': 'sum',
       'concatenate': 'concatenate', 'stack': 'stack', 'rollaxis': 'rollaxis'}
KW = {'sum': ['axis', 'keepdims'], 'concatenate': ['axis'], 'stack': ['axis'], 'rollaxis': ['axis'], 'moveaxis': ['source', 'destination']}


class Fn:
    def __init__(self, node, known):
        self.node, self.known = node, known
        self.kinds = KINDS[node.name]
        self.params = [a.arg for a in node.args.args]
        self.env = {p: self.kinds.get(p, 'NDArray α') for p in self.params}

    def bind(self, s):      # a partial call inside a do block
        return f'(← {s})'

    def ex(self, e):
        if isinstance(e, ast.Name):
            if e.id in self.env: return ident(e.id)
            raise Untranslatable('name ' + e.id)
        if isinstance(e, ast.Constant) and isinstance(e.value, int) and not isinstance(e.value, bool):
            return f'({e.value})'
        if isinstance(e, ast.UnaryOp) and isinstance(e.op, ast.USub) and isinstance(e.operand, ast.Constant) and isinstance(e.operand.value, int):
            return f'(-{e.operand.value})'
        if isinstance(e, ast.Attribute) and e.attr == 'shape' and isinstance(e.value, ast.Name) and self.env.get(e.value.id) == 'NDArray α':
            return f'{ident(e.value.id)}.shape'
        if isinstance(e, ast.BinOp) and isinstance(e.op, ast.MatMult):
            return self.bind(f'NpCall.matmul {self.ex(e.left)} {self.ex(e.right)}')
        if isinstance(e, ast.BinOp) and isinstance(e.op, ast.Add):
            return self.bind(f'NpCall.add {self.ex(e.left)} {self.ex(e.right)}')
        if isinstance(e, ast.Subscript) and isinstance(e.value, ast.Name) and isinstance(e.slice, ast.Name) and self.env.get(e.slice.id) == 'List Sel':
            return self.bind(f'NpCall.index {ident(e.value.id)} {ident(e.slice.id)}')
        if isinstance(e, ast.Call):
            f = e.func
            if isinstance(f, ast.Attribute) and isinstance(f.value, ast.Name) and f.value.id == 'np' and f.attr in NPF:
                args = [self.ex(a) for a in e.args]
                kws = {k.arg: self.ex(k.value) for k in e.keywords}
                order = KW.get(f.attr, [])
                for k in order[max(0, len(args) - 1):]:
                    if k in kws: args.append(kws.pop(k))
                if kws: raise Untranslatable('keyword ' + ast.unparse(e))
                return self.bind(f'NpCall.{NPF[f.attr]} ' + ' '.join(args))
            if isinstance(f, ast.Attribute) and f.attr == 'reshape' and len(e.args) == 1 and isinstance(e.args[0], ast.Name):
                kind = self.env.get(e.args[0].id)
                w = {'Shape': 'reshape_to', 'List Int': 'reshape'}.get(kind)
                if w is None: raise Untranslatable('reshape argument ' + ast.unparse(e))
                return self.bind(f'NpCall.{w} {self.ex(f.value)} {ident(e.args[0].id)}')
            if isinstance(f, ast.Name) and f.id == 'unbroadcast' and len(e.args) == 2:
                return f'(NpCall.unbroadcast {self.ex(e.args[0])} {self.ex(e.args[1])})'
            if isinstance(f, ast.Name) and f.id in self.known and not e.keywords:
                return self.bind(' '.join([f.id] + [self.ex(a) for a in e.args]))
        if isinstance(e, ast.Tuple):
            return '(' + ', '.join(self.ex(x) for x in e.elts) + ')'
        raise Untranslatable(ast.unparse(e))

    def body(self):
        lines, ret = [], None
        stmts = [s for s in self.node.body if not (isinstance(s, ast.Expr) and isinstance(s.value, ast.Constant))]
        k = 0
        while k < len(stmts):
            st = stmts[k]
            if ret is not None: raise Untranslatable('statement after return')
            # `if isinstance(x, list): x = tuple(x)` : a spelling of the same argument
            if isinstance(st, ast.If) and not st.orelse and len(st.body) == 1 and ast.unparse(st.test).startswith('isinstance(') \
                    and isinstance(st.body[0], ast.Assign) and ast.unparse(st.body[0].value) == f'tuple({ast.unparse(st.body[0].targets[0])})':
                k += 1; continue
            # `z = np.zeros(shape, …); np.add.at(z, s, g)` : scatter-add into zeros
            if isinstance(st, ast.Assign) and isinstance(st.value, ast.Call) and ast.unparse(st.value.func) == 'np.zeros' and k + 1 < len(stmts) \
                    and isinstance(stmts[k + 1], ast.Expr) and isinstance(stmts[k + 1].value, ast.Call) and ast.unparse(stmts[k + 1].value.func) == 'np.add.at':
                z = st.targets[0].id; c = stmts[k + 1].value
                if len(c.args) != 3 or ast.unparse(c.args[0]) != z: raise Untranslatable(ast.unparse(stmts[k + 1]))
                self.env[z] = 'NDArray α'
                lines.append(f'let {ident(z)} ← NpCall.add_at_zeros {self.ex(st.value.args[0])} {self.ex(c.args[1])} {self.ex(c.args[2])}')
                k += 2; continue
            if isinstance(st, ast.Assign) and len(st.targets) == 1 and isinstance(st.targets[0], ast.Name):
                v = self.ex(st.value)
                self.env[st.targets[0].id] = 'NDArray α'
                lines.append(f'let {ident(st.targets[0].id)} := {v}')
            elif isinstance(st, ast.Return) and st.value is not None:
                ret = self.ex(st.value)
            else:
                raise Untranslatable('statement ' + ast.unparse(st).split('\n')[0])
            k += 1
        if ret is None: raise Untranslatable('no return')
        return lines, ret


def translate(src_path=None):
    tree = ast.parse(open(src_path or SRC()).read())
    out = ['import SynapModel.NpCalls',
           '/-! GENERATED by harness/array_formulas.py from synapgrad/cpu_ops.py on every run — do not edit.',
           '    The array kernels that are a composition of NumPy calls, over the names of `SynapModel/NpCalls.lean`. -/',
           'set_option linter.unusedVariables false',
           'namespace Synap.Gen.Calls', 'open Synap Synap.NDArray Synap.Np', '',
           'variable {α : Type} [Zero α] [One α] [Add α] [Mul α] [Neg α]', '']
    known, report = {}, {}
    fns = [st for st in tree.body if isinstance(st, ast.FunctionDef) and st.name in KINDS]
    names = {f.name for f in fns}
    calls = lambda f: {n.func.id for n in ast.walk(f) if isinstance(n, ast.Call) and isinstance(n.func, ast.Name) and n.func.id in names}
    done, order = set(), []
    while len(order) < len(fns):                 # callees first (a kernel may call one that is defined further down)
        ready = [f for f in fns if f.name not in done and calls(f) - {f.name} <= done]
        if not ready: ready = [f for f in fns if f.name not in done]
        for f in ready[:1]: order.append(f); done.add(f.name)
    for st in order:
        if True:
            try:
                fn = Fn(st, names)
                lines, ret = fn.body()
            except Untranslatable as ex:
                report[st.name] = f'untranslatable: {ex}'
                continue
            ps = ' '.join(f'({ident(p)} : {fn.kinds.get(p, "NDArray α")})' for p in fn.params)
            out.append(f'/-- `{st.name}({", ".join(fn.params)})`, cpu_ops.py line {st.lineno}: `{ast.unparse(st.body[-1])[:110]}` -/')
            out.append(f'def {st.name} {ps} : Option ({RET.get(st.name, "NDArray α")}) := do')
            for l in lines: out.append('  ' + l)
            # a returned partial call is the do block's value itself
            out.append('  pure ' + ret if not (ret.startswith('(← ') and ret.endswith(')') and ret.count('←') == 1) else '  ' + ret[3:-1].strip())
            out.append('')
            known[st.name] = fn
            report[st.name] = 'ok'
    for n in KINDS:
        report.setdefault(n, 'missing: no such top-level function in cpu_ops.py')
    out.append('end Synap.Gen.Calls')
    return '\n'.join(out) + '\n', report


def write():
    text, report = translate()
    old = open(OUT).read() if os.path.exists(OUT) else None
    if old != text:
        with open(OUT, 'w') as f: f.write(text)
    bad = {k: v for k, v in report.items() if v != 'ok'}
    notes = [f'call-level translator: {len(report) - len(bad)} of {len(report)} array kernels of cpu_ops.py translated into Generated/KernelCalls.lean']
    notes += [f'call-level translator: {k}: {v}' for k, v in sorted(bad.items())]
    return notes, report


if __name__ == '__main__':
    t, r = translate()
    print(t)
    print({k: v for k, v in r.items() if v != 'ok'})
