"""Extractor: regenerates Lean tables of source facts from /repo's working tree on every run.

* OpTable  — one record per op wrapper of functional.py / nn/functional.py: tensor operands, how
  `children=` / `requires_grad=` are formed, whether `grad_fn` is attached under the result's flag,
  and every statement of the `backward` closure that writes a gradient buffer (target operand,
  `+=` or `=`, guards).
* RandomSites — every call site that can draw randomness or read process-dependent state.

The tables are data; the judgements about them are Lean theorems (`decide`) in Props/."""
import ast, os, re, sys
import common

GEN_DIR = os.path.join(common.LEAN_DIR, 'SynapModel', 'Generated')


def _write_if_changed(path, text):
    os.makedirs(os.path.dirname(path), exist_ok=True)
    if os.path.exists(path) and open(path).read() == text:
        return False
    with open(path, 'w') as f:
        f.write(text)
    return True


def lean_str(s):
    return '"' + s.replace('\\', '\\\\').replace('"', '\\"') + '"'


def lean_list(xs):
    return '[' + ', '.join(xs) + ']'


# ------------------------------------------------------------------------------------- op table
def _names_in_tuple(node):
    if isinstance(node, ast.Tuple):
        return [e.id for e in node.elts if isinstance(e, ast.Name)]
    return None


def _terms(test):
    if isinstance(test, ast.BoolOp) and isinstance(test.op, ast.And):
        out = []
        for v in test.values:
            out += _terms(v)
        return out
    return [test]


def _is_req(term, name):
    return isinstance(term, ast.Attribute) and term.attr == 'requires_grad' and isinstance(term.value, ast.Name) and term.value.id == name


class _BwVisitor(ast.NodeVisitor):
    """collect gradient-buffer writes of a `backward` closure together with their guards"""
    def __init__(self):
        self.stmts = []
        self.guards = []
        self.loopvars = {}

    def visit_If(self, node):
        self.guards.append(_terms(node.test))
        for s in node.body:
            self.visit(s)
        self.guards.pop()
        for s in node.orelse:
            self.visit(s)
        # an early exit (`if cond: return` / raise / continue / break) puts every LATER statement under `not cond`
        if any(isinstance(x, (ast.Return, ast.Raise, ast.Continue, ast.Break)) for x in node.body):
            self.guards.append([ast.parse('not (' + ast.unparse(node.test) + ')', mode='eval').body])

    def visit_Return(self, node):
        # an unconditional `return` before the accumulation statements: what follows is never executed
        self.guards.append([ast.parse('False', mode='eval').body])

    def visit_For(self, node):
        # `for inp, grad in zip(inputs, grads)` : inp ranges over the list operand
        if isinstance(node.target, ast.Tuple) and node.target.elts and isinstance(node.target.elts[0], ast.Name):
            self.loopvars[node.target.elts[0].id] = '*'
        for s in node.body:
            self.visit(s)

    def _record(self, target, op):
        if isinstance(target, ast.Attribute) and target.attr in ('_grad', 'grad') and isinstance(target.value, ast.Name):
            name = target.value.id
            terms = [t for g in self.guards for t in g]
            req = any(_is_req(t, name) for t in terms)
            other = [ast.unparse(t) for t in terms if not _is_req(t, name)]
            # guards that only test the presence of the same operand are "presence" guards
            presence = all(re.fullmatch(rf'{name}( is not None)?', o) for o in other)
            self.stmts.append({'target': self.loopvars.get(name, name), 'op': op, 'req': req,
                               'presence': bool(other) and presence, 'foreign_guard': bool(other) and not presence})

    def visit_AugAssign(self, node):
        self._record(node.target, 'iadd' if isinstance(node.op, ast.Add) else 'other')

    def visit_Assign(self, node):
        for t in node.targets:
            self._record(t, 'assign')


def extract_ops(path):
    src = open(path).read()
    tree = ast.parse(src)
    recs = []
    for fn in tree.body:
        if not isinstance(fn, ast.FunctionDef):
            continue
        tcalls = [n for n in ast.walk(fn) if isinstance(n, ast.Call) and isinstance(n.func, ast.Name) and n.func.id == 'Tensor'
                  and any(k.arg == 'children' for k in n.keywords)]
        if not tcalls:
            continue
        call = tcalls[0]
        kw = {k.arg: k.value for k in call.keywords}
        # operands: from `inputs = (...)` assignments (conditional ones are optional) or the children tuple
        operands, optional, list_operand = [], [], False
        inputs_assigns = [n for n in ast.walk(fn) if isinstance(n, (ast.Assign, ast.AugAssign))
                          and (isinstance(getattr(n, 'targets', [None])[0], ast.Name) and n.targets[0].id == 'inputs' if isinstance(n, ast.Assign)
                               else isinstance(n.target, ast.Name) and n.target.id == 'inputs')]
        children = kw['children']
        if isinstance(children, ast.Name) and children.id == 'inputs':
            all_sets = []
            for a in inputs_assigns:
                names = _names_in_tuple(a.value)
                if names is None and isinstance(a.value, ast.Call) and getattr(a.value.func, 'id', '') == 'tuple':
                    list_operand = True
                    names = ['*']
                if names is None:
                    names = []
                all_sets.append((names, isinstance(a, ast.AugAssign)))
            for names, aug in all_sets:
                for n in names:
                    if n not in operands:
                        operands.append(n)
            plain = [set(n) for n, aug in all_sets if not aug]
            for n in operands:
                if any(aug and n in names for names, aug in all_sets) or (plain and not all(n in s for s in plain)):
                    optional.append(n)
            children_ok = True
        else:
            names = _names_in_tuple(children)
            children_ok = names is not None
            operands = names or []
        # requires_grad expression
        rg = kw.get('requires_grad')
        if isinstance(rg, ast.Name):
            defs = [n.value for n in ast.walk(fn) if isinstance(n, ast.Assign) and isinstance(n.targets[0], ast.Name) and n.targets[0].id == rg.id]
            rg = defs[0] if defs else rg
        rg_src = ast.unparse(rg) if rg is not None else ''
        if re.fullmatch(r'any\(\[?\(?\w+\.requires_grad for \w+ in (inputs|x)\)?\]?\)', rg_src):
            rg_any = True
        elif len(operands) == 1 and rg_src == f'{operands[0]}.requires_grad':
            rg_any = True
        else:
            rg_any = False
        # grad_fn attachment guarded by the result's own flag
        guarded, unguarded = False, False
        for n in ast.walk(fn):
            if isinstance(n, ast.Assign) and isinstance(n.targets[0], ast.Attribute) and n.targets[0].attr == 'grad_fn':
                owner = ast.unparse(n.targets[0].value)
                ok = False
                for i in ast.walk(fn):
                    if isinstance(i, ast.If) and n in list(ast.walk(i)) and ast.unparse(i.test) == f'{owner}.requires_grad':
                        ok = True
                if ok: guarded = True
                else: unguarded = True
        bw = [n for n in fn.body if isinstance(n, ast.FunctionDef) and n.name == 'backward']
        v = _BwVisitor()
        if bw:
            v.visit(bw[0])
        recs.append({'name': fn.name, 'operands': operands, 'optional': optional, 'children_ok': children_ok,
                     'rg_any': rg_any, 'grad_fn_guarded': guarded and not unguarded, 'has_backward': bool(bw), 'stmts': v.stmts})
    return recs


def write_optable():
    recs = []
    for rel in ('synapgrad/functional.py', 'synapgrad/nn/functional.py'):
        for r in extract_ops(os.path.join(common.REPO, rel)):
            r['file'] = rel
            recs.append(r)
    rows = []
    for r in recs:
        stmts = lean_list([f"⟨{lean_str(s['target'])}, .{s['op']}, {str(s['req']).lower()}, {str(s['presence']).lower()}, {str(s['foreign_guard']).lower()}⟩" for s in r['stmts']])
        rows.append(f"  ⟨{lean_str(r['name'])}, {lean_list(map(lean_str, r['operands']))}, {lean_list(map(lean_str, r['optional']))}, "
                    f"{str(r['children_ok']).lower()}, {str(r['rg_any']).lower()}, {str(r['grad_fn_guarded']).lower()}, {str(r['has_backward']).lower()},\n    {stmts}⟩")
    text = ('import SynapModel.OpTableDefs\n'
            '/-! GENERATED by harness/extract.py from /repo/synapgrad/functional.py and nn/functional.py — do not edit.\n'
            '    One record per op wrapper; see SynapModel/OpTableDefs.lean for the record type. -/\n'
            'namespace Synap.Generated\nopen Synap.OpTable\n\n'
            'def opTable : List OpRec := [\n' + ',\n'.join(rows) + '\n]\n\nend Synap.Generated\n')
    changed = _write_if_changed(os.path.join(GEN_DIR, 'OpTable.lean'), text)
    return [f'op table: {len(recs)} wrappers extracted' + (' (changed)' if changed else '')]


# ------------------------------------------------------------------------------------- random sites
RANDOM_ROOTS = ('np.random.', 'numpy.random.', 'random.', 'os.urandom', 'time.', 'uuid.', 'secrets.')
SEEDED = {'np.random.rand', 'np.random.randn', 'np.random.normal', 'np.random.randint', 'np.random.uniform',
          'np.random.shuffle', 'np.random.seed', 'random.seed'}


def extract_random_sites():
    """(file, line, callee, membership_only) — `membership_only`: the value is used only to test or
    record membership in a set (`id(p) in seen`, `seen.add(id(p))`), so it cannot reach any result"""
    sites = []
    root = os.path.join(common.REPO, 'synapgrad')
    for dp, _, fs in os.walk(root):
        if os.path.relpath(dp, root).startswith('visual'):
            continue                     # the graphviz drawer is not part of any computation
        for f in sorted(fs):
            if not f.endswith('.py'):
                continue
            path = os.path.join(dp, f)
            rel = os.path.relpath(path, common.REPO)
            try:
                tree = ast.parse(open(path).read())
            except SyntaxError:
                continue
            parents = {}
            for n in ast.walk(tree):
                for ch in ast.iter_child_nodes(n):
                    parents[ch] = n
            for n in ast.walk(tree):
                if isinstance(n, ast.Call):
                    callee = ast.unparse(n.func)
                    if not re.fullmatch(r'[\w.]+', callee):
                        continue
                    if callee.startswith(RANDOM_ROOTS) or callee in ('id', 'hash') or 'default_rng' in callee or 'RandomState' in callee or 'Generator' in callee:
                        par = parents.get(n)
                        member = (isinstance(par, ast.Compare) and all(isinstance(o, (ast.In, ast.NotIn)) for o in par.ops)) or \
                                 (isinstance(par, ast.Call) and isinstance(par.func, ast.Attribute) and par.func.attr == 'add')
                        sites.append((rel, n.lineno, callee, bool(member)))
                # iteration over a set of tensors (hash-order dependence)
                if isinstance(n, (ast.For, ast.comprehension)):
                    it = n.iter
                    if isinstance(it, ast.Call) and getattr(it.func, 'id', '') in ('set', 'frozenset'):
                        sites.append((rel, getattr(n, 'lineno', getattr(it, 'lineno', 0)), 'iter(set)', False))
                    if isinstance(it, ast.Name) and re.search(r'visited|_set$|^seen$', it.id):
                        sites.append((rel, getattr(n, 'lineno', getattr(it, 'lineno', 0)), f'iter({it.id})', False))
    return sorted(set(sites))


def write_random_sites():
    sites = extract_random_sites()
    rows = [f"  ⟨{lean_str(rel)}, {ln}, {lean_str(callee)}, {str(callee in SEEDED).lower()}, {str(mem).lower()}⟩" for rel, ln, callee, mem in sites]
    text = ('import SynapModel.OpTableDefs\n'
            '/-! GENERATED by harness/extract.py from /repo/synapgrad/**/*.py — do not edit.\n'
            '    Every call site that can draw randomness or read process-dependent state; `seeded` says whether\n'
            '    the callee is one of the global NumPy/Python generators that `manual_seed` seeds. -/\n'
            'namespace Synap.Generated\nopen Synap.OpTable\n\n'
            'def randomSites : List RandomSite := [\n' + ',\n'.join(rows) + '\n]\n\nend Synap.Generated\n')
    changed = _write_if_changed(os.path.join(GEN_DIR, 'RandomSites.lean'), text)
    return [f'random sites: {len(sites)} call sites extracted' + (' (changed)' if changed else '')]


# ------------------------------------------------------------------------- persistent-state sites
def _mutable_expr(v):
    """can evaluating this expression once (at import / class creation / def time) produce an object that later calls can change?"""
    if v is None or isinstance(v, (ast.Constant, ast.Name, ast.Attribute, ast.Lambda)): return False
    if isinstance(v, ast.Tuple): return any(_mutable_expr(e) for e in v.elts)
    if isinstance(v, ast.UnaryOp): return _mutable_expr(v.operand)
    if isinstance(v, ast.BinOp): return _mutable_expr(v.left) or _mutable_expr(v.right)
    if isinstance(v, ast.IfExp): return _mutable_expr(v.body) or _mutable_expr(v.orelse)
    return True        # displays, comprehensions, calls (dict(), np.zeros(...), OrderedDict() ...), subscripts, ...


def _package_class_names(root):
    names = set()
    for dp, _, fs in os.walk(root):
        for f in fs:
            if f.endswith('.py'):
                try: tree = ast.parse(open(os.path.join(dp, f)).read())
                except SyntaxError: continue
                names |= {n.name for n in ast.walk(tree) if isinstance(n, ast.ClassDef)}
    return names


def _shared_object_stores(tree, class_names):
    """(line, text) of every statement that STORES into an object shared by all calls: an attribute of a class (`Cls.n += 1`,
    `cls.n = ...`, `type(self).n = ...`, `self.__class__.n = ...`) or of an imported module (`tensor_module.flag = ...`), through
    assignment, augmented assignment, `setattr`, or a subscript of `globals()` / `vars(X)` / `X.__dict__` — the ways a counter or
    a flag survives a call without a `global` statement and without a mutable literal"""
    imported = set()
    for n in ast.walk(tree):
        if isinstance(n, ast.Import): imported |= {(a.asname or a.name).split('.')[0] for a in n.names}
        if isinstance(n, ast.ImportFrom): imported |= {a.asname or a.name for a in n.names}
    shared_names = class_names | imported | {'cls', '__class__'}
    def shared(e):
        """is `e` an expression for a class / module object?"""
        if isinstance(e, ast.Name): return e.id in shared_names
        if isinstance(e, ast.Attribute): return e.attr == '__class__' or (shared(e.value) and (e.attr in class_names or e.attr[:1].isupper()))
        if isinstance(e, ast.Call): return isinstance(e.func, ast.Name) and e.func.id == 'type' and len(e.args) == 1
        return False
    def shared_dict(e):
        if isinstance(e, ast.Call) and isinstance(e.func, ast.Name) and e.func.id in ('globals', 'vars'): return e.func.id == 'globals' or (len(e.args) == 1 and shared(e.args[0]))
        return isinstance(e, ast.Attribute) and e.attr == '__dict__' and shared(e.value)
    out = []
    def target(t, ln):
        if isinstance(t, (ast.Tuple, ast.List)):
            for e in t.elts: target(e, ln)
        elif isinstance(t, ast.Starred): target(t.value, ln)
        elif isinstance(t, ast.Attribute) and shared(t.value): out.append((ln, ast.unparse(t)))
        elif isinstance(t, ast.Subscript) and shared_dict(t.value): out.append((ln, ast.unparse(t)))
    for n in ast.walk(tree):
        if isinstance(n, ast.Assign):
            for t in n.targets: target(t, n.lineno)
        elif isinstance(n, (ast.AugAssign, ast.AnnAssign)) and (not isinstance(n, ast.AnnAssign) or n.value is not None): target(n.target, n.lineno)
        elif isinstance(n, (ast.For, ast.AsyncFor)): target(n.target, n.lineno)
        elif isinstance(n, ast.NamedExpr): target(n.target, n.lineno)
        elif isinstance(n, ast.Delete):
            for t in n.targets: target(t, n.lineno)
        elif isinstance(n, ast.Call) and isinstance(n.func, ast.Name) and n.func.id in ('setattr', 'delattr') and n.args and shared(n.args[0]):
            out.append((n.lineno, ast.unparse(n)[:60]))
        elif isinstance(n, ast.Call) and isinstance(n.func, ast.Attribute) and n.func.attr in ('update', 'setdefault', 'pop', 'clear') and shared_dict(n.func.value):
            out.append((n.lineno, ast.unparse(n)[:60]))
    return out


def extract_persistent_sites():
    """(file, line, kind, name): every place where state can outlive a call — module-level and class-level assignments of
    mutable objects, mutable default arguments, memoising decorators, `global` statements, stores into attributes of class /
    module objects (a class-level counter bumped through `Cls.n += 1` needs neither a mutable literal nor `global`)"""
    sites = []
    root = os.path.join(common.REPO, 'synapgrad')
    class_names = _package_class_names(root)
    for dp, _, fs in os.walk(root):
        for f in sorted(fs):
            if not f.endswith('.py'): continue
            path = os.path.join(dp, f); rel = os.path.relpath(path, common.REPO)
            try:
                tree = ast.parse(open(path).read())
            except SyntaxError:
                sites.append((rel, 0, 'unparsable', f)); continue
            def targets(n):
                ts = n.targets if isinstance(n, ast.Assign) else [n.target]
                return ','.join(ast.unparse(t) for t in ts)
            for ln, text in _shared_object_stores(tree, class_names):
                sites.append((rel, ln, 'shared-attr-store', text))
            for n in tree.body:
                if isinstance(n, (ast.Assign, ast.AnnAssign, ast.AugAssign)) and _mutable_expr(n.value):
                    sites.append((rel, n.lineno, 'module', targets(n) if not isinstance(n, ast.AugAssign) else ast.unparse(n.target)))
            for n in ast.walk(tree):
                if isinstance(n, ast.ClassDef):
                    for m in n.body:
                        if isinstance(m, (ast.Assign, ast.AnnAssign)) and _mutable_expr(m.value):
                            sites.append((rel, m.lineno, 'class', f'{n.name}.{targets(m)}'))
                if isinstance(n, (ast.FunctionDef, ast.AsyncFunctionDef, ast.Lambda)):
                    nm = getattr(n, 'name', '<lambda>')
                    for d in list(n.args.defaults) + [d for d in n.args.kw_defaults if d is not None]:
                        if _mutable_expr(d): sites.append((rel, getattr(n, 'lineno', 0), 'default', f'{nm}({ast.unparse(d)})'))
                    for d in getattr(n, 'decorator_list', []):
                        if re.search(r'cache|memo', ast.unparse(d)): sites.append((rel, n.lineno, 'cache', nm))
                if isinstance(n, ast.Global):
                    for g in n.names: sites.append((rel, n.lineno, 'global', g))
                if isinstance(n, ast.Call) and re.search(r'(^|\.)(setdefault|__dict__)$', ast.unparse(n.func)) and False:
                    pass
    return sorted(set(sites))


def write_persistent_sites():
    sites = extract_persistent_sites()
    rows = [f"  ⟨{lean_str(rel)}, {ln}, {lean_str(kind)}, {lean_str(name)}⟩" for rel, ln, kind, name in sites]
    text = ('import SynapModel.OpTableDefs\n'
            '/-! GENERATED by harness/extract.py from /repo/synapgrad/**/*.py — do not edit.\n'
            '    Every place where state can outlive a call: module- and class-level mutable objects, mutable default\n'
            '    arguments, memoising decorators, `global` statements. -/\n'
            'namespace Synap.Generated\nopen Synap.OpTable\n\n'
            'def persistentSites : List PersistentSite := [\n' + ',\n'.join(rows) + '\n]\n\nend Synap.Generated\n')
    changed = _write_if_changed(os.path.join(GEN_DIR, 'PersistentSites.lean'), text)
    return [f'persistent-state sites: {len(sites)} extracted' + (' (changed)' if changed else '')]


if __name__ == '__main__':
    print(write_optable(), write_random_sites(), write_persistent_sites())
