"""Translator of the optimizer steps (C08): the body of the per-parameter loop of `SGD.step`, `Adam.step` and `AdamW.step` in
`synapgrad/optim/optimizers.py` is read with `ast` on every run and re-emitted as a pure Lean function
(`lean/SynapModel/Generated/OptimSteps.lean`): imperative statements become `let`s over SSA names, `if` statements become
`if … then … else …` over the tuple of variables either branch assigns, a test `self.X[i] is not None` becomes a `match` on the
optional state slot.  `Proofs/OptimStepTie.lean` proves the generated functions equal to `sgdUpdate` / `adamUpdate` of the
hand-written model (which the C08 trajectory theorems are about).

Reading of the source (the trusted part; validated on every run by executing the generated functions at Float in the driver
against the real optimizer objects on one-element parameters — `gs` command family):

  * the loop must have the shape `for i, p in enumerate(self.parameters):` inside `with synapgrad.no_grad():` after
    `super().step()`, and start with the guard `if not p.requires_grad or p._grad is None: continue` (the model's `sgdStepP` /
    `adamStepP`); everything after the guard is the translated body;
  * `p.data` is the parameter value θ (one element), `p._grad` the gradient; `self.X[i]` is a per-parameter state slot — optional
    when `__init__` fills the list with `None`, a natural number when it is only ever incremented by an integer literal, a
    scalar otherwise (initial values are read from `__init__`); `self.X` is a hyper-parameter; a hyper-parameter used as a
    condition is a Boolean flag, a comparison of a hyper-parameter with a literal is a Boolean flag named after it
    (`weight_decay != 0` -> `weight_decay_ne_0`);
  * arithmetic as in `formulas.py`; `x ** self.steps[i]` is a natural-number power; `np.sqrt` is `HasSqrt.sqrt`; `np.array(x)` is x.
"""
import ast, os, re
import common
from formulas import Untranslatable, lit, ident

SRC = lambda: os.path.join(common.REPO, 'synapgrad', 'optim', 'optimizers.py')
OUT = os.path.join(common.LEAN_DIR, 'SynapModel', 'Generated', 'OptimSteps.lean')
CLASSES = ['SGD', 'Adam', 'AdamW']
GUARD = 'not p.requires_grad or p._grad is None'
CMP = {ast.NotEq: 'ne', ast.Eq: 'eq', ast.Gt: 'gt', ast.Lt: 'lt', ast.GtE: 'ge', ast.LtE: 'le'}


def _self_attr(e):
    return e.attr if isinstance(e, ast.Attribute) and isinstance(e.value, ast.Name) and e.value.id == 'self' else None


def _slot(e):
    """`self.X[i]` -> X"""
    if isinstance(e, ast.Subscript) and _self_attr(e.value) and isinstance(e.slice, ast.Name) and e.slice.id == 'i':
        return _self_attr(e.value)
    return None


class Step:
    def __init__(self, cls):
        self.cls = cls
        self.name = cls.name.lower() + '_step'
        self.hyp, self.flags = [], []
        self.slots = {}            # name -> 'opt' | 'nat' | 'val'
        self.init = {}             # slot -> initial literal (None for an optional slot)
        self.n = 0
        init = [f for f in cls.body if isinstance(f, ast.FunctionDef) and f.name == '__init__']
        step = [f for f in cls.body if isinstance(f, ast.FunctionDef) and f.name == 'step']
        if not init or not step:
            raise Untranslatable('no __init__ / step')
        for st in ast.walk(init[0]):
            if isinstance(st, ast.Assign) and len(st.targets) == 1 and _self_attr(st.targets[0]) and isinstance(st.value, ast.ListComp) \
                    and isinstance(st.value.elt, ast.Constant):
                v = st.value.elt.value
                self.slots[_self_attr(st.targets[0])] = 'opt' if v is None else 'val'
                self.init[_self_attr(st.targets[0])] = v
        self.loop = self._find_loop(step[0])
        for st in ast.walk(self.loop):
            if isinstance(st, ast.AugAssign) and _slot(st.target) and isinstance(st.value, ast.Constant) and isinstance(st.value.value, int):
                others = [a for a in ast.walk(self.loop) if isinstance(a, (ast.Assign, ast.AugAssign)) and a is not st and
                          any(_slot(t) == _slot(st.target) for t in (a.targets if isinstance(a, ast.Assign) else [a.target]))]
                if not others:
                    self.slots[_slot(st.target)] = 'nat'

    def _find_loop(self, fn):
        body = [s for s in fn.body if not (isinstance(s, ast.Expr) and isinstance(s.value, ast.Constant))]
        if len(body) != 2 or ast.unparse(body[0]) != 'super().step()' or not isinstance(body[1], ast.With):
            raise Untranslatable('step is not `super().step(); with synapgrad.no_grad(): for …`')
        w = body[1]
        if len(w.items) != 1 or ast.unparse(w.items[0].context_expr) != 'synapgrad.no_grad()' or len(w.body) != 1 \
                or not isinstance(w.body[0], ast.For):
            raise Untranslatable('with-block is not a single loop under synapgrad.no_grad()')
        loop = w.body[0]
        if ast.unparse(loop.target) != '(i, p)' or ast.unparse(loop.iter) != 'enumerate(self.parameters)' or loop.orelse:
            raise Untranslatable('loop header ' + ast.unparse(loop.target) + ' in ' + ast.unparse(loop.iter))
        g = loop.body[0]
        if not (isinstance(g, ast.If) and ast.unparse(g.test) == GUARD and len(g.body) == 1 and isinstance(g.body[0], ast.Continue)
                and not g.orelse):
            raise Untranslatable('first statement of the loop is not the guard `if ' + GUARD + ': continue`')
        return loop

    # ------------------------------------------------------------------------------------------------------------
    def fresh(self, base):
        self.n += 1
        return f'{ident(base)}_{self.n}'

    def hyper(self, name):
        if name not in self.hyp: self.hyp.append(name)
        return ident(name)

    def flag(self, name):
        if name not in self.flags: self.flags.append(name)
        return ident(name)

    def cond(self, e, env):
        """-> ('bool', lean) | ('some', slot) | ('none', slot)"""
        if isinstance(e, ast.UnaryOp) and isinstance(e.op, ast.Not):
            k = self.cond(e.operand, env)
            if k[0] == 'bool': return ('bool', f'(!{k[1]})')
            return ('none' if k[0] == 'some' else 'some', k[1])
        if isinstance(e, ast.Compare) and len(e.ops) == 1:
            l, r, op = e.left, e.comparators[0], e.ops[0]
            if _slot(l) and isinstance(r, ast.Constant) and r.value is None and isinstance(op, (ast.Is, ast.IsNot)):
                return ('none' if isinstance(op, ast.Is) else 'some', _slot(l))
            if _self_attr(l) and isinstance(r, ast.Constant) and isinstance(r.value, (int, float)) and not isinstance(r.value, bool) \
                    and type(op) in CMP:
                v = r.value
                vs = str(int(v)) if v == int(v) else re.sub(r'[^0-9]', '_', repr(v))
                return ('bool', self.flag(f'{_self_attr(l)}_{CMP[type(op)]}_{vs}'.replace('-', 'm')))
        if _self_attr(e):
            return ('bool', self.flag(_self_attr(e)))
        if isinstance(e, ast.BoolOp):
            ks = [self.cond(v, env) for v in e.values]
            if all(k[0] == 'bool' for k in ks):
                return ('bool', '(' + (' && ' if isinstance(e.op, ast.And) else ' || ').join(k[1] for k in ks) + ')')
        raise Untranslatable('condition ' + ast.unparse(e))

    def num(self, e, env):
        if isinstance(e, ast.Constant):
            return lit(e.value)
        if isinstance(e, ast.Name):
            if e.id in env and env[e.id][0] == 'val': return env[e.id][1]
            raise Untranslatable('name ' + e.id)
        if _self_attr(e):
            return self.hyper(_self_attr(e))
        if _slot(e):
            s = env.get('slot:' + _slot(e))
            if s is None: raise Untranslatable('state ' + ast.unparse(e) + ' is not initialised in __init__')
            if s[0] in ('val', 'nat'): return s[1]
            raise Untranslatable(f'{ast.unparse(e)} read where it may be None')
        if isinstance(e, ast.Attribute) and isinstance(e.value, ast.Name) and e.value.id == 'p':
            if e.attr == 'data': return env['theta'][1]
            if e.attr in ('_grad', 'grad'): return 'g0'
        if isinstance(e, ast.UnaryOp) and isinstance(e.op, ast.USub):
            return f'(-{self.num(e.operand, env)})'
        if isinstance(e, ast.IfExp):
            k = self.cond(e.test, env)
            if k[0] != 'bool': raise Untranslatable('conditional expression on a state slot')
            return f'(if {k[1]} then {self.num(e.body, env)} else {self.num(e.orelse, env)})'
        if isinstance(e, ast.BinOp):
            if isinstance(e.op, ast.Pow):
                r = e.right
                if _slot(r) and self.slots.get(_slot(r)) == 'nat':
                    return f'({self.num(e.left, env)} ^ {env["slot:" + _slot(r)][1]})'
                if isinstance(r, ast.Constant) and isinstance(r.value, (int, float)) and not isinstance(r.value, bool) \
                        and r.value == int(r.value) and 1 <= int(r.value) <= 4:
                    b = self.num(e.left, env)
                    return '(' + ' * '.join([b] * int(r.value)) + ')'
                raise Untranslatable('power ' + ast.unparse(e))
            op = {ast.Add: '+', ast.Sub: '-', ast.Mult: '*', ast.Div: '/'}.get(type(e.op))
            if op is None: raise Untranslatable(ast.unparse(e))
            return f'({self.num(e.left, env)} {op} {self.num(e.right, env)})'
        if isinstance(e, ast.Call) and isinstance(e.func, ast.Attribute) and isinstance(e.func.value, ast.Name) and e.func.value.id == 'np':
            if e.func.attr == 'sqrt' and len(e.args) == 1: return f'(HasSqrt.sqrt {self.num(e.args[0], env)})'
            if e.func.attr in ('array', 'copy', 'asarray') and len(e.args) == 1: return self.num(e.args[0], env)
        raise Untranslatable(ast.unparse(e))

    # ---- statements: returns (list of `let` strings, new env) -------------------------------------------------
    def assign(self, key, base, value, env, kind='val'):
        v = self.fresh(base)
        env = dict(env); env[key] = (kind, v)
        return [f'let {v} := {value}'], env

    def stmt(self, st, env):
        if isinstance(st, ast.Expr) and isinstance(st.value, ast.Constant):
            return [], env
        if isinstance(st, ast.Assign) and len(st.targets) == 1:
            t = st.targets[0]
            if isinstance(t, ast.Name):
                return self.assign(t.id, t.id, self.num(st.value, env), env)
            if _slot(t):
                kind = self.slots.get(_slot(t))
                if kind is None: raise Untranslatable('state ' + ast.unparse(t) + ' is not initialised in __init__')
                return self.assign('slot:' + _slot(t), _slot(t), self.num(st.value, env), env, 'nat' if kind == 'nat' else 'val')
            if ast.unparse(t) == 'p.data':
                return self.assign('theta', 'theta', self.num(st.value, env), env)
        if isinstance(st, ast.AugAssign) and isinstance(st.op, (ast.Add, ast.Sub)):
            op = '+' if isinstance(st.op, ast.Add) else '-'
            t = st.target
            if _slot(t) and self.slots.get(_slot(t)) == 'nat':
                if not (isinstance(st.op, ast.Add) and isinstance(st.value, ast.Constant) and isinstance(st.value.value, int) and st.value.value >= 0):
                    raise Untranslatable(ast.unparse(st))
                return self.assign('slot:' + _slot(t), _slot(t), f'({env["slot:" + _slot(t)][1]} + {st.value.value})', env, 'nat')
            if _slot(t):
                return self.assign('slot:' + _slot(t), _slot(t), f'({self.num(t, env)} {op} {self.num(st.value, env)})', env)
            if ast.unparse(t) == 'p.data':
                return self.assign('theta', 'theta', f'({env["theta"][1]} {op} {self.num(st.value, env)})', env)
            if isinstance(t, ast.Name):
                return self.assign(t.id, t.id, f'({self.num(t, env)} {op} {self.num(st.value, env)})', env)
        if isinstance(st, ast.If):
            return self.ifstmt(st, env)
        raise Untranslatable('statement ' + ast.unparse(st).split('\n')[0])

    def block(self, stmts, env):
        lines = []
        for st in stmts:
            l, env = self.stmt(st, env)
            lines += l
        return lines, env

    def ifstmt(self, st, env):
        k = self.cond(st.test, env)
        env_t, env_e = dict(env), dict(env)
        binder = None
        if k[0] in ('some', 'none'):
            s = env.get('slot:' + k[1])
            if s is None or s[0] != 'opt':
                raise Untranslatable(f'None-test on {k[1]}, which is not an optional slot here')
            binder = self.fresh(k[1] + '_v')
            (env_t if k[0] == 'some' else env_e)['slot:' + k[1]] = ('val', binder)
            (env_e if k[0] == 'some' else env_t)['slot:' + k[1]] = ('none', None)
        lt, env_t = self.block(st.body, env_t)
        le, env_e = self.block(st.orelse, env_e)
        keys = [x for x in env if env_t.get(x) != env[x] or env_e.get(x) != env[x]]
        # locals born in both branches survive the statement
        keys += [x for x in env_t if x not in env and x in env_e]
        if not keys:
            return [], env
        out_env = dict(env)
        comps_t, comps_e, names = [], [], []
        for x in keys:
            a, b = env_t[x], env_e[x]
            if a[0] in ('val', 'nat') and b[0] == a[0]:
                kind = a[0]; ca, cb = a[1], b[1]
            else:                                    # optional slot: bring both sides to Option
                kind = 'opt'
                ca = {'val': f'(some {a[1]})', 'none': 'none', 'opt': a[1]}[a[0]]
                cb = {'val': f'(some {b[1]})', 'none': 'none', 'opt': b[1]}[b[0]]
            v = self.fresh(x.split(':')[-1])
            out_env[x] = (kind, v); names.append(v); comps_t.append(ca); comps_e.append(cb)
        tup = lambda cs: cs[0] if len(cs) == 1 else '(' + ', '.join(cs) + ')'
        inner = lambda ls, cs: '(' + '; '.join(ls + [tup(cs)]) + ')'
        if k[0] == 'bool':
            rhs = f'if {k[1]} then {inner(lt, comps_t)} else {inner(le, comps_e)}'
        else:
            some_b, none_b = (inner(lt, comps_t), inner(le, comps_e)) if k[0] == 'some' else (inner(le, comps_e), inner(lt, comps_t))
            rhs = f'(match {env["slot:" + k[1]][1]} with | some {binder} => {some_b} | none => {none_b})'
        return [f'let {tup(names)} := {rhs}'], out_env

    def emit(self):
        env = {'theta': ('val', 'theta')}
        for s, kind in self.slots.items():
            env['slot:' + s] = (kind, ident(s))
        lines, env = self.block(self.loop.body[1:], env)
        slots = sorted(self.slots)
        def final(s):
            k, v = env['slot:' + s]
            if self.slots[s] == 'opt': return {'val': f'(some {v})', 'opt': v, 'none': 'none'}[k]
            return v
        ret = '(' + ', '.join([env['theta'][1]] + [final(s) for s in slots]) + ')'
        ty = lambda s: {'opt': 'Option α', 'nat': 'Nat', 'val': 'α'}[self.slots[s]]
        hyp, flags = sorted(self.hyp), sorted(self.flags)
        sig = f'def {self.name}'
        if hyp: sig += ' (' + ' '.join(ident(h) for h in hyp) + ' : α)'
        if flags: sig += ' (' + ' '.join(ident(f) for f in flags) + ' : Bool)'
        sig += ' (theta g0 : α)'
        for s in slots: sig += f' ({ident(s)} : {ty(s)})'
        sig += ' : ' + ' × '.join(['α'] + [ty(s) for s in slots]) + ' :='
        text = [f'/-- body of the per-parameter loop of `{self.cls.name}.step` (after the guard), optimizers.py line {self.loop.lineno} -/', sig]
        text += ['  ' + l for l in lines] + ['  ' + ret, '']
        return '\n'.join(text), {'hyper': hyp, 'flags': flags, 'slots': {s: self.slots[s] for s in slots}, 'init': self.init}


def translate(src_path=None):
    tree = ast.parse(open(src_path or SRC()).read())
    out = ['import SynapModel.Optim',
           '/-! GENERATED by harness/optim_formulas.py from synapgrad/optim/optimizers.py on every run — do not edit.',
           '    One pure function per optimizer: the body of the per-parameter loop of `step`, for one element of one parameter. -/',
           'set_option linter.unusedVariables false',
           'namespace Synap.Gen', 'open Synap.Optim', '', 'section',
           'variable {α : Type} [Add α] [Sub α] [Mul α] [Div α] [Neg α] [Zero α] [One α] [NatCast α] [OfScientific α] [HPow α Nat α] [HasSqrt α]', '']
    report, sigs = {}, {}
    for st in tree.body:
        if isinstance(st, ast.ClassDef) and st.name in CLASSES:
            try:
                s = Step(st)
                text, sig = s.emit()
            except Untranslatable as ex:
                report[st.name] = f'untranslatable: {ex}'
                continue
            out.append(text)
            report[st.name] = 'ok'
            sigs[st.name] = sig
    for c in CLASSES:
        report.setdefault(c, 'missing: no such class in optimizers.py')
    out += ['end', '']
    # Float runner for the driver: arguments in signature order, Bool flags as 0/1, an optional slot as [] / [x] via a marker
    out.append('/-- the generated steps at `Float` (driver: validation of the translation against the real optimizer objects).')
    out.append('    `opt` holds the optional slots (`none` / `some x`), `nat` the counters, `x` the scalars, `fl` the flags, in signature order. -/')
    out.append('def runStepFloat [NatCast Float] [HPow Float Nat Float] [HasSqrt Float] (name : String) (x : List Float) (fl : List Bool) (opt : List (Option Float)) (nat : List Nat) :')
    out.append('    Option (List Float × List (Option Float) × List Nat) :=')
    out.append('  match name, x, fl, opt, nat with')
    for cname, sig in sigs.items():
        hyp, flags, slots = sig['hyper'], sig['flags'], sig['slots']
        xs = [ident(h) for h in hyp] + ['theta', 'g0'] + [ident(s) for s, k in slots.items() if k == 'val']
        fs = [ident(f) for f in flags]
        os_ = [ident(s) for s, k in slots.items() if k == 'opt']
        ns = [ident(s) for s, k in slots.items() if k == 'nat']
        call = ' '.join([f'{cname.lower()}_step (α := Float)'] + [ident(h) for h in hyp] + fs + ['theta', 'g0'] + [ident(s) for s in slots])
        # destructure the result tuple
        comps = ['theta\''] + [ident(s) + '\'' for s in slots]
        pat = '(' + ', '.join(comps) + ')'
        rx = ['theta\''] + [ident(s) + '\'' for s, k in slots.items() if k == 'val']
        ro = [ident(s) + '\'' for s, k in slots.items() if k == 'opt']
        rn = [ident(s) + '\'' for s, k in slots.items() if k == 'nat']
        out.append(f'  | "{cname}", [{", ".join(xs)}], [{", ".join(fs)}], [{", ".join(os_)}], [{", ".join(ns)}] =>')
        out.append(f'    let {pat} := {call}')
        out.append(f'    some ([{", ".join(rx)}], [{", ".join(ro)}], [{", ".join(rn)}])')
    out.append('  | _, _, _, _, _ => none')
    out += ['', 'end Synap.Gen']
    return '\n'.join(out) + '\n', {'classes': report, 'signatures': sigs}


def write():
    text, report = translate()
    old = open(OUT).read() if os.path.exists(OUT) else None
    if old != text:
        with open(OUT, 'w') as f:
            f.write(text)
    bad = {k: v for k, v in report['classes'].items() if v != 'ok'}
    notes = [f'optimizer-step translator: {len(report["classes"]) - len(bad)} of {len(report["classes"])} step bodies of optimizers.py translated into Generated/OptimSteps.lean']
    notes += [f'optimizer-step translator: {k}: {v}' for k, v in sorted(bad.items())]
    return notes, report


if __name__ == '__main__':
    import json, sys
    t, r = translate()
    print(t)
    print(json.dumps(r, indent=1), file=sys.stderr)
