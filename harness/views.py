"""Operands that are INTERIOR tensors with a non-contiguous / axis-permuted buffer.

`view_plan` turns (shape, data) into a leaf of another shape plus a short list of single-operand ops (protocol `t op` lines:
transpose / movedim, slice with a step or reversed, elementwise neg / clone — NumPy keeps the permuted layout through those) whose
result has the wanted shape and values; on the implementation that result is a strided view (or an array laid out like one), in
the model just an array.  Used by C14 (both sides of every identity consume the view) and C05 (every op on such an operand)."""
import numpy as np

VIEW_KINDS = ['perm', 'perm', 'perm_ew', 'perm_ew', 'step', 'rev', 'perm_step']


def view_plan(rng, sh, data, kinds=None):
    """(leaf shape, leaf data, [(op, args)], kind): the ops rebuild an array of shape `sh` holding `data` from the leaf"""
    kinds = kinds or VIEW_KINDS
    sh = tuple(sh)
    A = np.array(data, dtype=np.float64).reshape(sh)
    nd = len(sh)
    kind = rng.pick([k for k in kinds if nd >= 2 or not k.startswith('perm')] or ['step', 'rev'])
    ops = []
    Lf = A
    if kind in ('step', 'rev', 'perm_step'):
        ax = rng.randrange(nd)
        full = lambda: ['s~:~:1'] * ax
        if kind == 'rev' or (kind == 'perm_step' and rng.chance(.4)):
            Lf = np.flip(A, ax); ops = [('slice', [';'.join(full() + ['s~:~:-1'])])]
        else:
            big = np.full(sh[:ax] + (2 * sh[ax],) + sh[ax + 1:], 55.0)
            idx = [slice(None)] * nd; idx[ax] = slice(0, None, 2)
            big[tuple(idx)] = A
            Lf = big; ops = [('slice', [';'.join(full() + ['s~:~:2'])])]
    if kind.startswith('perm'):
        a, b_ = rng.sample(range(nd), 2)
        neg = lambda q: q if rng.chance(.5) else q - nd
        if rng.chance(.5):
            Lf = np.swapaxes(Lf, a, b_); ops = [('transpose', [neg(a), neg(b_)])] + ops        # the slice then applies to the transposed result
        else:
            Lf = np.moveaxis(Lf, b_, a); ops = [('movedim', [neg(a), neg(b_)])] + ops
        if kind == 'perm_ew':
            ops = ops + rng.pick([[('neg', []), ('neg', [])], [('clone', [])], [('neg', []), ('clone', []), ('neg', [])]])
    return tuple(Lf.shape), [float(v) for v in np.ascontiguousarray(Lf).ravel()], ops, kind

