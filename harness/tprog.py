"""Executes tensor-program protocol lines (`t …`) on the real synapgrad and canonicalises the
answers exactly as the Lean driver prints them.  Shared by the engine and kernel properties."""
import numpy as np
import common
from common import fbits, bitsf, show_floats, show_ints, outcome, tmod

DTN = {np.dtype(np.float32): 'f32', np.dtype(np.float64): 'f64', np.dtype(np.int8): 'i8', np.dtype(np.int32): 'i32', np.dtype(np.int64): 'i64', np.dtype(np.bool_): 'bool'}
DT = {'f32': np.float32, 'f64': np.float64, 'i8': np.int8, 'i32': np.int32, 'i64': np.int64, 'bool': np.bool_,
      'c64': np.complex64, 'c128': np.complex128, 'u8': np.uint8, 'i16': np.int16}      # the last four are spelled i64 for the model (`not floating`)


def show_arr(a):
    a = np.asarray(a)
    return f"{show_ints(a.shape)}|{show_floats(a.astype(np.float64).ravel())}"


def parse_arr(s):
    sh, d = s.split('|')
    shape = tuple(common.parse_ints(sh))
    return np.array(common.parse_floats(d), dtype=np.float64).reshape(shape)


ENTRIES = False          # every op also through its other public entry points: Tensor method, operator, nn layer class
SPELLINGS = False        # set together with LAYOUTS: integer arguments also arrive as NumPy integers, tuples also as lists
SPELL_OPS = ('concat', 'stack', 'unbind', 'sum', 'mean', 'squeeze', 'unsqueeze', 'reshape', 'movedim', 'transpose', 'flatten')
_LAYER_OBJECTS = {}      # parameterless layer objects, kept for the life of the process (see Impl._call_nn)
DTYPE_KW = False         # set by C07 / C10: a leaf's dtype also arrives as the constructor's `dtype=` argument over float data
RESET_ROUTES = False     # set by the property modules about gradient histories: `t zero` goes through Tensor.zero_ / Module.zero_grad / Optimizer.zero_grad in turn
LAYOUTS = False          # set by the property modules whose input space includes the memory layout of leaf arrays
LAYOUT_NAMES = ['C', 'C', 'F', 'strided', 'reversed', 'offset', 'transposed']


def relayout(a, layout):
    """an array with the same values (and dtype) as `a` in another memory layout"""
    if a.ndim == 0:
        return a                                  # (np.ascontiguousarray would turn a 0-d array into a 1-d one)
    a = np.ascontiguousarray(a)
    if layout == 'F':
        return np.asfortranarray(a)
    if layout == 'strided':                       # every second element of a twice-as-long last axis
        big = np.full(a.shape[:-1] + (2 * a.shape[-1],), 55, dtype=a.dtype)
        big[..., ::2] = a
        return big[..., ::2]
    if layout == 'reversed':                      # negative stride on the last axis
        return np.ascontiguousarray(a[..., ::-1])[..., ::-1]
    if layout == 'offset':                        # a window into a larger buffer
        big = np.full(tuple(n + 2 for n in a.shape), -77, dtype=a.dtype)
        sl = tuple(slice(1, n + 1) for n in a.shape)
        big[sl] = a
        return big[sl]
    if layout == 'transposed':                    # a transposed view of the transposed copy
        return np.ascontiguousarray(a.T).T
    return a


def arr_line(shape, data, name='leaf'):
    return f"{show_ints(shape)} {show_floats(data)}"


def parse_axes(s):
    if s == 'all': return None
    if s.startswith('i:'): return int(s[2:])
    return tuple(common.parse_ints(s[2:]))


def parse_sel(s):
    if s == '_': return ()
    out = []
    for t in s.split(';'):
        if t == 'e': out.append(Ellipsis)
        elif t == 'n': out.append(None)
        elif t[0] == 'i': out.append(int(t[1:]))
        elif t[0] == 'l': out.append([int(v) for v in t[1:].split('.')])
        elif t[0] == 's':
            a, b, c = t[1:].split(':')
            out.append(slice(None if a == '~' else int(a), None if b == '~' else int(b), int(c)))
    return tuple(out)


def show_sel(sel):
    if sel == (): return '_'
    out = []
    for t in sel:
        if t is Ellipsis: out.append('e')
        elif t is None: out.append('n')
        elif isinstance(t, int): out.append(f'i{t}')
        elif isinstance(t, list): out.append('l' + '.'.join(str(v) for v in t))
        else:
            f = lambda v: '~' if v is None else str(v)
            out.append(f's{f(t.start)}:{f(t.stop)}:{1 if t.step is None else t.step}')
    return ';'.join(out)


def opt_int(s):
    return None if s == '~' else int(s)


class Impl:
    def __init__(self):
        self.sg = common.impl()
        from synapgrad import nn as _nn
        self.nn = _nn
        self.tm = tmod()
        self.ts = []
        self.ctxs = []
        self.iters = []
        self.fn_owner = {}
        self.trace = None
        self._saved_modes = (self.tm.gradient__, self.tm.retain_grads__)
        self.tm.gradient__, self.tm.retain_grads__ = True, False

    def close(self):
        self.tm.gradient__, self.tm.retain_grads__ = self._saved_modes

    # ------------------------------------------------------------------ ops
    def call_op(self, name, ins, args):
        """integer arguments are also spelled as NumPy integers, tuples also as lists (the model sees the values). A spelling the
        forward REJECTS is not part of the documented argument space: the call is then judged on the plain spelling. A spelling
        the forward ACCEPTS must work all the way through backward."""
        sp = (sum(map(ord, ' '.join(map(str, args)))) + len(ins)) % 3 if SPELLINGS and name in SPELL_OPS else 0
        if sp:
            try:
                return self._call_op(name, ins, args, sp)
            except Exception:
                pass
        return self._call_op(name, ins, args, 0)

    def _call_op(self, name, ins, args, sp):
        sg = self.sg
        x = [self.ts[i] for i in ins]
        self.ncall = getattr(self, 'ncall', 0) + 1        # the entry point also varies from call to call within a program
        ev = (sum(map(ord, name + ' '.join(map(str, args)))) + 7 * len(ins) + self.ncall) % 3 if ENTRIES else 0      # 0: function, 1/2: method / operator
        if ev:
            if ev == 2 and name in ('add', 'mul', 'matmul'):
                # the augmented statement `r = a; r += b` (Python falls back to a + b unless the class defines the in-place hook)
                import operator
                r = x[0]
                r = {'add': operator.iadd, 'mul': operator.imul, 'matmul': operator.imatmul}[name](r, x[1])
                return r
            if name == 'add': return x[0] + x[1]
            if name == 'mul': return x[0] * x[1]
            if name == 'matmul': return x[0] @ x[1]
            # (`-x` is x * -1 in the library: two operands and a hidden scalar tensor; that form is the `t sop neg` line)
            if name == 'pow': return x[0] ** bitsf(args[0])
            if name == 'rpow': return bitsf(args[0]) ** x[0]
            if name in ('exp', 'log', 'sqrt', 'clone'): return getattr(x[0], name)()
            if name == 'slice': return x[0][self._index(parse_sel(args[0]))]
        def I(v):
            if v is None or sp == 0: return v
            if isinstance(v, (tuple, list)):
                return [np.int64(q) for q in v] if sp == 2 else tuple(np.int64(q) for q in v)
            return np.int64(v)
        int_ = lambda s_: I(int(s_))
        if name in ('add', 'mul', 'matmul'): return getattr(sg, name)(x[0], x[1])
        if name == 'addmm': return sg.addmm(x[0], x[1], x[2])
        if name in ('neg', 'clone', 'exp', 'log', 'sqrt'): return getattr(sg, name)(x[0])
        if name in ('pow', 'rpow'): return getattr(sg, name)(x[0], bitsf(args[0]))
        if name == 'slice': return sg.slice(x[0], self._index(parse_sel(args[0])))
        if name in ('concat', 'stack'):
            # the sequence is the caller's object: hand over a list or a tuple, and (for a list) mutate it once the call has
            # returned — the graph must have its own record of the operands
            seq = list(x) if int(args[0]) % 2 == 0 else tuple(x)
            r = getattr(sg, name)(seq, int_(args[0]))
            if isinstance(seq, list):
                seq.reverse(); seq.pop()
            return r
        if name == 'unbind': return sg.unbind(x[0], int_(args[0]))
        if name in ('sum', 'mean'): return (getattr(x[0], name) if ev else lambda *a: getattr(sg, name)(x[0], *a))(I(parse_axes(args[0])), bool(int(args[1])))
        if name in ('max', 'min'): return (getattr(x[0], name) if ev else lambda *a: getattr(sg, name)(x[0], *a))(opt_int(args[0]), bool(int(args[1])))
        if name == 'squeeze': return x[0].squeeze(I(parse_axes(args[0]))) if ev else sg.squeeze(x[0], I(parse_axes(args[0])))
        if name == 'unsqueeze':
            ax = common.parse_ints(args[0])
            return x[0].unsqueeze(I(ax[0] if len(ax) == 1 else tuple(ax))) if ev else sg.unsqueeze(x[0], I(ax[0] if len(ax) == 1 else tuple(ax)))
        if name == 'reshape': return x[0].reshape(I(tuple(common.parse_ints(args[0])))) if ev else sg.reshape(x[0], I(tuple(common.parse_ints(args[0]))))
        if name == 'movedim': return (x[0].movedim if ev == 1 else x[0].moveaxis if ev == 2 else lambda *a: sg.movedim(x[0], *a))(int_(args[0]), int_(args[1]))
        if name == 'transpose': return x[0].transpose(int_(args[0]), int_(args[1])) if ev else sg.transpose(x[0], int_(args[0]), int_(args[1]))
        if name == 'flatten':
            if ev == 1: return x[0].flatten(int_(args[0]), int_(args[1]))
            if ev == 2: return self.nn.Flatten(int_(args[0]), int_(args[1]))(x[0])
            return sg.flatten(x[0], int_(args[0]), int_(args[1]))
        if name == 'unfold_dim': return x[0].unfold(int(args[0]), int(args[1]), int(args[2])) if ev else sg.unfold_dim(x[0], int(args[0]), int(args[1]), int(args[2]))
        return self.call_nn(name, x, args)

    def call_nn(self, name, x, args):
        """`int or tuple` arguments of the 2-d ops are spelled as a pair, as the documented bare int when both entries agree, as a
        list, or as a pair of NumPy integers; the undocumented spellings fall back to the pair when the forward rejects them"""
        self.nnc = getattr(self, 'nnc', 0) + 1          # spelling and entry point also vary from call to call within a program
        sp = (sum(map(ord, ' '.join(map(str, args)))) + len(x) + self.nnc) % 4 if SPELLINGS and name in ('conv2d', 'max_pool2d', 'avg_pool2d', 'unfold', 'fold') else 0
        if sp and sp % 2 == 0 and name != 'conv2d' and len(set(args[0].split(','))) == 1: sp = 1      # square kernel: the documented int spelling half of the time
        if sp >= 2:
            try:
                return self._call_nn(name, x, args, sp)
            except Exception:
                sp = 0
        return self._call_nn(name, x, args, sp)

    def _call_nn(self, name, x, args, sp=0):
        sg = self.sg
        def pair(a):
            v = tuple(common.parse_ints(a))
            if sp == 1 and len(v) == 2 and v[0] == v[1]: return v[0]       # documented: int or tuple
            if sp == 2: return list(v)
            if sp == 3: return tuple(np.int64(q) for q in v)
            return v
        nn = self.nn
        lay = ENTRIES and (sum(map(ord, name + ' '.join(map(str, args)))) + len(x) + self.nnc // 2) % 2 == 1        # the layer class instead of the function
        def once(key, make):
            """a parameterless layer object is built ONCE per process for each constructor-argument tuple and then called again
            and again — with other shapes, values and dtypes — as the layers of a model are"""
            k = (name,) + tuple(key)
            if k not in _LAYER_OBJECTS: _LAYER_OBJECTS[k] = make()
            return _LAYER_OBJECTS[k]
        if lay:
            if name in ('relu', 'selu', 'tanh', 'sigmoid'):
                return once((), {'relu': nn.ReLU, 'selu': nn.SELU, 'tanh': nn.Tanh, 'sigmoid': nn.Sigmoid}[name])(x[0])
            if name == 'leaky_relu': return once((args[0],), lambda: nn.LeakyReLU(bitsf(args[0])))(x[0])
            if name in ('softmax', 'log_softmax'): return once((args[0],), lambda: (nn.Softmax if name == 'softmax' else nn.LogSoftmax)(int(args[0])))(x[0])
            if name in ('max_pool1d', 'avg_pool1d'):
                return once(tuple(args[:4]), lambda: (nn.MaxPool1d if name[0] == 'm' else nn.AvgPool1d)(int(args[0]), int(args[1]), int(args[2]), int(args[3])))(x[0])
            if name in ('max_pool2d', 'avg_pool2d'):
                return once(tuple(args[:4]) + (sp,), lambda: (nn.MaxPool2d if name[0] == 'm' else nn.AvgPool2d)(pair(args[0]), pair(args[1]), pair(args[2]), pair(args[3])))(x[0])
            if name == 'unfold': return once(tuple(args[:5]) + (sp,), lambda: nn.Unfold(pair(args[0]), stride=pair(args[2]), padding=pair(args[3]), dilation=pair(args[1]), pad_value=bitsf(args[4])))(x[0])
            if name == 'fold': return once(tuple(args[:5]) + (sp,), lambda: nn.Fold(tuple(common.parse_ints(args[0])), pair(args[1]), stride=pair(args[3]), padding=pair(args[4]), dilation=pair(args[2])))(x[0])
            if name in ('linear', 'conv1d', 'conv2d'):
                # a layer object whose parameters ARE the program's operand tensors (so their gradients are observed as usual)
                w = x[1]; b = x[2] if len(x) > 2 else None
                if name == 'linear':
                    m = nn.Linear(w.shape[1], w.shape[0], bias=b is not None)
                elif name == 'conv1d':
                    m = nn.Conv1d(w.shape[1], w.shape[0], w.shape[2], int(args[1]), int(args[2]), int(args[3]), bias=b is not None)
                else:
                    m = nn.Conv2d(w.shape[1], w.shape[0], (w.shape[2], w.shape[3]), pair(args[1]), pair(args[2]), pair(args[3]), bias=b is not None)
                object.__setattr__(m, 'weight', w)
                object.__setattr__(m, 'bias', b)
                return m(x[0])
        if name in ('relu', 'selu', 'tanh', 'sigmoid'): return getattr(sg, name)(x[0])
        if name == 'leaky_relu': return sg.leaky_relu(x[0], bitsf(args[0]))
        if name in ('softmax', 'log_softmax'): return getattr(sg, name)(x[0], int(args[0]))
        if name in ('mse_loss', 'binary_cross_entropy', 'binary_cross_entropy_with_logits', 'nll_loss', 'cross_entropy'):
            return getattr(sg, name)(x[0], x[1])
        if name == 'linear': return sg.linear(x[0], x[1], x[2] if len(x) > 2 else None)
        if name == 'conv1d': return sg.conv1d(x[0], x[1], x[2] if len(x) > 2 else None, int(args[1]), int(args[2]), int(args[3]))
        if name == 'conv2d': return sg.conv2d(x[0], x[1], x[2] if len(x) > 2 else None, pair(args[1]), pair(args[2]), pair(args[3]))
        if name in ('max_pool1d', 'avg_pool1d'): return getattr(sg, name)(x[0], int(args[0]), int(args[1]), int(args[2]), int(args[3]))
        if name in ('max_pool2d', 'avg_pool2d'): return getattr(sg, name)(x[0], pair(args[0]), pair(args[1]), pair(args[2]), pair(args[3]))
        if name == 'unfold': return sg.unfold(x[0], pair(args[0]), pair(args[1]), pair(args[2]), pair(args[3]), bitsf(args[4]))
        if name == 'fold': return sg.fold(x[0], tuple(common.parse_ints(args[0])), pair(args[1]), pair(args[2]), pair(args[3]), pair(args[4]))
        if name == 'batch_norm':
            hw, hb, tr = bool(int(args[0])), bool(int(args[1])), bool(int(args[2]))
            w = x[1] if hw else None
            b = (x[2] if hw else x[1]) if hb else None
            rm = None if args[4] == '-' else sg.Tensor(np.array(common.parse_floats(args[4]), dtype=x[0].data.dtype))
            rv = None if args[5] == '-' else sg.Tensor(np.array(common.parse_floats(args[5]), dtype=x[0].data.dtype))
            if not tr:      # in eval mode the running statistics are plain operands: nothing may write to them (observed by C11)
                self.readonly_aux = getattr(self, 'readonly_aux', []) + [t_ for t_ in (rm, rv) if t_ is not None]
            return sg.batch_norm(x[0], w, b, rm, rv, tr, 0.1, bitsf(args[3]))
        raise KeyError(name)

    @staticmethod
    def _index(sel):
        return sel[0] if len(sel) == 1 else sel

    # ------------------------------------------------------------------ lines
    def run(self, line):
        t = line.split(' ')
        assert t[0] == 't'
        c = t[1]
        sg = self.sg
        if c == 'leaf':
            shape = tuple(common.parse_ints(t[3]))
            a = np.array(common.parse_floats(t[5]), dtype=np.float64).reshape(shape).astype(DT[t[2]])
            if LAYOUTS:      # same values, another memory layout (Tensor keeps the caller's ndarray as it is)
                a = relayout(a, LAYOUT_NAMES[sum(map(ord, t[5][:64])) % len(LAYOUT_NAMES)])
            kw = sum(map(ord, t[5][:64] + t[3])) % 4
            if DTYPE_KW and kw in (1, 2):
                # the dtype arrives as the `dtype=` argument while the data are still Python floats / a float64 array (the
                # constructor casts): Tensor(...) and the factory function synapgrad.tensor(...)
                raw = np.array(common.parse_floats(t[5]), dtype=np.float64).reshape(shape)
                raw = raw.tolist() if kw == 2 else raw
                x = (sg.Tensor if kw == 1 else sg.tensor)(raw, requires_grad=bool(int(t[4])), dtype=DT[t[2]])
            elif RESET_ROUTES and sum(map(ord, t[5][:64])) % 2 == 0:      # half of the leaves are nn.Parameter objects (a Tensor subclass)
                from synapgrad.nn.modules import Parameter
                x = Parameter(a, requires_grad=bool(int(t[4])))
            else:
                x = sg.Tensor(a, requires_grad=bool(int(t[4])))
            self.ts.append(x)
            if RESET_ROUTES and x.data.dtype.kind == 'f':
                # the objects a training script builds ONCE, right after the parameter exists (whatever its flag is then), and
                # uses for every later reset: an optimizer over it and, for a Parameter, a module holding it
                from synapgrad import optim, nn
                self.leaf_opt = getattr(self, 'leaf_opt', {}); self.leaf_mod = getattr(self, 'leaf_mod', {})
                self.leaf_opt[len(self.ts) - 1] = optim.SGD([x], lr=0.1)
                if type(x).__name__ == 'Parameter':
                    m = nn.Module(); m.register_parameter('w', x); self.leaf_mod[len(self.ts) - 1] = m
            return f't{len(self.ts) - 1}'
        if c == 'op':
            out = self.call_op(t[2], common.parse_ints(t[3]), t[4:])
            outs = list(out) if isinstance(out, (tuple, list)) else [out]
            names = []
            for o in outs:
                self.ts.append(o)
                if o.grad_fn is not None:
                    self.fn_owner[id(o.grad_fn)] = len(self.ts) - 1
                names.append(f't{len(self.ts) - 1}')
            return ','.join(names)
        if c == 'sop':
            kind, a = t[2], self.ts[int(t[3])]
            b = self.ts[int(t[4][1:])] if t[4][0] == 't' else bitsf(t[4][1:])
            hidden = {'add': 1, 'mul': 1, 'neg': 1, 'rsub': 3, 'rdiv': 2}.get(kind)
            if kind == 'sub': hidden = 2 if t[4][0] == 't' else 1
            if kind == 'div': hidden = 1
            self.nsop = getattr(self, 'nsop', 0) + 1
            aug = self.nsop % 2 == 0          # every second operator statement is the augmented one: `r = a; r -= b`
            import operator
            if kind == 'add': r = operator.iadd(a, b) if aug else a + b
            elif kind == 'mul': r = operator.imul(a, b) if aug else a * b
            elif kind == 'neg': r = -a
            elif kind == 'sub': r = operator.isub(a, b) if aug else a - b
            elif kind == 'rsub': r = b - a
            elif kind == 'div': r = operator.itruediv(a, b) if aug else a / b
            elif kind == 'rdiv': r = b / a
            else: raise KeyError(kind)
            self.ts += [None] * hidden      # the intermediate tensors of the operator are nodes of the model too
            self.ts.append(r)
            if r.grad_fn is not None: self.fn_owner[id(r.grad_fn)] = len(self.ts) - 1
            return f't{len(self.ts) - 1}'
        if c == 'loss':
            from synapgrad import nn
            cls = {'mse_loss': nn.MSELoss, 'nll_loss': nn.NLLLoss, 'binary_cross_entropy': nn.BCELoss,
                   'binary_cross_entropy_with_logits': nn.BCEWithLogitsLoss, 'cross_entropy': nn.CrossEntropyLoss}[t[2]]
            r = cls(reduction=t[3])(self.ts[int(t[4])], self.ts[int(t[5])])
            if t[3] != 'none': self.ts.append(None)      # the unreduced loss tensor
            self.ts.append(r)
            if r.grad_fn is not None: self.fn_owner[id(r.grad_fn)] = len(self.ts) - 1
            return f't{len(self.ts) - 1}'
        if c == 'iter':
            if t[2] == 'new':
                self.iters.append(iter(self.ts[int(t[3])])); return f'it{len(self.iters) - 1}'
            try:
                r = next(self.iters[int(t[3])])
            except StopIteration:
                return 'stop'
            self.ts.append(r); return f't{len(self.ts) - 1}'
        if c == 'ctor':
            dims = common.parse_ints(t[4])
            if t[2] == 'like':
                r = (sg.ones_like if t[3] == '1' else sg.zeros_like)(self.ts[dims[0]])
            else:
                f = sg.ones if t[2] == 'ones' else sg.zeros
                r = f(*dims) if t[3] == 'v' else f(tuple(dims)) if t[3] == 't' else f(list(dims))
            self.ts.append(r); return f't{len(self.ts) - 1}'
        if c == 'eye':
            self.ts.append(sg.eye(int(t[2]))); return f't{len(self.ts) - 1}'
        if c == 'arange':
            self.ts.append(sg.arange(int(t[2]), int(t[3]), int(t[4]))); return f't{len(self.ts) - 1}'
        if c == 'gdtype':
            x = self.ts[int(t[2])]
            if x is None: return 'hidden'
            if x._grad is None: return '-'
            if x._grad.shape != x.data.shape: return f'shape{x._grad.shape}'
            return DTN.get(x._grad.dtype, str(x._grad.dtype))
        if c == 'dtype':
            if self.ts[int(t[2])] is None: return 'hidden'
            return {np.dtype(np.float32): 'f32', np.dtype(np.float64): 'f64', np.dtype(np.int8): 'i8', np.dtype(np.int32): 'i32',
                    np.dtype(np.int64): 'i64', np.dtype(np.bool_): 'bool'}.get(self.ts[int(t[2])].data.dtype, str(self.ts[int(t[2])].data.dtype))
        if c == 'bw':
            shape = tuple(common.parse_ints(t[3]))
            g = sg.Tensor(np.array(common.parse_floats(t[4]), dtype=np.float64).reshape(shape).astype(DT[t[5]] if len(t) > 5 else np.float64))
            tr = self.traced(lambda: self.ts[int(t[2])].backward(g))
            return 'ok trace=' + (','.join(tr) if tr else '_')
        if c == 'zero':
            x = self.ts[int(t[2])]
            self.nzero = getattr(self, 'nzero', 0) + 1
            route = self.nzero % 3 if RESET_ROUTES and x.requires_grad and x.is_leaf else 0
            k = int(t[2])
            if route == 1 and k in getattr(self, 'leaf_mod', {}):      # the reset every training loop uses: Module.zero_grad
                self.leaf_mod[k].zero_grad()
            elif route == 2 and k in getattr(self, 'leaf_opt', {}):   # ... or Optimizer.zero_grad, of the optimizer built when the leaf was created
                self.leaf_opt[k].zero_grad()
            else:
                x.zero_()
            return 'ok'
        if c == 'retain':
            self.ts[int(t[2])].retain_grad(); return 'ok'
        if c == 'setrg':
            self.ts[int(t[2])].requires_grad = bool(int(t[3])); return 'ok'
        if c == 'ctx':
            if t[2] == 'new':
                self.ctxs.append(sg.no_grad() if t[3] == 'ng' else sg.retain_grads())
                return f'c{len(self.ctxs) - 1}'
            if t[2] == 'enter':
                self.ctxs[int(t[3])].__enter__(); return 'ok'
            self.ctxs[int(t[3])].__exit__(None, None, None); return 'ok'
        if c == 'modes':
            return f'{int(self.tm.gradient__)}{int(self.tm.retain_grads__)}'
        x = self.ts[int(t[2])]
        if x is None:
            return 'hidden'      # an intermediate tensor of an operator form: exists in the model, not reachable here
        if c == 'grad':
            return '-' if x._grad is None else show_arr(x._grad)
        if c == 'val':
            return show_arr(x.data)
        if c == 'flags':
            return (f'rg={int(x.requires_grad)} leaf={int(x.is_leaf)} fn={int(x.grad_fn is not None)} '
                    f'grad={int(x._grad is not None)} children={len(x._children)}')
        return 'bad-op'

    def traced(self, f):
        """run f logging zero-initialisations and grad_fn calls (by wrapping the public objects)"""
        sg = self.sg
        BF = sg.functional.BackwardFunction
        T = sg.Tensor
        idx = {id(x): k for k, x in enumerate(self.ts) if x is not None}
        log = []
        oc, oz = BF.__call__, T.zero_
        def call(s):
            log.append(f"c{self.fn_owner.get(id(s), '?')}"); return oc(s)
        def zero(s):
            log.append(f"z{idx.get(id(s), '?')}"); return oz(s)
        BF.__call__, T.zero_ = call, zero
        try:
            f()
        finally:
            BF.__call__, T.zero_ = oc, oz
        return log

    def exec(self, line):
        return outcome(lambda: self.run(line))


def run_program(lines, cls=Impl):
    im = cls()
    try:
        return [im.exec(l) for l in lines]
    finally:
        im.close()


def run_program_fresh(lines, module=None, cls='Impl'):
    """the same program in a FRESH interpreter: nothing of the library has run before its first line (state that is set up
    lazily by the first tensor construction, the first op, the first context ... is set up by the program itself)"""
    import subprocess, sys, json, os
    here = os.path.dirname(os.path.abspath(__file__))
    code = ("import sys, json; sys.path.insert(0, %r); import tprog\n"
            "mod = __import__(%r, fromlist=['x']) if %r else tprog\n"
            "lines = json.load(sys.stdin)\n"
            "print('@@RESULT@@' + json.dumps(tprog.run_program(lines, getattr(mod, %r))))\n") % (here, module or '', module or '', cls)
    p = subprocess.run([sys.executable, '-c', code], input=json.dumps(lines), capture_output=True, text=True, timeout=300)
    for l in p.stdout.split('\n'):
        if l.startswith('@@RESULT@@'):
            return json.loads(l[len('@@RESULT@@'):])
    raise RuntimeError(f'fresh interpreter failed: {p.stderr[-500:]}')


# ---------------------------------------------------------------------------- comparison
def close_arr(m, i, rtol=1e-9):
    if m == i: return True
    if '|' not in m or '|' not in i: return False
    ms, md = m.split('|'); is_, id_ = i.split('|')
    if ms != is_: return False
    a, b = common.parse_floats(md), common.parse_floats(id_)
    if len(a) != len(b): return False
    scale = max([1.0] + [abs(v) for v in a + b if v == v and abs(v) != float('inf')])
    for x, y in zip(a, b):
        if x != x or y != y:
            if not (x != x and y != y): return False
        elif abs(x) == float('inf') or abs(y) == float('inf'):
            if x != y: return False
        elif abs(x - y) > rtol * scale: return False
    return True


def strip_release(tr):
    """model traces also hold release events; the implementation's releases are observed through
    the has-grad flags instead"""
    if not tr.startswith('ok trace='): return tr
    evs = [e for e in tr[len('ok trace='):].split(',') if e and e != '_' and not e.startswith('r')]
    return 'ok trace=' + (','.join(evs) if evs else '_')


def close_line(m, i, rtol=1e-9):
    if m == i or i == 'hidden': return True
    if m.startswith('ok trace=') and i.startswith('ok trace='):
        return strip_release(m) == strip_release(i) or '?' in i
    return close_arr(m, i, rtol)


QUERIES = ('t val ', 't grad ', 't flags ', 't dtype ', 't gdtype ')


def diff_program(lines, mo, io, rtol=1e-9):
    """a query about a tensor that was never created answers bad-op (model) / rejected (IndexError): same thing"""
    return [(lines[k], m[:300], str(i)[:300]) for k, (m, i) in enumerate(zip(mo, io))
            if not close_line(m, i, rtol) and not (m == 'bad-op' and i == 'rejected' and lines[k].startswith(QUERIES))][:3]


# ---------------------------------------------------------------------------- module programs (`mf …` lines)
class ModImpl:
    """executes the module-forward protocol lines (`mf …`, lean/SynapModel/Drv/ModuleFwd.lean) on the real synapgrad.nn objects:
    every `mf linear / neuron / act / flatten / bn / dropout / seq / seqd` line builds ONE object (`m<k>`), a `seq` line hands the
    very same objects (repetitions included) to nn.Sequential.  Dropout's uniform draws are the ones given on its line (served to
    `np.random.rand` while a forward runs)."""
    def __init__(self):
        self.sg = common.impl()
        from synapgrad import nn as _nn
        self.nn = _nn
        self.ms = []
        self.streams = {}        # id(dropout object) -> [draws, position]
        self.cur = None

    @staticmethod
    def _set(p, vals):
        """parameter values in place (float64); a buffer of another size than the line says is filled cyclically — the `attrs`
        line reports its shape"""
        v = np.array(vals, dtype=np.float64)
        p.data = v.reshape(p.shape) if v.size == int(np.prod(p.shape)) else np.resize(v, p.shape)

    def _new(self, m):
        self.ms.append(m)
        return f'm{len(self.ms) - 1}'

    def _rand(self, *shape):
        st = self.streams[id(self.cur)]
        n = int(np.prod(shape)) if shape else 1
        if st[1] + n > len(st[0]): raise ValueError('no draws left')
        r = np.array(st[0][st[1]:st[1] + n], dtype=np.float64).reshape(shape)
        st[1] += n
        return r

    def run(self, line):
        t = line.split(' ')
        assert t[0] == 'mf'
        c, nn, sg = t[1], self.nn, self.sg
        if c in ('linear', 'neuron'):
            if c == 'linear':
                i, o, hb, wv, bv = int(t[2]), int(t[3]), bool(int(t[4])), t[5], t[6]
                m = nn.Linear(i, o, bias=hb)
            else:
                i, hb, wv, bv = int(t[2]), bool(int(t[3])), t[4], t[5]
                m = nn.Neuron(i, bias=hb)
            self._set(m.weight, common.parse_floats(wv))
            if hb and m.bias is not None: self._set(m.bias, common.parse_floats(bv))
            return self._new(m)
        if c == 'act':
            return self._new({'relu': nn.ReLU, 'tanh': nn.Tanh, 'sigmoid': nn.Sigmoid}[t[2]]())
        if c == 'flatten':
            return self._new(nn.Flatten(int(t[2]), int(t[3])))
        if c == 'bn':
            mo = None if t[3] == '-' else bitsf(t[3])
            m = nn.BatchNorm1d(int(t[2]), eps=bitsf(t[4]), momentum=mo, affine=bool(int(t[5])), track_running_stats=bool(int(t[6])), dtype=np.float64)
            if t[7] != '-': self._set(m.weight, common.parse_floats(t[7]))
            if t[8] != '-': self._set(m.bias, common.parse_floats(t[8]))
            return self._new(m)
        if c == 'dropout':
            m = nn.Dropout(bitsf(t[2]))
            self.streams[id(m)] = [common.parse_floats(t[3]), 0]
            fwd = type(m).forward
            def forward(x, m=m):
                self.cur = m
                return fwd(m, x)
            object.__setattr__(m, 'forward', forward)
            return self._new(m)
        if c == 'seq':
            return self._new(nn.Sequential(*[self.ms[k] for k in common.parse_ints(t[2])]))
        if c == 'seqd':
            from collections import OrderedDict
            return self._new(nn.Sequential(OrderedDict((e.split(':')[0], self.ms[int(e.split(':')[1])]) for e in t[2].split(','))))
        if c == 'train':
            m = self.ms[int(t[2])]
            m.train() if int(t[3]) else m.eval()
            return 'ok'
        if c == 'attrs':
            m = self.ms[int(t[2])]
            return (f"in={m.in_features} out={m.out_features} w={show_ints(m.weight.shape)} "
                    f"b={'-' if m.bias is None else show_ints(m.bias.shape)}")
        if c == 'fwd':
            m = self.ms[int(t[2])]
            a = parse_arr(t[3] + '|' + t[4])
            x = sg.Tensor(a.copy())
            orig = np.random.rand
            np.random.rand = self._rand
            try:
                out = m(x)
            finally:
                np.random.rand = orig
            assert np.array_equal(a, x.data)
            return show_arr(out.data)
        if c == 'state':
            m = self.ms[int(t[2])]
            if isinstance(m, nn.BatchNorm1d):
                C = m.num_features
                rm = m.running_mean.data if m.running_mean is not None else np.zeros(C)
                rv = m.running_var.data if m.running_var is not None else np.ones(C)
                return f'nbt={m.num_batches_tracked} rm={show_arr(rm)} rv={show_arr(rv)}'
            if id(m) in self.streams:
                return f'used={self.streams[id(m)][1]}'
            return '-'
        return 'bad-op'

    def exec(self, line):
        return outcome(lambda: self.run(line))


def run_mf(lines):
    im = ModImpl()
    return [im.exec(l) for l in lines]


def close_tokens(m, i, rtol=1e-9):
    """answers made of space-separated `key=value` tokens: arrays (`shape|data`) at the tolerance, everything else exactly"""
    a, b = m.split(' '), i.split(' ')
    if len(a) != len(b): return False
    for x, y in zip(a, b):
        if x == y: continue
        kx, _, vx = x.rpartition('='); ky, _, vy = y.rpartition('=')
        if kx != ky or '|' not in vx or not close_arr(vx, vy, rtol): return False
    return True
