"""Effect extractor (C11, stage 2): translates
  phase 1  every top-level function of synapgrad/cpu_ops.py and synapgrad/conv_tools.py (the NumPy kernels),
  phase 2  every op wrapper of synapgrad/functional.py and synapgrad/nn/functional.py together with its `backward` closure,
  phase 3  every method of class Tensor and every constructor function of synapgrad/tensor.py
into abstract *effect programs* (lean/SynapModel/Effects.lean) and rewrites lean/SynapModel/Generated/EffectTable.lean
(`effectTable`, `tensorEffectTable`) from /repo's current source on every run.

The judgements (`safe`, `returnsFresh`) and their soundness are Lean (`Props.C11.kernels_never_write_operands`,
`wrappers_never_write_data_or_upstream`, `clone_detach_return_fresh`, `Proofs.Effects.safe_sound`, `returnsFresh_sound`);
this file is the *translator*, which is trusted.  It is therefore written to fail towards "may alias" / "writes".
The tensor-level model of phases 2 and 3 (pseudo-variables, what is protected, the allowed writes) is described next
to the constants below.

variables     every parameter that can hold an array (no annotation, or an annotation that is not
              made of int/float/bool/str/tuple/None only) is a variable `0 … nparams-1` and is
              protected; every local name, every local of an inlined callee / nested function /
              comprehension is a further variable.  OUTPUT_PARAMS lists deliberate output
              parameters (none today).
v = e         `assign v fresh` when the outermost operation of `e` allocates (arithmetic and
              comparison operators on arrays, the NumPy functions of NP_FRESH / methods of M_FRESH;
              these allocation facts are probed on the installed NumPy by `selftest()`), otherwise
              `assign v (alias srcs)` with every variable whose memory the value may share: names,
              subscripts, attributes (`.T`), view-returning functions / methods, tuples / lists /
              comprehensions (union of the elements), conditional expressions and `or`/`and`
              (union), `astype(copy=…)`, `np.array(copy=…)`, `np.asarray`, `as_strided`, …
containers    lists/tuples are not arrays: `[x] * 3` or `t + (x,)` do not copy `x`, and `l[0] = x`
              stores a reference.  Variables (transitively) assigned from displays, comprehensions,
              `list()/tuple()/zip()…`, `np.split`… are *container-tainted*; operators on tainted
              operands alias, and stores into tainted variables add the stored value's sources.
writes        `x += …`, `x[i] = …`, `x[i] += …`, `x.attr = …`, `del x[i]`, `out=` keywords and
              positional `out` arguments, `np.<ufunc>.at(x, …)`, np.put/put_along_axis/place/copyto/
              fill_diagonal/putmask, x.fill/sort/resize/put/itemset/partition/setfield/byteswap and the
              list mutators: `write` on every variable the target expression may share memory with.
calls         functions of the two analysed modules are *inlined* (callee locals renamed per call
              site, parameters bound by `alias`, the result is the union of the `return`
              expressions); recursion / depth > MAX_DEPTH / star-arguments fall back to "result may
              alias every argument, no write" which is justified by the table theorem itself (every
              table member is proved not to write its parameters).  Known-pure NumPy / builtin
              functions: as listed.  ANY OTHER CALL: result aliases every argument and receiver AND
              every argument and receiver is written.
unsupported   `global`, `yield`, `await`, classes, `exec/eval/setattr/…`: every parameter is written
              (the kernel is reported unsafe).
control flow  ignored: the Lean semantics runs the statements in any order, any number of times.

Assumptions (part of the trusted base): array parameters hold `numpy.ndarray` objects (not
subclasses overriding operators); parameters annotated int/float/bool/str/tuple hold immutable
values; NumPy behaves as listed in the tables below (probed by `selftest`)."""
import ast, os, re, sys
import common
import extract as _ex

MODULES = ('synapgrad/cpu_ops.py', 'synapgrad/conv_tools.py')                  # phase 1: the NumPy kernels (every parameter protected)
WRAPPER_MODULES = ('synapgrad/functional.py', 'synapgrad/nn/functional.py')     # phase 2: op wrappers and their `backward` closures
TENSOR_MODULES = ('synapgrad/tensor.py',)                                      # phase 3: class Tensor and the constructors
HELPER_MODULES = ('synapgrad/utils.py',)                                       # inlined where called, not table members
ALL_MODULES = MODULES + WRAPPER_MODULES + TENSOR_MODULES + HELPER_MODULES

# ---- the tensor-level model (phases 2 and 3) -----------------------------------------------------------------------
# Every object-valued variable `t` has pseudo-variables `t.data` (the array) and `t._grad` (the gradient buffer).  For a parameter `t` of a wrapper / method:
#   t, t.data   PROTECTED   (operands and targets: neither the array object nor its memory may be modified)
#   t._grad     not protected: `t._grad += g` is the documented accumulation of backward
#   <upstream>  PROTECTED   one extra parameter per kernel: the gradient buffer the engine has stored on the *result*
#               (`out._grad`) when the closure runs; for the root it is the copy of the caller's gradient
# What the property allows to change tensor data in place (everything else is judged):
#   * accumulation into / zeroing of gradient buffers: `x._grad += …`, `zero_()`, `zero_grad()`
#   * batch-norm running statistics in training: DATA_REBIND_ALLOWED (a re-binding of `.data`, no buffer is written)
#   * optimizer `step`, initialisers `nn.init.*_` : other modules, not analysed here
#   * flags and bookkeeping (`requires_grad`, `retain_grad()`, `grad_fn`, names…): TENSOR_META_ATTRS, not data
# Rules specific to the pseudo-variables:
#   * `t._grad = e` / `t.grad = e` (re-binding) additionally emits `write t._grad`: some later closure will accumulate into
#     whatever `t._grad` is bound to, so a re-binding to anything that may share memory with an operand's data or with the
#     upstream gradient is a violation (the statements of all closures are merged through this one write).
#   * `t.data = e` on anything but DATA_REBIND_ALLOWED emits `write t.data` (the operand's data changes without a buffer write)
#   * `Tensor(d, children=c)`: a new object r with r.data ∈ {d, fresh}, r._grad = <upstream> (only when `children` is given: a
#     result; a tensor built without children starts with `_grad = None`), children recorded in `<children>`; if d is itself a
#     tensor (copy constructor) r shares its fields.  `t.grad` (getter) is a new tensor whose `.data` IS `t._grad`.
#     (checked against tensor.py by `check_tensor_model`)
#   * `t.grad_fn()` / `node.grad_fn()` runs a backward closure: it writes `_grad` buffers of the tensors reachable from the
#     receiver and nothing else — which is what the table theorem proves for every closure of phase 2.
FIELDS = ('data', '_grad')
# `t._children`: for a parameter (or anything derived from one) the object stands for the whole graph it was computed from;
# for tensors constructed inside the kernel the children go to one variable `<children>` that every `._children` read includes
TENSOR_SCALAR_ATTRS = {'requires_grad', '_requires_grad', 'device', 'is_leaf', 'name', '_name', '_operation', '_retain_grad',
                       'is_floating_point', 'is_initialized', '_initialized'}
TENSOR_META_ATTRS = {'_requires_grad', 'requires_grad', '_retain_grad', '_name', 'name', 'grad_fn', '_grad_fn', '_operation',
                     '_current_idx', 'device', '_initialized', 'prev'}
DATA_REBIND_ALLOWED = {('batch_norm', 'running_mean'), ('batch_norm', 'running_var')}
# functions whose result must be storage independent of everything they were given (property: "clone() and detach() return
# storage independent of their source"); pinned by Props.C11.clone_detach_return_fresh
FRESH_RESULTS = ('clone_forward', 'clone', 'Tensor.clone', 'Tensor.detach')
# not operations on tensor data: drawing / printing (they import matplotlib / graphviz helpers)
NOT_ANALYSED = {'Tensor.draw_graph', 'Tensor.__repr__', 'Tensor.__str__', 'lazy_import',
                # `t.grad = g` stores `g.data` itself as the gradient buffer (deliberate sharing requested by the caller, as in
                # PyTorch): as a kernel of its own it violates the re-binding rule by design; it is inlined where the library
                # calls it (`zero_`: a fresh array) and reported in the summary
                'Tensor.grad.setter'}
OUTPUT_PARAMS = {}            # {'function name': ['parameter', …]} — deliberate output parameters: none
# parameters that hold a *sequence of arrays* although they are annotated `np.ndarray` (the wrappers in functional.py pass
# `[t.data for t in x]`): operators on them are list operators, which keep references to the elements
SEQUENCE_PARAMS = {'concat_forward': ['a'], 'stack_forward': ['a']}
MAX_DEPTH = 6

SCALAR_ANN = {'int', 'float', 'bool', 'str', 'tuple', 'None', 'complex', 'bytes', 'Tuple', 'Optional', 'Union', 'typing'}
SCALAR_ATTRS = {'shape', 'ndim', 'size', 'dtype', 'strides', 'itemsize', 'nbytes', 'flags'}

UFUNC1 = {'exp', 'exp2', 'expm1', 'log', 'log2', 'log10', 'log1p', 'sqrt', 'cbrt', 'square', 'abs', 'absolute', 'fabs', 'sign',
          'negative', 'positive', 'reciprocal', 'tanh', 'sinh', 'cosh', 'sin', 'cos', 'tan', 'arcsin', 'arccos', 'arctan',
          'arcsinh', 'arccosh', 'arctanh', 'floor', 'ceil', 'trunc', 'rint', 'isnan', 'isinf', 'isfinite', 'logical_not',
          'invert', 'signbit', 'deg2rad', 'rad2deg'}
UFUNC2 = {'add', 'subtract', 'multiply', 'divide', 'true_divide', 'floor_divide', 'power', 'float_power', 'mod', 'remainder',
          'fmod', 'maximum', 'minimum', 'fmax', 'fmin', 'greater', 'greater_equal', 'less', 'less_equal', 'equal', 'not_equal',
          'logical_and', 'logical_or', 'logical_xor', 'arctan2', 'hypot', 'bitwise_and', 'bitwise_or', 'bitwise_xor',
          'left_shift', 'right_shift', 'matmul', 'copysign', 'logaddexp', 'heaviside'}
REDUCE = {'sum', 'prod', 'mean', 'var', 'std', 'max', 'min', 'amax', 'amin', 'argmax', 'argmin', 'all', 'any', 'cumsum',
          'cumprod', 'nansum', 'nanmean', 'nanmax', 'nanmin', 'median', 'average', 'count_nonzero', 'ptp'}
# NumPy functions whose result never shares memory with an argument: name -> number of leading positional
# arguments that are certainly not `out` (further positional arguments are treated as written); None = any
NP_FRESH = {**{f: 1 for f in UFUNC1}, **{f: 2 for f in UFUNC2}, **{f: 2 for f in REDUCE},
            'zeros': None, 'ones': None, 'empty': None, 'full': None, 'zeros_like': None, 'ones_like': None,
            'empty_like': None, 'full_like': None, 'arange': None, 'linspace': None, 'eye': None, 'identity': None,
            'where': 3, 'dot': 2, 'vdot': 2, 'inner': 2, 'outer': 2, 'tensordot': 3, 'concatenate': 2, 'stack': 2,
            'vstack': None, 'hstack': None, 'dstack': None, 'column_stack': None, 'pad': None, 'copy': None, 'clip': 3,
            'round': 2, 'around': 2, 'repeat': None, 'tile': None, 'roll': None, 'sort': None, 'argsort': None,
            'unique': None, 'diff': None, 'cross': None, 'kron': None, 'trace': 4, 'tril': None, 'triu': None,
            'nonzero': None, 'argwhere': None, 'unravel_index': None, 'ravel_multi_index': None, 'take': 3,
            'take_along_axis': None, 'isclose': None, 'allclose': None, 'array_equal': None, 'float64': None,
            'float32': None, 'int64': None, 'int32': None, 'bool_': None,
            'random.rand': None, 'random.randn': None, 'random.normal': None, 'random.randint': None, 'random.uniform': None}
# NumPy functions whose result may share memory with (or be) an argument and that write nothing
NP_ALIAS = {'reshape', 'ravel', 'squeeze', 'expand_dims', 'moveaxis', 'swapaxes', 'rollaxis', 'transpose', 'broadcast_to',
            'broadcast_arrays', 'atleast_1d', 'atleast_2d', 'atleast_3d', 'asarray', 'asanyarray', 'ascontiguousarray',
            'asfortranarray', 'require', 'split', 'array_split', 'hsplit', 'vsplit', 'dsplit', 'flip', 'fliplr', 'flipud',
            'rot90', 'diagonal', 'diag', 'real', 'imag', 'einsum', 'meshgrid', 'frombuffer', 'conj', 'conjugate',
            'lib.stride_tricks.sliding_window_view', 'lib.stride_tricks.as_strided', 'permute_dims', 'matrix_transpose'}
NP_LISTY = {'split', 'array_split', 'hsplit', 'vsplit', 'dsplit', 'broadcast_arrays', 'meshgrid', 'atleast_1d', 'atleast_2d',
            'atleast_3d', 'nonzero', 'unravel_index', 'where'}
# NumPy functions that read their arguments and return an immutable / unrelated value
NP_SCALAR = {'ndindex', 'ndenumerate', 'broadcast_shapes', 'shape', 'ndim', 'size', 'isscalar', 'issubdtype', 'dtype',
             'result_type', 'iinfo', 'finfo', 'can_cast', 'shares_memory', 'may_share_memory', 'errstate', 'promote_types'}
NP_WRITERS = {'put', 'put_along_axis', 'place', 'copyto', 'fill_diagonal', 'putmask', 'random.shuffle'}
UFUNC_PURE_METHODS = {'reduce', 'accumulate', 'outer', 'reduceat'}

M_FRESH = {'sum': 1, 'mean': 1, 'var': 1, 'std': 1, 'prod': 1, 'max': 1, 'min': 1, 'argmax': 1, 'argmin': 1, 'all': 1, 'any': 1,
           'cumsum': 1, 'cumprod': 1, 'dot': 1, 'flatten': None, 'tolist': None, 'item': None, 'round': 1, 'clip': 2,
           'repeat': None, 'take': 2, 'nonzero': None, 'tobytes': None, 'argsort': None, 'trace': 3, 'ptp': 1,
           'format': None, 'join': None, 'startswith': None, 'endswith': None, 'lower': None, 'upper': None,
           'strip': None, 'index': None, 'count': None}
M_ALIAS = {'reshape', 'ravel', 'squeeze', 'transpose', 'swapaxes', 'view', 'diagonal', 'conj', 'conjugate', 'newbyteorder',
           'getfield', 'get', 'values', 'keys', 'items', '__getitem__'}
M_WRITERS = {'fill', 'sort', 'resize', 'put', 'itemset', 'partition', 'setfield', 'byteswap', '__setitem__', '__delitem__',
             '__iadd__', '__isub__', '__imul__', '__itruediv__', '__ifloordiv__', '__ipow__', '__imod__', '__imatmul__',
             '__iand__', '__ior__', '__ixor__', 'pop', 'popitem', 'remove', 'clear', 'reverse'}
M_CONTAINER_ADD = {'append', 'extend', 'insert', 'add', 'update', 'setdefault', 'appendleft'}
M_NOOP = {'setflags'}
# methods that no ndarray has: they modify a container object (a list / set / dict), never array memory; what they can
# violate is the caller's container, so they count as a write of the parameters whose container the receiver may be
M_CONTAINER_ONLY = {'pop', 'popitem', 'remove', 'clear', 'reverse', 'append', 'extend', 'insert', 'add', 'update', 'setdefault', 'appendleft'}
PURE_CLASSES = {'BackwardFunction'}            # constructors of analysed modules that only store their arguments

B_SCALAR = {'int', 'float', 'bool', 'str', 'repr', 'len', 'range', 'isinstance', 'issubclass', 'type', 'print', 'hasattr', 'id',
            'hash', 'abs', 'round', 'callable', 'ord', 'chr', 'divmod', 'pow', 'complex', 'bytes', 'format'}
B_ALIAS = {'list', 'tuple', 'zip', 'enumerate', 'reversed', 'sorted', 'iter', 'next', 'set', 'frozenset', 'dict', 'max', 'min',
           'slice', 'any', 'all', 'sum', 'ValueError', 'RuntimeError', 'TypeError', 'IndexError', 'KeyError', 'AssertionError',
           'NotImplementedError', 'Exception'}
B_ALIAS_CONT = {'list', 'tuple', 'zip', 'enumerate', 'reversed', 'sorted', 'iter', 'set', 'frozenset', 'dict'}
B_UNSUPPORTED = {'exec', 'eval', 'setattr', 'delattr', 'globals', 'locals', 'vars', 'compile', '__import__'}


def is_scalar_annotation(ann):
    if ann is None:
        return False
    s = ann.value if isinstance(ann, ast.Constant) and isinstance(ann.value, str) else ast.unparse(ann)
    toks = re.findall(r'[A-Za-z_]\w*', s)
    return bool(toks) and all(t in SCALAR_ANN for t in toks)


def is_list_annotation(ann):
    if ann is None:
        return False
    s = ann.value if isinstance(ann, ast.Constant) and isinstance(ann.value, str) else ast.unparse(ann)
    return bool(re.search(r'\b(list|List|dict|Dict|set|Set|Sequence|Iterable)\b', s))


class Val:
    """abstract value of an expression: the variables it may share memory with; whether it may be a container"""
    __slots__ = ('srcs', 'cont', 'ident')
    def __init__(self, srcs=(), cont=0, ident=()):
        # cont: nesting depth of containers around the arrays: 0 = an array or a scalar, 1 = a list / tuple of arrays,
        # 2 = a list of those, DEEP = unknown.  A larger depth is always the more conservative answer.
        self.srcs, self.cont = frozenset(srcs), min(int(cont), DEEP)
        # ident: the parameters whose *container object* (the caller's list / dict itself, not a new list holding the same
        # elements) the value may be — what `append` / `pop` / `clear` … modify
        self.ident = frozenset(ident)
    def __or__(self, o):
        return Val(self.srcs | o.srcs, max(self.cont, o.cont), self.ident | o.ident)
    def wrap(self, least=0):
        """a container holding such values"""
        return Val(self.srcs, max(self.cont, least) + 1)
    def elem(self):
        """an element taken out of such a container"""
        return Val(self.srcs, self.cont if self.cont >= DEEP else max(self.cont - 1, 0), self.ident)

DEEP = 3
NOTHING = Val()


class Frame:
    def __init__(self, parent=None):
        self.names = {}          # name -> variable
        self.scalars = set()     # parameter names known to hold immutable scalars / tuples
        self.parent = parent
        self.ret = None
        self.nested = {}         # name -> (param variables in order, param names, vararg var, kwarg var, ret var)

    def lookup(self, name):
        f = self
        while f is not None:
            if name in f.nested:
                return ('nested', f.nested[name])
            if name in f.names:
                return ('var', f.names[name])
            if name in f.scalars:
                return ('scalar', None)
            f = f.parent
        return None


def bound_names(fn_body, args=None):
    """every name bound in a function body (not descending into nested function definitions / lambdas / classes,
    but including comprehension targets and walrus targets)"""
    out = []
    def tgt(t):
        if isinstance(t, ast.Name): out.append(t.id)
        elif isinstance(t, (ast.Tuple, ast.List)):
            for e in t.elts: tgt(e)
        elif isinstance(t, ast.Starred): tgt(t.value)
    def walk(n):
        if isinstance(n, (ast.FunctionDef, ast.AsyncFunctionDef)):
            out.append(n.name); return
        if isinstance(n, (ast.Lambda, ast.ClassDef)):
            if isinstance(n, ast.ClassDef): out.append(n.name)
            return
        if isinstance(n, ast.Assign):
            for t in n.targets: tgt(t)
        elif isinstance(n, (ast.AugAssign, ast.AnnAssign)): tgt(n.target)
        elif isinstance(n, (ast.For, ast.AsyncFor)): tgt(n.target)
        elif isinstance(n, ast.comprehension): tgt(n.target)
        elif isinstance(n, ast.NamedExpr): tgt(n.target)
        elif isinstance(n, (ast.With, ast.AsyncWith)):
            for it in n.items:
                if it.optional_vars is not None: tgt(it.optional_vars)
        elif isinstance(n, ast.ExceptHandler) and n.name: out.append(n.name)
        elif isinstance(n, (ast.Import, ast.ImportFrom)):
            for a in n.names: out.append((a.asname or a.name).split('.')[0])
        elif isinstance(n, ast.MatchAs) and n.name: out.append(n.name)
        elif isinstance(n, ast.MatchStar) and n.name: out.append(n.name)
        for ch in ast.iter_child_nodes(n): walk(ch)
    for s in fn_body: walk(s)
    seen, res = set(), []
    for x in out:
        if x not in seen:
            seen.add(x); res.append(x)
    return res


class Context:
    """the analysed modules: their top-level functions and the names under which NumPy is imported"""
    def __init__(self, root):
        self.funcs = {}       # rel -> {name: FunctionDef}
        self.np_names = {}    # rel -> set of names bound to the numpy module
        self.imported = {}    # rel -> {local name: (rel of defining module, name)}
        self.other_toplevel = {}
        self.root = root
        self.classes = {}     # rel -> {class name: {method name: FunctionDef}}
        self.modalias = {}    # rel -> {local name: rel of the analysed module it is bound to}
        mods = [m for m in ALL_MODULES if os.path.exists(os.path.join(root, m))]
        self.present = mods
        dotted = {m[:-3].replace('/', '.'): m for m in ALL_MODULES}
        for rel in mods:
            tree = ast.parse(open(os.path.join(root, rel)).read())
            self.funcs[rel] = {n.name: n for n in tree.body if isinstance(n, ast.FunctionDef)}
            self.classes[rel] = {n.name: {m.name: m for m in n.body if isinstance(m, ast.FunctionDef)} for n in tree.body if isinstance(n, ast.ClassDef)}
            self.modalias[rel] = {}
            for n in ast.walk(tree):
                # `from synapgrad import cpu_ops`, `from . import functional as F`, `import synapgrad.functional as F`,
                # `F = importlib.import_module("synapgrad.functional")`
                if isinstance(n, ast.ImportFrom):
                    base = (n.module or '') if n.level == 0 else '.'.join(rel[:-3].split('/')[:-n.level] + ([n.module] if n.module else []))
                    for a in n.names:
                        if (base + '.' + a.name) in dotted:
                            self.modalias[rel][a.asname or a.name] = dotted[base + '.' + a.name]
                if isinstance(n, ast.Import):
                    for a in n.names:
                        if a.name in dotted and a.asname:
                            self.modalias[rel][a.asname] = dotted[a.name]
                if isinstance(n, ast.Assign) and len(n.targets) == 1 and isinstance(n.targets[0], ast.Name) and isinstance(n.value, ast.Call) \
                        and ast.unparse(n.value.func) == 'importlib.import_module' and n.value.args and isinstance(n.value.args[0], ast.Constant) \
                        and n.value.args[0].value in dotted:
                    self.modalias[rel][n.targets[0].id] = dotted[n.value.args[0].value]
            self.np_names[rel] = set()
            self.imported[rel] = {}
            self.other_toplevel[rel] = [f'{type(n).__name__} {n.name}' for n in tree.body if isinstance(n, (ast.ClassDef, ast.AsyncFunctionDef))
                                        and not (rel in TENSOR_MODULES and n.name == 'Tensor')]
            # module-level names bound by anything but `import numpy …` / `def`: a builtin or the NumPy alias rebound there is not trusted
            self.rebound = getattr(self, 'rebound', {})
            mod_bound = bound_names([n for n in tree.body if not isinstance(n, (ast.FunctionDef, ast.Import, ast.ImportFrom, ast.ClassDef))])
            mod_bound = [b for b in mod_bound if b not in self.modalias[rel]]
            dup = [n.name for n in tree.body if isinstance(n, ast.FunctionDef)]
            self.rebound[rel] = set(mod_bound) | {d for d in dup if dup.count(d) > 1}
            for n in tree.body:
                if isinstance(n, ast.Import):
                    for a in n.names:
                        if a.name == 'numpy': self.np_names[rel].add(a.asname or 'numpy')
                if isinstance(n, ast.ImportFrom) and n.module:
                    for a in n.names:
                        self.imported[rel][a.asname or a.name] = (n.module, a.name)

    def resolve(self, rel, name):
        """a call `name(…)` inside module `rel`: the (rel, FunctionDef) of an analysed function, or None"""
        if name in self.funcs[rel]:
            return rel, self.funcs[rel][name]
        if name in self.imported[rel]:
            mod, orig = self.imported[rel][name]
            for r in self.present:
                if r[:-3].replace('/', '.') == mod and orig in self.funcs[r]:
                    return r, self.funcs[r][orig]
        return None

    def resolve_attr(self, rel, alias, name):
        """a call `alias.name(…)` where `alias` is bound to an analysed module"""
        r = self.modalias[rel].get(alias)
        if r is not None and r in self.funcs and name in self.funcs[r]:
            return r, self.funcs[r][name]
        return None

    def is_tensor_class(self, rel, name):
        if name != 'Tensor':
            return False
        if name in self.classes.get(rel, {}):
            return rel in TENSOR_MODULES
        return self.imported[rel].get(name, ('', ''))[0] == 'synapgrad.tensor'

    def tensor_methods(self):
        for r in TENSOR_MODULES:
            if r in self.classes and 'Tensor' in self.classes[r]:
                return r, self.classes[r]['Tensor']
        return None, {}


def vkey(v):
    return (1, str(v)) if isinstance(v, tuple) else (0, v)


def vdepth(v):
    return 1 + vdepth(v[0]) if isinstance(v, tuple) else 0


class KernelTranslator:
    def __init__(self, ctx, rel, fn, carry, qualname=None, self_class=None):
        self.ctx, self.rel0, self.fn = ctx, rel, fn
        self.qualname = qualname or fn.name
        self.phase = 1 if rel in MODULES else 2 if rel in WRAPPER_MODULES else 3
        self.varnames = []
        self.stmts = []            # ('assign', v, frozenset | None, line) / ('write', v, line)
        # variables: main variables are ints (numbered in order of creation), pseudo-variables are (base, field) pairs
        self.cont_in = dict(carry.get('cont', {}))
        self.cont = dict(self.cont_in)
        self.fielded_in = set(carry.get('fielded', ()))      # object-valued variables whose fields are materialised
        self.fielded = set(self.fielded_in)
        self.rebound_in = set(carry.get('rebound', ()))      # fields that some statement re-binds (`t.data = …`): links go both ways
        self.rebound = set(self.rebound_in)
        self.ident_in = {k: set(v) for k, v in carry.get('ident', {}).items()}
        self.ident = {k: set(v) for k, v in self.ident_in.items()}
        self.fieldvars = set()
        self.upstream = None
        self.objparams = set()
        self.unknown, self.unsupported, self.fallbacks, self.inlined = [], [], 0, 0
        self.wild = []
        self.stack = []
        self.params = []

    # ------------------------------------------------------------------ variables and statements
    def newvar(self, name):
        self.varnames.append(name)
        return len(self.varnames) - 1

    def carry(self):
        return {'cont': dict(self.cont), 'fielded': set(self.fielded), 'rebound': set(self.rebound),
                'ident': {k: set(v) for k, v in self.ident.items() if v}}

    def can_have_fields(self, v):
        return not isinstance(v, tuple)

    def is_fielded(self, v):
        return v in self.fielded or v in self.fielded_in

    def field(self, v, f, line=0):
        """the pseudo-variable `v.f`"""
        if not self.can_have_fields(v):
            return v                              # `.data` of an array is (a view of) the array
        self.fielded.add(v)
        fv = (v, f)
        self.fieldvars.add(fv)
        return fv

    def link(self, v, u, line, seen=None):
        """`v` may be the object `u`: their fields are the same cells"""
        seen = set() if seen is None else seen
        if v == u or (v, u) in seen or not self.can_have_fields(v) or not self.can_have_fields(u):
            return
        seen.add((v, u))
        if not self.is_fielded(v):
            return                                # demand-driven: only the fields somebody reads or writes are materialised
        for f in FIELDS:
            fv, fu = self.field(v, f), self.field(u, f)
            if fv != fu:
                self.raw_assign(fv, [fu], line)
                if f in self.rebound or f in self.rebound_in:
                    self.raw_assign(fu, [fv], line)

    def raw_assign(self, v, srcs, line):
        self.stmts.append(('assign', v, frozenset(srcs) if srcs else None, line))

    def assign(self, v, val, line):
        self.raw_assign(v, val.srcs, line)
        self.taint(v, val.cont)
        if val.ident:
            self.ident.setdefault(v, set()).update(val.ident)
        for u in sorted(val.srcs, key=vkey):
            self.link(v, u, line)

    def write(self, val, line):
        for v in sorted(val.srcs, key=vkey):
            self.stmts.append(('write', v, line))

    def write_deep(self, val, line):
        """an unknown callee may do anything to the objects it can reach: they and their arrays are written"""
        self.write(val, line)
        if self.phase > 1:
            for v in sorted(val.srcs, key=vkey):
                if self.can_have_fields(v):
                    for f in ('data', '_grad'):
                        self.stmts.append(('write', self.field(v, f), line))

    def taint(self, v, depth):
        if depth > self.cont.get(v, 0):
            self.cont[v] = min(depth, DEEP)

    def is_cont(self, v):
        if isinstance(v, tuple):
            return 0
        return max(self.cont_in.get(v, 0), self.cont.get(v, 0))

    def unsupported_construct(self, node, what):
        self.unsupported.append(f'{what} (line {getattr(node, "lineno", 0)})')
        for p in self.params:
            if p != self.upstream and not (isinstance(p, tuple) and p[1] == '_grad'):
                self.stmts.append(('write', p, getattr(node, 'lineno', 0)))

    # ------------------------------------------------------------------ frames
    def top(self):
        fn = self.fn
        fr = Frame()
        a = fn.args
        self.rel = self.rel0
        out_params = OUTPUT_PARAMS.get(fn.name, [])
        self.protected = []
        allp = list(a.posonlyargs) + list(a.args) + ([a.vararg] if a.vararg else []) + list(a.kwonlyargs) + ([a.kwarg] if a.kwarg else [])
        for p in allp:
            if is_scalar_annotation(p.annotation) and p is not a.vararg and p is not a.kwarg:
                fr.scalars.add(p.arg)
            else:
                v = self.newvar(p.arg)
                fr.names[p.arg] = v
                self.params.append(v)
                ann = p.annotation
                ann_s = '' if ann is None else (ann.value if isinstance(ann, ast.Constant) and isinstance(ann.value, str) else ast.unparse(ann))
                is_tensor = self.phase > 1 and ('Tensor' in ann_s or (self.phase == 3 and p.arg == 'self' and self.qualname.startswith('Tensor.')))
                if p.arg not in out_params and not is_tensor:
                    self.protected.append(v)         # a Tensor object is not array memory: its `.data` is what is protected
                if self.phase > 1:
                    self.objparams.add(v)
                    self.fielded.add(v)
                    for f in ('data', '_grad'):
                        self.fieldvars.add((v, f))
                        self.params.append((v, f))
                    self.protected.append((v, 'data'))
                if is_list_annotation(p.annotation) or p is a.vararg or p is a.kwarg or p.arg in SEQUENCE_PARAMS.get(fn.name, []):
                    self.taint(v, DEEP)
        if self.phase > 1:
            self.upstream = self.newvar('<upstream>')
            self.params.append(self.upstream)
            self.protected.append(self.upstream)
        self.nparams = len(self.params)
        for d in list(a.defaults) + [d for d in a.kw_defaults if d is not None]:
            self.ev(d, fr)
        if [d for d in fn.decorator_list if not (self.phase == 3 and (ast.unparse(d) == 'property' or ast.unparse(d).endswith('.setter')))]:
            self.unsupported_construct(fn, 'decorated function')
        fr.ret = self.newvar('<ret>')
        self.result = fr.ret
        self.kids = None
        if self.phase > 1:
            self.kids = self.newvar('<children>')
            self.result = self.newvar('<result array>')
            self.fielded.add(fr.ret)
        for n in bound_names(fn.body):
            if n not in fr.names and n not in self.ctx.modalias[self.rel0]:
                fr.scalars.discard(n)            # a rebound scalar parameter becomes an ordinary variable
                fr.names[n] = self.newvar(n)
        self.stack.append((self.rel0, fn.name))
        self.rel = self.rel0
        self.block(fn.body, fr)
        self.stack.pop()
        if self.phase > 1:
            self.raw_assign(self.result, [fr.ret, self.field(fr.ret, 'data')], 0)
        # wildcard variables (parameters of escaping lambdas / nested functions) may be anything
        everything = Val(list(range(len(self.varnames))) + sorted(self.fieldvars, key=vkey), DEEP)
        for w in self.wild:
            self.assign(w, everything, 0)
        return fr

    def callee_frame(self, fn, label, parent=None, rel=None):
        """frame of an inlined callee or nested function: every parameter is a variable"""
        fr = Frame(parent)
        a = fn.args
        pos = [p.arg for p in list(a.posonlyargs) + list(a.args)]
        for p in list(a.posonlyargs) + list(a.args) + list(a.kwonlyargs):
            fr.names[p.arg] = self.newvar(f'{label}.{p.arg}')
            if is_list_annotation(p.annotation):
                self.taint(fr.names[p.arg], DEEP)
        va = kw = None
        if a.vararg:
            va = fr.names[a.vararg.arg] = self.newvar(f'{label}.*{a.vararg.arg}'); self.taint(va, DEEP)
        if a.kwarg:
            kw = fr.names[a.kwarg.arg] = self.newvar(f'{label}.**{a.kwarg.arg}'); self.taint(kw, DEEP)
        fr.ret = self.newvar(f'{label}.<ret>')
        body = fn.body if isinstance(fn.body, list) else [fn.body]
        for n in bound_names(body):
            if n not in fr.names and n not in self.ctx.modalias[rel or self.rel]:
                fr.names[n] = self.newvar(f'{label}.{n}')
        return fr, pos, [p.arg for p in a.kwonlyargs], va, kw

    def bind_call(self, call, frame, sig, line):
        """bind the arguments of `call` (already in caller frame `frame`) to the parameters described by sig;
        returns False when the call uses star-arguments (the caller then falls back)"""
        fr, pos, kwonly, va, kw = sig
        if any(isinstance(x, ast.Starred) for x in call.args) or any(k.arg is None for k in call.keywords):
            allv = NOTHING
            for x in call.args: allv = allv | self.ev(x.value if isinstance(x, ast.Starred) else x, frame)
            for k in call.keywords: allv = allv | self.ev(k.value, frame)
            allv = Val(allv.srcs, DEEP)
            for n in pos + kwonly:
                self.assign(fr.names[n], allv, line)
            if va is not None: self.assign(va, allv, line)
            if kw is not None: self.assign(kw, allv, line)
            return
        for i, x in enumerate(call.args):
            v = self.ev(x, frame)
            if i < len(pos): self.assign(fr.names[pos[i]], v, line)
            elif va is not None: self.assign(va, v.wrap(), line)
        for k in call.keywords:
            v = self.ev(k.value, frame)
            if k.arg in fr.names and (k.arg in pos or k.arg in kwonly): self.assign(fr.names[k.arg], v, line)
            elif kw is not None: self.assign(kw, v.wrap(), line)

    def tensor_ctor(self, c, fr):
        """`Tensor(d, children=…, …)`: a new object; see the header for the model"""
        line = c.lineno
        allv, pos, kws = self.args_val(c, fr)
        d = pos[0] if pos else kws.get('data', NOTHING)
        ch = kws.get('children', pos[1] if len(pos) > 1 else NOTHING)
        r = self.newvar(f'<Tensor@{line}>')
        self.raw_assign(r, None, line)
        self.fielded.add(r)
        arrays = [x for x in d.srcs]
        self.raw_assign(self.field(r, 'data'), arrays, line)          # np.asarray / astype of the argument: the argument or a copy
        self.raw_assign(self.field(r, 'data'), None, line)
        has_children = 'children' in kws or len(pos) > 1
        # a tensor built with `children=` is a *result*: when its closure runs the engine has stored the upstream gradient on it
        self.raw_assign(self.field(r, '_grad'), [self.upstream] if has_children else None, line)
        self.assign(self.kids, ch, line)
        for x in sorted(d.srcs, key=vkey):                                # copy constructor: `self.__dict__.update(tensor.__dict__)`
            if self.can_have_fields(x) and (self.is_fielded(x)):
                self.link(r, x, line)
        return Val([r], 0)

    def inline(self, call, frame, rel, fn, self_val=None):
        line = call.lineno
        if (rel, fn.name) in self.stack or len(self.stack) > MAX_DEPTH:
            # recursion / depth: "result may alias every argument, no write" (justified by the table theorem)
            self.fallbacks += 1
            allv = NOTHING
            for x in call.args: allv = allv | self.ev(x.value if isinstance(x, ast.Starred) else x, frame)
            for k in call.keywords: allv = allv | self.ev(k.value, frame)
            return Val(allv.srcs, DEEP)
        self.inlined += 1
        label = f'{fn.name}@{line}' + (f'#{len(self.varnames)}')
        sig = self.callee_frame(fn, label, rel=rel)
        fr = sig[0]
        for d in list(fn.args.defaults) + [d for d in fn.args.kw_defaults if d is not None]:
            self.ev(d, Frame())
        if self_val is not None and sig[1]:
            self.assign(fr.names[sig[1][0]], self_val, line)
            sig = (sig[0], sig[1][1:]) + tuple(sig[2:])
        self.bind_call(call, frame, sig, line)
        if fn.decorator_list and self_val is None:
            self.unsupported_construct(fn, 'decorated function')
        saved = self.rel
        self.rel = rel
        self.stack.append((rel, fn.name))
        self.block(fn.body, fr)
        self.stack.pop()
        self.rel = saved
        return Val([fr.ret], self.is_cont(fr.ret))

    def nested_def(self, fn, frame):
        """a nested function definition / lambda: translated once into the same statement set"""
        label = f'{getattr(fn, "name", "<lambda>")}@{fn.lineno}'
        fr, pos, kwonly, va, kw = self.callee_frame(fn, label, parent=frame)
        for d in list(fn.args.defaults) + [d for d in fn.args.kw_defaults if d is not None]:
            self.ev(d, frame)
        if isinstance(fn, ast.Lambda):
            self.assign(fr.ret, self.ev(fn.body, fr), fn.lineno)
        else:
            if fn.decorator_list:
                self.unsupported_construct(fn, 'decorated nested function')
            self.block(fn.body, fr)
        return (fr, pos, kwonly, va, kw)

    def escape(self, sig):
        """the function object is used other than by a direct call: its parameters may be anything"""
        fr, pos, kwonly, va, kw = sig
        for n in pos + kwonly:
            self.wild.append(fr.names[n])
        for v in (va, kw):
            if v is not None: self.wild.append(v)

    # ------------------------------------------------------------------ statements
    def block(self, body, fr):
        for s in body:
            self.stmt(s, fr)

    def store(self, target, val, fr, line, aug=False, op=None):
        """`target = <val>` (aug: `target op= <val>`)"""
        if isinstance(target, ast.Name):
            r = fr.lookup(target.id)
            if r is None or r[0] != 'var':
                if r is not None and r[0] == 'scalar':
                    return                       # immutable scalar parameter rebound by `op=`: no variable needed (see top())
                self.unsupported_construct(target, f'assignment to non-local name {target.id}')
                return
            v = r[1]
            if aug:
                self.write(Val([v]), line)
                extra = val if (self.is_cont(v) or val.cont) else NOTHING
                self.assign(v, Val([v]) | extra, line)
            else:
                self.assign(v, val, line)
        elif isinstance(target, (ast.Tuple, ast.List)):
            for e in target.elts:
                self.store(e, val if isinstance(e, ast.Starred) else val.elem(), fr, line, aug, op)
        elif isinstance(target, ast.Starred):
            self.store(target.value, Val(val.srcs, max(val.cont, 1)), fr, line, aug, op)
        elif isinstance(target, ast.Attribute) and self.phase > 1 and (target.attr in FIELDS or target.attr in ('grad', '_children') or target.attr in TENSOR_META_ATTRS):
            base = self.ev(target.value, fr)
            attr = target.attr
            if attr in TENSOR_META_ATTRS:
                return                           # flags and bookkeeping of a tensor: not data (see the header)
            if attr == '_children':
                self.assign(self.kids, val, line)
                return
            f = '_grad' if attr == 'grad' else attr
            v = Val([self.field(x, 'data') for x in val.srcs], 0) if attr == 'grad' else val      # the setter stores `grad.data`
            arrays = [b for b in base.srcs if not self.can_have_fields(b)]
            if arrays:
                self.write(Val(arrays), line)    # an attribute store on an array
            fname = self.stack[-1][1] if self.stack else ''
            tname = target.value.id if isinstance(target.value, ast.Name) else ''
            for b in sorted((b for b in base.srcs if self.can_have_fields(b)), key=vkey):
                fv = self.field(b, f)
                if fv == b:
                    self.write(Val([b]), line); continue
                if aug:
                    self.write(Val([fv]), line)                       # in-place accumulation `t._grad += g` (the field holds an array)
                    continue
                self.rebound.add(f)
                self.raw_assign(fv, list(v.srcs), line)
                if f == '_grad':
                    self.write(Val([fv]), line)                       # a later closure accumulates into whatever it is bound to
                elif f == 'data' and (fname, tname) not in DATA_REBIND_ALLOWED:
                    self.write(Val([fv]), line)                       # the tensor's data changes although no buffer is written
        elif isinstance(target, (ast.Subscript, ast.Attribute)):
            base = self.ev(target.value, fr)
            if isinstance(target, ast.Subscript):
                self.ev(target.slice, fr)
            if not base.srcs and self.base_is_foreign(target.value, fr):
                self.unsupported_construct(target, 'store into an object that is not local')
            self.write(base, line)
            # a store into a container keeps a reference to the stored value.  `c[i] op= e` stores `c[i].__iop__(e)`: the
            # element itself, or the new object `c[i] op e`, which holds references into `e` only when `e` is a container
            # (concatenation) or when op is `+` (a list element extended by the rows of an array)
            keeps = not aug or val.cont or isinstance(op, ast.Add)
            if self.phase > 1:
                self.write_deep(base, line)
            if val.srcs and keeps and (isinstance(target, ast.Attribute) or base.cont or any(self.is_cont(b) for b in base.srcs)):
                for b in sorted(base.srcs, key=vkey):
                    self.assign(b, Val([b]) | val, line)
        else:
            self.unsupported_construct(target, f'assignment target {type(target).__name__}')

    def base_is_foreign(self, e, fr):
        """the innermost name of a store target is a global (module-level object)"""
        while isinstance(e, (ast.Subscript, ast.Attribute, ast.Starred)):
            e = e.value
        if isinstance(e, ast.Name):
            return fr.lookup(e.id) is None
        return False

    def stmt(self, s, fr):
        line = getattr(s, 'lineno', 0)
        if isinstance(s, ast.Assign):
            v = self.ev(s.value, fr)
            for t in s.targets:
                self.store(t, v, fr, line)
        elif isinstance(s, ast.AnnAssign):
            if s.value is not None:
                self.store(s.target, self.ev(s.value, fr), fr, line)
        elif isinstance(s, ast.AugAssign):
            self.store(s.target, self.ev(s.value, fr), fr, line, aug=True, op=s.op)
        elif isinstance(s, ast.Return):
            if s.value is not None:
                self.assign(fr.ret, self.ev(s.value, fr), line)
        elif isinstance(s, ast.Expr):
            self.ev(s.value, fr)
        elif isinstance(s, ast.If) or isinstance(s, ast.While):
            self.ev(s.test, fr); self.block(s.body, fr); self.block(s.orelse, fr)
        elif isinstance(s, ast.For):
            it = self.ev(s.iter, fr)
            self.store(s.target, it.elem(), fr, line)
            self.block(s.body, fr); self.block(s.orelse, fr)
        elif isinstance(s, ast.With):
            for it in s.items:
                v = self.ev(it.context_expr, fr)
                if it.optional_vars is not None:
                    self.store(it.optional_vars, v, fr, line)
            self.block(s.body, fr)
        elif isinstance(s, ast.Try):
            self.block(s.body, fr)
            for h in s.handlers:
                if h.type is not None: self.ev(h.type, fr)
                self.block(h.body, fr)
            self.block(s.orelse, fr); self.block(s.finalbody, fr)
        elif isinstance(s, ast.Raise):
            if s.exc is not None: self.ev(s.exc, fr)
            if s.cause is not None: self.ev(s.cause, fr)
        elif isinstance(s, ast.Assert):
            self.ev(s.test, fr)
            if s.msg is not None: self.ev(s.msg, fr)
        elif isinstance(s, ast.Delete):
            for t in s.targets:
                if self.phase > 1 and isinstance(t, ast.Attribute) and (t.attr in FIELDS or t.attr in TENSOR_META_ATTRS):
                    self.ev(t.value, fr)             # `del node._grad`: the cell is emptied, no array is touched
                elif isinstance(t, (ast.Subscript, ast.Attribute)):
                    self.write(self.ev(t.value, fr), line)
        elif isinstance(s, ast.FunctionDef):
            fr.nested[s.name] = self.nested_def(s, fr)
            # the name is also an ordinary variable of the frame (bound_names): the function object is no array
        elif isinstance(s, (ast.Pass, ast.Break, ast.Continue, ast.Nonlocal)):
            pass
        elif isinstance(s, (ast.Import, ast.ImportFrom)):
            if not all((a.asname or a.name) in self.ctx.modalias[self.rel] for a in s.names):      # `from . import functional as F`
                self.unsupported_construct(s, 'import inside a function')
        else:
            self.unsupported_construct(s, f'statement {type(s).__name__}')

    # ------------------------------------------------------------------ expressions
    def np_callee(self, f, fr):
        """`np.a.b` -> 'a.b' when the chain is rooted at the numpy module (a name that no function and no module-level
        statement rebinds), else None"""
        parts = []
        while isinstance(f, ast.Attribute):
            parts.append(f.attr); f = f.value
        if isinstance(f, ast.Name) and f.id in self.ctx.np_names[self.rel] and parts and fr.lookup(f.id) is None \
                and f.id not in self.ctx.rebound[self.rel]:
            return '.'.join(reversed(parts))
        return None

    def args_val(self, call, fr, skip_out=True):
        """(union over all arguments, list of positional Vals, dict of keyword Vals); `out=` is handled by the caller"""
        pos, kws = [], {}
        allv = NOTHING
        for x in call.args:
            v = self.ev(x.value if isinstance(x, ast.Starred) else x, fr)
            pos.append(v); allv = allv | v
        for k in call.keywords:
            v = self.ev(k.value, fr)
            kws[k.arg] = v
            allv = allv | v
        return allv, pos, kws

    def call(self, c, fr):
        line = c.lineno
        f = c.func
        starred = any(isinstance(x, ast.Starred) for x in c.args) or any(k.arg is None for k in c.keywords)

        # 1. functions of the analysed modules and nested functions: resolved before arguments are evaluated
        if isinstance(f, ast.Name):
            r = fr.lookup(f.id)
            if r is not None and r[0] == 'nested':
                sig = r[1]
                self.bind_call(c, fr, sig, line)
                return Val([sig[0].ret], self.is_cont(sig[0].ret))
            if r is None:
                res = self.ctx.resolve(self.rel, f.id)
                if res is not None:
                    return self.inline(c, fr, *res)
                if self.phase > 1 and self.ctx.is_tensor_class(self.rel, f.id):
                    return self.tensor_ctor(c, fr)
        if isinstance(f, ast.Attribute) and isinstance(f.value, ast.Name) and fr.lookup(f.value.id) is None \
                and f.value.id in self.ctx.modalias[self.rel] and f.value.id not in self.ctx.rebound[self.rel]:
            res = self.ctx.resolve_attr(self.rel, f.value.id, f.attr)
            if res is not None:
                return self.inline(c, fr, *res)

        allv, pos, kws = self.args_val(c, fr)
        out = NOTHING
        for k in ('out',):
            if k in kws:
                out = out | kws[k]
        if out.srcs:
            self.write(out, line)

        def extra_positional(nsafe):
            """positional arguments beyond the ones known not to be `out` are treated as written"""
            nonlocal out
            if starred and nsafe is not None:
                self.write(allv, line); out = out | allv
            elif nsafe is not None:
                for v in pos[nsafe:]:
                    self.write(v, line); out = out | v

        name = self.np_callee(f, fr)
        if name is not None:
            last = name.split('.')[-1]
            if name in NP_WRITERS:
                tgt = pos[0] if pos and not starred else allv
                self.write(tgt, line)
                return out
            if last == 'at' and '.' in name:                       # np.<ufunc>.at(x, idx, v)
                self.write(pos[0] if pos and not starred else allv, line)
                return out
            if last in UFUNC_PURE_METHODS and '.' in name and name.split('.')[0] in (UFUNC1 | UFUNC2):
                extra_positional(None if 'out' in kws else 1 if last != 'outer' else 2)
                return Val(out.srcs, False)
            if name == 'array':
                copy_kw = next((k.value for k in c.keywords if k.arg == 'copy'), None)
                if (copy_kw is None or (isinstance(copy_kw, ast.Constant) and copy_kw.value is True)) and len(pos) <= 2 and not starred:
                    return out
                return Val(allv.srcs | out.srcs, False)
            if name in NP_FRESH:
                extra_positional(NP_FRESH[name])
                return Val(out.srcs, 1 if name in NP_LISTY and not (name == 'where' and len(pos) == 3) else 0)
            if name in NP_ALIAS:
                return Val(allv.srcs, 1 if name in NP_LISTY else 0)       # an ndarray (object-dtype arrays are assumed away) or a list of views
            if name in NP_SCALAR:
                return out
            self.unknown.append(f'np.{name} (line {line})')
            self.write_deep(allv, line)
            return Val(allv.srcs, DEEP)

        if isinstance(f, ast.Name):
            r = fr.lookup(f.id)
            if r is None and f.id not in self.ctx.rebound[self.rel] and (f.id not in self.ctx.imported[self.rel] or f.id in PURE_CLASSES):
                if f.id in B_UNSUPPORTED:
                    self.unsupported_construct(c, f'call of {f.id}')
                    return Val(allv.srcs, DEEP)
                if f.id in B_SCALAR:
                    return out
                if f.id in PURE_CLASSES and (f.id in {n for cl in self.ctx.classes.values() for n in cl} ):
                    return Val(allv.srcs, DEEP)
                if f.id in B_ALIAS:
                    if f.id in ('zip', 'enumerate'):          # an iterable of tuples of elements
                        return Val(allv.srcs, max(allv.cont, 1) + 1)
                    if f.id == 'dict':
                        return Val(allv.srcs, DEEP)
                    if f.id == 'next':
                        return allv.elem()
                    return Val(allv.srcs, max(allv.cont, 1) if f.id in B_ALIAS_CONT else allv.cont)
            self.unknown.append(f'{f.id} (line {line})')
            self.write_deep(allv, line)
            if r is not None and r[0] == 'var':
                pass                                   # a local holding a callable (lambda): its body is translated where defined
            return Val(allv.srcs, DEEP)

        if isinstance(f, ast.Attribute):
            recv = self.ev(f.value, fr)
            m = f.attr
            everything = Val(recv.srcs | allv.srcs, DEEP)
            if m in M_NOOP:
                return out
            tm_rel, tm = self.ctx.tensor_methods()
            objs = [x for x in recv.srcs if self.can_have_fields(x)]
            if self.phase > 1 and m == 'grad_fn':
                # running a backward closure: it accumulates into `_grad` buffers of the tensors reachable from the receiver
                for x in sorted(objs, key=vkey):
                    self.stmts.append(('write', self.field(x, '_grad'), line))
                return NOTHING
            numpy_name = m in M_WRITERS or m in M_CONTAINER_ADD or m in M_FRESH or m in M_ALIAS or m in ('copy', 'astype')
            if self.phase > 1 and m in tm and not numpy_name and objs and f'Tensor.{m}' not in NOT_ANALYSED and m not in ('__init__', 'copy_from'):
                return self.inline(c, fr, tm_rel, tm[m], self_val=Val(objs, recv.cont, recv.ident))
            also = Val(recv.srcs, recv.cont) if (self.phase > 1 and m in tm and numpy_name) else NOTHING     # a Tensor method of the same name: result may be a view
            if m in M_CONTAINER_ONLY:
                self.write(Val(recv.ident), line)
                if m in M_CONTAINER_ADD:
                    for b in sorted(recv.srcs, key=vkey):
                        self.assign(b, Val([b], max(recv.cont, 1)) | allv.wrap(), line)
                    return Val(recv.srcs | allv.srcs, DEEP)
                return Val(recv.srcs | out.srcs, recv.cont)
            if m in M_WRITERS:
                self.write(recv, line)
                return Val(recv.srcs | out.srcs, recv.cont)
            if m == 'copy':
                extra_positional(1)
                return Val((recv.srcs if recv.cont else frozenset()) | out.srcs, recv.cont) | also
            if m == 'astype':
                copy_kw = next((k.value for k in c.keywords if k.arg == 'copy'), None)
                if (copy_kw is None or (isinstance(copy_kw, ast.Constant) and copy_kw.value is True)) and len(pos) <= 4 and not starred:
                    return out
                return Val(recv.srcs | out.srcs, False)
            if m in M_FRESH:
                extra_positional(M_FRESH[m])
                return Val(out.srcs, 1 if m in ('nonzero',) else 0) | also
            if m in M_ALIAS:
                return Val(recv.srcs | (allv.srcs if recv.cont else frozenset()), recv.cont)
            self.unknown.append(f'.{m} (line {line})')
            self.write_deep(everything, line)
            return everything

        # a call of an arbitrary expression
        callee = self.ev(f, fr)
        self.unknown.append(f'{ast.unparse(f)[:30]} (line {line})')
        self.write_deep(allv | callee, line)
        return Val(allv.srcs | callee.srcs, DEEP)

    def comprehension(self, e, fr):
        for g in e.generators:
            it = self.ev(g.iter, fr)
            self.store(g.target, it.elem(), fr, getattr(e, 'lineno', 0))
            for c in g.ifs:
                self.ev(c, fr)
        if isinstance(e, ast.DictComp):
            return Val((self.ev(e.key, fr) | self.ev(e.value, fr)).srcs, DEEP)
        return self.ev(e.elt, fr).wrap()

    def ev(self, e, fr):
        if e is None:
            return NOTHING
        if isinstance(e, ast.Constant):
            return NOTHING
        if isinstance(e, ast.Name):
            r = fr.lookup(e.id)
            if r is None or r[0] == 'scalar':
                return NOTHING                       # module-level object / builtin / immutable scalar parameter
            if r[0] == 'nested':
                self.escape(r[1])
                return NOTHING
            v = r[1]
            return Val([v], self.is_cont(v), self.ident.get(v, set()) | self.ident_in.get(v, set()) | ({v} if v in self.params else set()))
        if isinstance(e, ast.Attribute):
            b = self.ev(e.value, fr)
            if e.attr in SCALAR_ATTRS:
                return NOTHING
            if self.phase > 1 and e.attr in TENSOR_SCALAR_ATTRS:
                return NOTHING
            if self.phase > 1 and e.attr in FIELDS:
                return Val([self.field(x, e.attr) for x in b.srcs], 0)
            if self.phase > 1 and e.attr == '_children':
                return Val(list(b.srcs) + [self.kids], max(b.cont, 1), b.ident)
            if self.phase > 1 and e.attr == 'grad' and b.srcs:
                # the getter builds a new tensor around the gradient buffer itself: `t.grad.data` IS `t._grad`
                g = self.newvar(f'<{ast.unparse(e)[:24]}@{e.lineno}>')
                self.raw_assign(g, None, e.lineno)
                self.fielded.add(g)
                self.raw_assign(self.field(g, 'data'), [self.field(x, '_grad') for x in b.srcs], e.lineno)
                self.raw_assign(self.field(g, '_grad'), None, e.lineno)
                return Val([g], 0)
            return b
        if isinstance(e, ast.Subscript):
            b = self.ev(e.value, fr)
            self.ev(e.slice, fr)
            i = e.slice
            if isinstance(i, ast.UnaryOp) and isinstance(i.op, ast.USub):
                i = i.operand
            if isinstance(i, ast.Constant) and type(i.value) is int:
                return b.elem()                       # `c[0]`: one element; any other index may be a slice of the container
            return b
        if isinstance(e, ast.Slice):
            self.ev(e.lower, fr); self.ev(e.upper, fr); self.ev(e.step, fr)
            return NOTHING
        if isinstance(e, ast.Starred):
            v = self.ev(e.value, fr)
            return Val(v.srcs, max(v.cont, 1))         # spliced into a display: never shallower than the display itself needs
        if isinstance(e, (ast.Tuple, ast.List, ast.Set)):
            v = NOTHING
            for x in e.elts:
                v = v | (self.ev(x, fr).elem() if isinstance(x, ast.Starred) else self.ev(x, fr))
            return v.wrap()
        if isinstance(e, ast.Dict):
            v = NOTHING
            for x in list(e.keys) + list(e.values):
                v = v | self.ev(x, fr)
            return Val(v.srcs, DEEP)
        if isinstance(e, ast.IfExp):
            self.ev(e.test, fr)
            return self.ev(e.body, fr) | self.ev(e.orelse, fr)
        if isinstance(e, ast.BoolOp):
            v = NOTHING
            for x in e.values:
                v = v | self.ev(x, fr)
            return v
        if isinstance(e, ast.BinOp):
            l, r = self.ev(e.left, fr), self.ev(e.right, fr)
            if l.cont or r.cont:
                return l | r                          # list / tuple arithmetic keeps references to the elements
            return NOTHING                            # array (or scalar) arithmetic allocates
        if isinstance(e, ast.UnaryOp):
            v = self.ev(e.operand, fr)
            return NOTHING
        if isinstance(e, ast.Compare):
            self.ev(e.left, fr)
            for x in e.comparators: self.ev(x, fr)
            return NOTHING
        if isinstance(e, ast.Call):
            return self.call(e, fr)
        if isinstance(e, ast.NamedExpr):
            v = self.ev(e.value, fr)
            self.store(e.target, v, fr, e.lineno)
            return v
        if isinstance(e, (ast.ListComp, ast.SetComp, ast.GeneratorExp, ast.DictComp)):
            return self.comprehension(e, fr)
        if isinstance(e, ast.Lambda):
            sig = self.nested_def(e, fr)
            self.escape(sig)
            return NOTHING
        if isinstance(e, ast.JoinedStr):
            for x in e.values: self.ev(x, fr)
            return NOTHING
        if isinstance(e, ast.FormattedValue):
            self.ev(e.value, fr)
            return NOTHING
        self.unsupported_construct(e, f'expression {type(e).__name__}')
        v = NOTHING
        for ch in ast.iter_child_nodes(e):
            if isinstance(ch, ast.expr):
                v = v | self.ev(ch, fr)
        return Val(v.srcs, DEEP)


def translate(ctx, rel, fn, qualname=None):
    """translate one function; iterated until the flow-insensitive side information (container depths, which variables
    hold objects with fields, which fields are re-bound, container identities) is stable"""
    carry = {}
    for _ in range(60):
        t = KernelTranslator(ctx, rel, fn, carry, qualname)
        t.top()
        new = t.carry()
        if new == carry:
            break
        carry = new
    else:
        t.unsupported_construct(fn, 'side information did not stabilise')
    # canonical form: statements de-duplicated (first occurrence kept), variables renumbered: parameters first
    seen, stmts = set(), []
    for s in t.stmts:
        key = s[:3] if s[0] == 'assign' else s[:2]
        if key not in seen and not (s[0] == 'assign' and s[2] == frozenset([s[1]])):
            seen.add(key); stmts.append(s)
    order = list(t.params) + [t.result]
    mentioned = []
    for s in stmts:
        mentioned.append(s[1])
        if s[0] == 'assign' and s[2]:
            mentioned += sorted(s[2], key=vkey)
    for v in mentioned:
        if v not in order:
            order.append(v)
    # unused locals dropped; order of first mention kept for readability
    seen_o, final = set(), []
    for v in order:
        if v not in seen_o:
            seen_o.add(v); final.append(v)
    ren = {v: i for i, v in enumerate(final)}
    def vname(v):
        return f'{vname(v[0])}.{v[1]}' if isinstance(v, tuple) else t.varnames[v]
    out = []
    for s in stmts:
        if s[0] == 'assign':
            out.append(('assign', ren[s[1]], None if s[2] is None else tuple(sorted(ren[x] for x in s[2])), s[3]))
        else:
            out.append(('write', ren[s[1]], s[2]))
    return {'name': qualname or fn.name, 'file': rel, 'line': fn.lineno, 'nparams': t.nparams, 'protected': [ren[p] for p in t.protected],
            'ret': ren[t.result], 'phase': t.phase, 'body': out, 'varnames': [vname(v) for v in final], 'unknown': t.unknown,
            'unsupported': t.unsupported, 'inlined': t.inlined, 'fallbacks': t.fallbacks}


# ------------------------------------------------------------------------------------- diagnostics
def analyse(k):
    """the same analysis as Synap.Effects.solve / safe, in Python — DIAGNOSTICS ONLY (which write offends, which results
    are views); the verdict that counts is the Lean theorem"""
    n = max([k['nparams'], k.get('ret', 0) + 1] + [s[1] + 1 for s in k['body']] + [x + 1 for s in k['body'] if s[0] == 'assign' and s[2] for x in s[2]])
    pts = [({v} if v < k['nparams'] else set()) for v in range(n)]
    changed = True
    while changed:
        changed = False
        for s in k['body']:
            if s[0] == 'assign' and s[2]:
                new = set().union(*[pts[u] for u in s[2]]) - pts[s[1]]
                if new:
                    pts[s[1]] |= new; changed = True
    prot = set(k['protected'])
    bad = [(s[1], s[2], sorted(pts[s[1]] & prot)) for s in k['body'] if s[0] == 'write' and pts[s[1]] & prot]
    return pts, bad


def extract_all(root=None):
    root = root or common.REPO
    ctx = Context(root)
    kernels = []
    for rel in MODULES + WRAPPER_MODULES + TENSOR_MODULES:
        if rel not in ctx.funcs:
            continue
        for name, fn in ctx.funcs[rel].items():
            if name not in NOT_ANALYSED:
                kernels.append(translate(ctx, rel, fn))
        if rel in TENSOR_MODULES:
            for name, fn in ctx.classes[rel].get('Tensor', {}).items():
                q = f'Tensor.{name}'
                if any(ast.unparse(d).endswith('.setter') for d in fn.decorator_list):
                    q += '.setter'
                if q not in NOT_ANALYSED and name not in ('__init__', 'copy_from'):
                    kernels.append(translate(ctx, rel, fn, q))
    if any(r in ctx.funcs for r in TENSOR_MODULES):
        check_tensor_model(ctx)
    return ctx, kernels


def check_tensor_model(ctx):
    """the constructor / `grad` property model of the header, compared with tensor.py; a difference raises (broken extractor)"""
    rel, tm = ctx.tensor_methods()
    init = tm['__init__']
    stores = {}
    for n in ast.walk(init):
        if isinstance(n, ast.Assign):
            for t in n.targets:
                if isinstance(t, ast.Attribute) and isinstance(t.value, ast.Name) and t.value.id == 'self':
                    stores.setdefault(t.attr, []).append(ast.unparse(n.value))
    problems = []
    if stores.get('data') != ['data']: problems.append(f'__init__ stores self.data = {stores.get("data")}')
    if stores.get('_grad') != ['None']: problems.append(f'__init__ stores self._grad = {stores.get("_grad")}')
    if not set(stores) - {'data', '_grad'} <= TENSOR_META_ATTRS | {'_children'}: problems.append(f'__init__ stores {sorted(set(stores))}')
    cls = [n for r in TENSOR_MODULES for n in ast.parse(open(os.path.join(ctx.root, r)).read()).body if isinstance(n, ast.ClassDef) and n.name == 'Tensor'][0]
    getter = [m for m in cls.body if isinstance(m, ast.FunctionDef) and m.name == 'grad' and any(ast.unparse(d) == 'property' for d in m.decorator_list)]
    setter = [m for m in cls.body if isinstance(m, ast.FunctionDef) and m.name == 'grad' and any(ast.unparse(d) == 'grad.setter' for d in m.decorator_list)]
    if not getter or not [r for r in ast.walk(getter[0]) if isinstance(r, ast.Return) and ast.unparse(r.value).startswith('Tensor(self._grad,')]:
        problems.append('the grad getter does not return Tensor(self._grad, …)')
    sst = [ast.unparse(n) for m in setter for n in ast.walk(m) if isinstance(n, ast.Assign)]
    if sst != ['self._grad = grad.data']: problems.append(f'the grad setter stores {sst}')
    if problems:
        raise RuntimeError('tensor.py no longer matches the Tensor model of harness/effects.py: ' + '; '.join(problems))


def lean_stmt(s):
    if s[0] == 'write':
        return f'.write {s[1]}'
    if s[2] is None:
        return f'.assign {s[1]} .fresh'
    return f'.assign {s[1]} (.alias [{", ".join(map(str, s[2]))}])'


def render(kernels):
    def rows_of(ks):
        rows = []
        for k in ks:
            names = ' '.join(f'{i}={n}' for i, n in enumerate(k['varnames']) if i < k['nparams'] or i == k['ret'])
            body = ',\n     '.join(', '.join(lean_stmt(s) for s in k['body'][i:i + 6]) for i in range(0, len(k['body']), 6))
            rows.append(f"  -- {k['name']}: {names}; {len(k['varnames'])} variables, {k['inlined']} inlined calls\n"
                        f"  ⟨{_ex.lean_str(k['name'])}, {_ex.lean_str(k['file'])}, {k['line']}, {k['nparams']}, "
                        f"[{', '.join(map(str, k['protected']))}], {k['ret']},\n    [{body}]⟩")
        return ',\n'.join(rows)
    return ('import SynapModel.Effects\n'
            '/-! GENERATED by harness/effects.py from /repo/synapgrad/{cpu_ops,conv_tools,functional,nn/functional,tensor}.py — do not edit.\n'
            '    One effect program per function; see SynapModel/Effects.lean for the statement language and harness/effects.py\n'
            '    for the translation rules.  `effectTable`: the NumPy kernels (every parameter is protected).  `tensorEffectTable`:\n'
            '    the op wrappers with their `backward` closures, the methods of `Tensor` and the constructors; parameters come in\n'
            '    triples `t`, `t.data` (protected), `t._grad` (the gradient buffer, not protected) plus `<upstream>` (protected). -/\n'
            'namespace Synap.Generated\nopen Synap.Effects\n\n'
            'def effectTable : List Kernel := [\n' + rows_of([k for k in kernels if k['phase'] == 1]) + '\n]\n\n'
            'def tensorEffectTable : List Kernel := [\n' + rows_of([k for k in kernels if k['phase'] > 1]) + '\n]\n\nend Synap.Generated\n')


def summarise(ctx, kernels):
    lines, bad_all = [], []
    for label, phases, mods in (('effect table', (1,), MODULES), ('tensor effect table', (2, 3), WRAPPER_MODULES + TENSOR_MODULES)):
        ks = [k for k in kernels if k['phase'] in phases]
        if not ks:
            continue
        nst = sum(len(k['body']) for k in ks)
        nwr = sum(1 for k in ks for s in k['body'] if s[0] == 'write')
        unknown = [f"{k['name']}: {u}" for k in ks for u in k['unknown']]
        unsup = [f"{k['name']}: {u}" for k in ks for u in k['unsupported']]
        bad, views = [], []
        for k in ks:
            pts, b = analyse(k)
            for v, line, roots in b:
                bad.append(f"{k['file']}:{line} {k['name']}: write through `{k['varnames'][v]}` may reach parameter(s) "
                           f"{[k['varnames'][r] for r in roots]}")
            if pts[k['ret']]:
                views.append(f"{k['name']}←{','.join(k['varnames'][r] for r in sorted(pts[k['ret']]))}")
            elif k['name'] in FRESH_RESULTS:
                views.append(f"[{k['name']}: fresh]")
        head = (f"{label}: {len(ks)} functions translated ({', '.join(f'{sum(1 for k in ks if k['file'] == r)} from {r}' for r in mods)}), "
                f"{nst} statements, {nwr} writes, {sum(k['inlined'] for k in ks)} inlined calls, "
                f"{sum(k['fallbacks'] for k in ks)} call fall-backs, {len(unknown)} unknown calls, {len(unsup)} unsupported constructs")
        if phases == (1,):
            head += f", output parameters: {sum(len(v) for v in OUTPUT_PARAMS.values())}"
        else:
            head += f"; not analysed (documented in effects.py): {', '.join(sorted(NOT_ANALYSED))}, Tensor.__init__/copy_from (modelled, model checked against tensor.py)"
        lines.append(head)
        if unknown: lines.append(f'{label}: unknown calls (treated as writing every argument): ' + '; '.join(unknown[:12]))
        if unsup: lines.append(f'{label}: unsupported constructs (treated as writing every parameter): ' + '; '.join(unsup[:12]))
        other = [f'{r}: {x}' for r in mods if r in ctx.other_toplevel for x in ctx.other_toplevel[r]]
        if other: lines.append(f'{label}: top-level definitions that are not plain functions (NOT analysed): ' + '; '.join(other))
        lines.append(f'{label}: functions whose result may share memory with an operand (no write, but the caller gets shared memory): '
                     + (' '.join(views) or 'none'))
        if bad:
            lines.append(f'{label}: PREDICTED UNSAFE (the Lean table theorem will not build): ' + ' | '.join(bad[:12]))
        bad_all += bad
    return lines, bad_all


def write_effect_table(root=None, out=None):
    ctx, kernels = extract_all(root)
    text = render(kernels)
    path = out or os.path.join(_ex.GEN_DIR, 'EffectTable.lean')
    changed = _ex._write_if_changed(path, text)
    lines, bad = summarise(ctx, kernels)
    if changed:
        lines[0] += ' (changed)'
    st = selftest()
    lines.append(st)
    return lines


# ------------------------------------------------------------------------------------- NumPy facts
def selftest():
    """probe, on the installed NumPy, the allocation facts the translation relies on for the functions the analysed
    source actually uses plus the common ones: results of NP_FRESH / M_FRESH entries share no memory with their array
    arguments.  A failure raises (the check then reports a broken extractor)."""
    import numpy as np, warnings
    bad, nprobed = [], 0
    idx = np.array([[0], [1], [0]])
    for dt in (np.float64, np.float32, np.int64, np.bool_):          # integer / boolean arrays: rounding and sign functions may be the identity
      a = (np.arange(24.0).reshape(2, 3, 4) + 1.0).astype(dt)
      b = (np.arange(24.0).reshape(2, 3, 4) + 2.0).astype(dt)
      m = np.arange(12.0).reshape(3, 4).astype(dt)
      probes = {
        'exp': lambda: np.exp(a), 'log': lambda: np.log(a), 'sqrt': lambda: np.sqrt(a), 'tanh': lambda: np.tanh(a),
        'floor': lambda: np.floor(a), 'abs': lambda: np.abs(a), 'negative': lambda: np.negative(a), 'positive': lambda: np.positive(a),
        'maximum': lambda: np.maximum(0, a), 'minimum': lambda: np.minimum(a, 1e9), 'add': lambda: np.add(a, 0), 'multiply': lambda: np.multiply(a, 1),
        'matmul': lambda: np.matmul(m, np.eye(4)), 'where': lambda: np.where(a > 0, a, b), 'sum': lambda: np.sum(a, axis=()),
        'sum1': lambda: np.sum(a[:, :1], axis=1, keepdims=True), 'mean': lambda: np.mean(a[:, :1], axis=1, keepdims=True),
        'max': lambda: np.max(a[:, :1], axis=1, keepdims=True), 'min': lambda: np.min(a[:, :1], axis=1, keepdims=True),
        'prod': lambda: np.prod(a[:, :1], axis=1, keepdims=True), 'cumprod': lambda: np.cumprod(a), 'cumsum': lambda: np.cumsum(a),
        'argmax': lambda: np.argmax(a, axis=1), 'dot': lambda: np.dot(m, np.eye(4)), 'tensordot': lambda: np.tensordot(m, np.eye(4), axes=[[1], [0]]),
        'concatenate': lambda: np.concatenate([a]), 'stack': lambda: np.stack([a]), 'pad': lambda: np.pad(a, 0), 'pad0': lambda: np.pad(a, ((0, 0), (0, 0), (0, 0)), mode='constant', constant_values=0),
        'copy': lambda: np.copy(a), 'clip': lambda: np.clip(a, -1e9, 1e9), 'repeat': lambda: np.repeat(a, 1), 'tile': lambda: np.tile(a, 1),
        'array': lambda: np.array(a), 'zeros_like': lambda: np.zeros_like(a), 'roll': lambda: np.roll(a, 0), 'take': lambda: np.take(a, [0, 1], 0),
        'sort': lambda: np.sort(a), 'round': lambda: np.round(a), 'tril': lambda: np.tril(m), 'trace': lambda: np.trace(a),
        'a+0': lambda: a + 0, 'a*1': lambda: a * 1, '+a': lambda: +a, 'a**1': lambda: a ** 1, 'a/1': lambda: a / 1, 'a@I': lambda: m @ np.eye(4), 'a>0': lambda: a > 0,
        '.copy': lambda: a.copy(), '.astype': lambda: a.astype(a.dtype), '.sum': lambda: a[:, :1].sum(axis=1, keepdims=True), '.mean': lambda: a[:, :1].mean(axis=1, keepdims=True),
        '.max': lambda: a[:, :1].max(axis=1, keepdims=True), '.min': lambda: a[:, :1].min(axis=1, keepdims=True), '.var': lambda: a[:, :1].var(axis=1, keepdims=True),
        '.flatten': lambda: a.flatten(), '.round': lambda: a.round(), '.clip': lambda: a.clip(-1e9, 1e9), '.repeat': lambda: a.repeat(1), '.take': lambda: a.take([0, 1], 0),
        '.dot': lambda: m.dot(np.eye(4)), '.cumsum': lambda: a.cumsum(), 'take_along_axis': lambda: np.take_along_axis(m, idx, 1),
        'add.reduce': lambda: np.add.reduce(a[:, :1], axis=1, keepdims=True), 'add.outer': lambda: np.add.outer(m, m),
        'ceil': lambda: np.ceil(a), 'trunc': lambda: np.trunc(a), 'rint': lambda: np.rint(a), 'sign': lambda: np.sign(a), 'square': lambda: np.square(a),
        'around': lambda: np.around(a, 2), '.round2': lambda: a.round(2), 'full_like': lambda: np.full_like(a, 1), 'ones_like': lambda: np.ones_like(a),
        'unravel_index': lambda: np.unravel_index(np.argmax(m), m.shape)[0], 'nonzero': lambda: np.nonzero(a)[0], 'diff': lambda: np.diff(m.astype(np.float64)),
        'vstack': lambda: np.vstack([m]), 'hstack': lambda: np.hstack([m]), 'triu': lambda: np.triu(m), 'argsort': lambda: np.argsort(a),
      }
      for name, f in probes.items():
        try:
            with warnings.catch_warnings():
                warnings.simplefilter('ignore')
                with np.errstate(all='ignore'):
                    r = f()
        except TypeError:
            continue                                   # the form does not exist for this dtype
        nprobed += 1
        if isinstance(r, np.ndarray) and (np.shares_memory(r, a) or np.shares_memory(r, b) or np.shares_memory(r, m)):
            bad.append(f'{name}[{np.dtype(dt).name}]')
    a = np.arange(24.0).reshape(2, 3, 4) + 1.0
    # and the view facts the mutation experiments rely on (so the ALIAS lists are not vacuous)
    views = {'reshape': a.reshape(-1), 'T': a.T, 'asarray': np.asarray(a), 'ascontiguousarray': np.ascontiguousarray(a),
             'astype(copy=False)': a.astype(a.dtype, copy=False), 'squeeze': np.squeeze(a), 'expand_dims': np.expand_dims(a, 0),
             'moveaxis': np.moveaxis(a, 0, 1), 'swapaxes': np.swapaxes(a, 0, 1), 'rollaxis': np.rollaxis(a, 1), 'broadcast_to': np.broadcast_to(a, (2, 2, 3, 4)),
             'split': np.split(a, 2)[0], 'ravel': a.ravel(), 'a[0]': a[0], 'a[:, 1:]': a[:, 1:],
             'sliding_window_view': np.lib.stride_tricks.sliding_window_view(a, 2, axis=2), 'as_strided': np.lib.stride_tricks.as_strided(a, shape=(2,), strides=(8,))}
    noview = [n for n, v in views.items() if not np.shares_memory(v, a)]
    if bad:
        raise RuntimeError(f'NumPy {np.__version__}: results of {bad} share memory with an argument; the FRESH tables of harness/effects.py are wrong')
    return (f'effect table: NumPy {np.__version__} allocation facts probed: {nprobed} fresh-result forms (float64/float32/int64/bool) share no memory with their arguments; '
            f'{len(views) - len(noview)}/{len(views)} view forms do share memory')


if __name__ == '__main__':
    import argparse
    ap = argparse.ArgumentParser()
    ap.add_argument('--root', default=None, help='directory that contains synapgrad/ (default: common.REPO, i.e. $SYNAPGRAD_REPO or /repo)')
    ap.add_argument('--out', default=None, help='write the table here instead of lean/SynapModel/Generated/EffectTable.lean')
    ap.add_argument('--dump', default=None, help='print the translation of one function with variable names')
    a = ap.parse_args()
    if a.dump:
        ctx, ks = extract_all(a.root)
        for k in ks:
            if k['name'] == a.dump:
                print(k['name'], 'params', k['nparams'], 'protected', k['protected'])
                for i, n in enumerate(k['varnames']): print(f'  v{i} = {n}')
                for s in k['body']: print('  ', lean_stmt(s), f'   # line {s[-1]}')
                print('unknown', k['unknown'], 'unsupported', k['unsupported'])
                print('diagnostic', analyse(k)[1])
    else:
        for l in write_effect_table(a.root, a.out):
            print(l)
