"""Decision-logic translator for `synapgrad/tensor.py` (C03 / C04 / C07 / C17): the Boolean conditions that steer tensor creation,
the flag setters, the grad-mode contexts and `Tensor.backward` are read from the source with `ast` on every run and re-emitted as
Lean `Bool` functions over named atoms (`lean/SynapModel/Generated/EngineLogic.lean`); the statement skeleton of the two loops of
`backward` is emitted as a list of normalised statements.  `Proofs/EngineLogicTie.lean` proves (by case analysis on the atoms)
that every generated condition is the condition the hand-written engine model applies, restates the model's transition
functions with the generated conditions in place, and checks the skeleton against the one `stackStep` / `sweep` were written from.

Reading of the source (trusted; the conditions are also evaluated by the driver against the real predicates on every run):
an atom is a maximal sub-expression that is not `and` / `or` / `not`; it is named by its text with `x is not None` read as
`not (x is None)`, `x not in y` as `not (x in y)`, `x is not y` as `not (x is y)`, and every non-alphanumeric character
replaced by `_`.  A changed condition therefore changes either the Boolean function or the names of its parameters; both break
the tie theorems (named arguments).
"""
import ast, os, re
import common
from formulas import Untranslatable

SRC = lambda: os.path.join(common.REPO, 'synapgrad', 'tensor.py')
OUT = os.path.join(common.LEAN_DIR, 'SynapModel', 'Generated', 'EngineLogic.lean')


def atom_name(e):
    s = ast.unparse(e)
    for a, b in (('>=', ' ge '), ('<=', ' le '), ('==', ' eq '), ('!=', ' ne '), ('>', ' gt '), ('<', ' lt '), ('-', ' minus ')):
        s = s.replace(a, b)
    s = re.sub(r'\s+', '_', s.strip())
    s = re.sub(r'[^A-Za-z0-9_]', '_', s)        # underscores of the source are kept (`_grad` and `grad` stay different atoms)
    return s


class Cond:
    def __init__(self):
        self.atoms = []

    def tr(self, e):
        if isinstance(e, ast.BoolOp):
            j = ' && ' if isinstance(e.op, ast.And) else ' || '
            return '(' + j.join(self.tr(v) for v in e.values) + ')'
        if isinstance(e, ast.UnaryOp) and isinstance(e.op, ast.Not):
            return '(!' + self.tr(e.operand) + ')'
        if isinstance(e, ast.Compare) and len(e.ops) == 1:
            op, l, r = e.ops[0], e.left, e.comparators[0]
            pos = {ast.IsNot: ast.Is, ast.NotIn: ast.In, ast.NotEq: ast.Eq}.get(type(op))
            if pos is not None:
                return '(!' + self.atom(ast.Compare(left=l, ops=[pos()], comparators=[r])) + ')'
        return self.atom(e)

    def atom(self, e):
        n = atom_name(e)
        if not n or not re.match(r'^[A-Za-z_]', n): raise Untranslatable('atom ' + ast.unparse(e))
        if n not in self.atoms: self.atoms.append(n)
        return n


def _method(cls, name, setter=False):
    for f in cls.body:
        if isinstance(f, ast.FunctionDef) and f.name == name:
            is_setter = any(isinstance(d, ast.Attribute) and d.attr == 'setter' for d in f.decorator_list)
            if is_setter == setter: return f
    raise Untranslatable(f'no method {name}')


def _raise_ifs(fn):
    """tests of the top-level `if …: raise …` statements of a function, in order"""
    return [s.test for s in fn.body if isinstance(s, ast.If) and len(s.body) == 1 and isinstance(s.body[0], ast.Raise) and not s.orelse]


def _find(node, pred):
    return [n for n in ast.walk(node) if pred(n)]


def _body_has(ifnode, text):
    return any(text in ast.unparse(s) for s in ifnode.body)


def _canonical_names(bw):
    """local variables of `backward` are renamed by ROLE before anything is read from it (the set created by `set()` is
    `visited_nodes`, the list created empty is `ordered_nodes`, the list created with one frame is `stack`, the frame components
    and the two loop variables likewise), so renaming a local variable in the source changes nothing here"""
    import copy
    bw = copy.deepcopy(bw)
    ren = {}
    for st in bw.body:
        if isinstance(st, ast.Assign) and len(st.targets) == 1 and isinstance(st.targets[0], ast.Name):
            v, t = st.value, st.targets[0].id
            if isinstance(v, ast.Call) and ast.unparse(v) == 'set()': ren.setdefault(t, 'visited_nodes')
            elif isinstance(v, ast.List) and not v.elts: ren.setdefault(t, 'ordered_nodes')
            elif isinstance(v, ast.List) and len(v.elts) == 1 and isinstance(v.elts[0], ast.Tuple): ren.setdefault(t, 'stack')
            elif isinstance(v, ast.Call) and isinstance(v.func, ast.Attribute) and v.func.attr == 'astype': ren.setdefault(t, 'grad_data')
    for w in [s for s in bw.body if isinstance(s, ast.While)]:
        for st in w.body:
            if isinstance(st, ast.Assign) and isinstance(st.targets[0], ast.Tuple) and len(st.targets[0].elts) == 2 \
                    and all(isinstance(e, ast.Name) for e in st.targets[0].elts) and isinstance(st.value, ast.Subscript):
                ren.setdefault(st.targets[0].elts[0].id, 'node'); ren.setdefault(st.targets[0].elts[1].id, 'children')
            if isinstance(st, ast.For) and isinstance(st.target, ast.Name):
                ren.setdefault(st.target.id, 'child')
    for f in [s for s in bw.body if isinstance(s, ast.For)]:
        if isinstance(f.target, ast.Tuple) and len(f.target.elts) == 2 and all(isinstance(e, ast.Name) for e in f.target.elts):
            ren[f.target.elts[0].id] = 'i'
            # the sweep variable may reuse the name of the traversal's frame component: both are `node`
            ren[f.target.elts[1].id] = 'node'
    if len(set(ren.values())) != len({k for k in ren}) and len(set(ren.values())) < len(ren) - 1:
        raise Untranslatable('local variable roles of backward are ambiguous: ' + repr(ren))
    class R(ast.NodeTransformer):
        def visit_Name(self, n):
            return ast.copy_location(ast.Name(id=ren.get(n.id, n.id), ctx=n.ctx), n)
    return ast.fix_missing_locations(R().visit(bw))


def extract(tree):
    """-> (conditions: [(name, expr, doc)], transitions, skeletons)"""
    T = [c for c in tree.body if isinstance(c, ast.ClassDef) and c.name == 'Tensor']
    if not T: raise Untranslatable('no class Tensor')
    T = T[0]
    conds = []
    init = _method(T, '__init__')
    a = _find(init, lambda n: isinstance(n, ast.Assign) and len(n.targets) == 1 and isinstance(n.targets[0], ast.Name) and n.targets[0].id == 'req_grad')
    if len(a) != 1: raise Untranslatable('__init__: req_grad assignment')
    conds.append(('creation_req_grad', a[0].value, 'Tensor.__init__: `req_grad = …`'))
    r = [t for t in _raise_ifs(init) if 'req_grad' in ast.unparse(t)]
    if len(r) != 1: raise Untranslatable('__init__: float guard')
    conds.append(('creation_rejects', r[0], 'Tensor.__init__: raise "Only floating point Tensors can require gradients"'))
    a = _find(init, lambda n: isinstance(n, ast.Assign) and ast.unparse(n.targets[0]) == 'self._children' and isinstance(n.value, ast.IfExp)
              and ast.unparse(n.value.body) == 'children' and ast.unparse(n.value.orelse) == '()')
    if len(a) != 1: raise Untranslatable('__init__: self._children = children if … else ()')
    conds.append(('creation_keeps_children', a[0].value.test, 'Tensor.__init__: `self._children = children if … else ()`'))
    a = _find(init, lambda n: isinstance(n, ast.Assign) and ast.unparse(n.targets[0]) == 'self._requires_grad')
    if len(a) != 1 or ast.unparse(a[0].value) != 'req_grad': raise Untranslatable('__init__: self._requires_grad = req_grad')

    f = _method(T, 'is_leaf')
    body = [s for s in f.body if not (isinstance(s, ast.Expr) and isinstance(s.value, ast.Constant))]
    if len(body) != 1 or not isinstance(body[0], ast.Return): raise Untranslatable('is_leaf is not a single return')
    conds.append(('is_leaf', body[0].value, 'property Tensor.is_leaf'))

    f = _method(T, 'requires_grad', setter=True)
    r = _raise_ifs(f)
    if len(r) != 2: raise Untranslatable('requires_grad setter: two guards expected')
    conds.append(('set_requires_grad_rejects_nonleaf', r[0], 'requires_grad setter, first guard'))
    conds.append(('set_requires_grad_rejects_dtype', r[1], 'requires_grad setter, second guard'))
    last = f.body[-1]
    if ast.unparse(last) != 'self._requires_grad = value': raise Untranslatable('requires_grad setter: final assignment')
    f = _method(T, 'grad_fn', setter=True)
    r = _raise_ifs(f)
    if len(r) != 1: raise Untranslatable('grad_fn setter guard')
    conds.append(('set_grad_fn_rejects', r[0], 'grad_fn setter guard'))
    f = _method(T, 'retain_grad')
    r = _raise_ifs(f)
    if len(r) != 1 or ast.unparse(f.body[-1]) != 'self._retain_grad = True': raise Untranslatable('retain_grad')
    conds.append(('retain_grad_rejects', r[0], 'Tensor.retain_grad guard'))

    bw = _canonical_names(_method(T, 'backward'))
    r = _raise_ifs(bw)
    if not r: raise Untranslatable('backward: first guard')
    conds.append(('backward_rejects', r[0], 'Tensor.backward: first guard'))
    g = [s for s in bw.body if isinstance(s, ast.If) and ast.unparse(s.test) == 'grad is None']
    if len(g) != 1 or not isinstance(g[0].body[0], ast.If) or not isinstance(g[0].body[0].body[0], ast.Raise):
        raise Untranslatable('backward: default-gradient block')
    conds.append(('backward_needs_grad', ast.BoolOp(op=ast.And(), values=[g[0].test, g[0].body[0].test]), 'Tensor.backward: a gradient must be given'))
    loops = [s for s in bw.body if isinstance(s, ast.While)]
    if len(loops) != 1: raise Untranslatable('backward: one while loop expected')
    w = loops[0]
    ifs = _find(w, lambda n: isinstance(n, ast.If))
    z = [i for i in ifs if _body_has(i, '.zero_()')]
    p = [i for i in ifs if _body_has(i, 'stack.append')]
    if len(z) != 1 or len(p) != 1: raise Untranslatable('backward: zero / push statements')
    conds.append(('backward_zero_cond', z[0].test, 'Tensor.backward traversal: `child.zero_()` when …'))
    conds.append(('backward_push_cond', p[0].test, 'Tensor.backward traversal: push the child when …'))
    ra = [s for s in bw.body if isinstance(s, ast.If) and _body_has(s, 'self._grad + grad_data')]
    if len(ra) != 1 or len(ra[0].orelse) != 1 or ast.unparse(ra[0].orelse[0]) != 'self._grad = grad_data':
        raise Untranslatable('backward: root gradient statement')
    conds.append(('backward_root_accumulates', ra[0].test, 'Tensor.backward: the root accumulates (else: is assigned) when …'))
    fl = [s for s in bw.body if isinstance(s, ast.For)]
    if len(fl) != 1: raise Untranslatable('backward: one sweep loop expected')
    sw = fl[0]
    c = [i for i in sw.body if isinstance(i, ast.If) and _body_has(i, 'node.grad_fn()')]
    rl = [i for i in sw.body if isinstance(i, ast.If) and _body_has(i, 'node._grad = None')]
    if len(c) != 1 or len(rl) != 1: raise Untranslatable('backward: sweep body')
    conds.append(('backward_calls_grad_fn', c[0].test, 'Tensor.backward sweep: call grad_fn when …'))
    conds.append(('backward_releases', rl[0].test, 'Tensor.backward sweep: release the buffer when …'))

    # skeletons: the statements of the two loops with the conditions abstracted
    names = {id(z[0]): 'backward_zero_cond', id(p[0]): 'backward_push_cond', id(c[0]): 'backward_calls_grad_fn', id(rl[0]): 'backward_releases'}
    def skel(stmts, depth=0):
        out = []
        for s in stmts:
            ind = '  ' * depth
            if isinstance(s, ast.If):
                out.append(ind + 'if <' + names.get(id(s), ast.unparse(s.test)) + '>:')
                out += skel(s.body, depth + 1)
                if s.orelse: out.append(ind + 'else:'); out += skel(s.orelse, depth + 1)
            elif isinstance(s, (ast.For, ast.While)):
                head = ast.unparse(s).split('\n')[0]
                out.append(ind + head)
                out += skel(s.body, depth + 1)
                if s.orelse: out.append(ind + 'else:'); out += skel(s.orelse, depth + 1)
            elif isinstance(s, ast.Expr) and isinstance(s.value, ast.Constant):
                continue
            else:
                out.append(ind + ast.unparse(s))
        return out
    i0 = bw.body.index(w)
    setup = [s for s in bw.body[:i0] if isinstance(s, (ast.Assign, ast.Expr)) and any(k in ast.unparse(s) for k in ('ordered_nodes', 'visited_nodes', 'stack'))]
    skeleton_traversal = skel(setup + [w])
    skeleton_sweep = skel([sw])

    # contexts: (global, prev) transitions
    trans = []
    for cname, gname in (('no_grad', 'gradient__'), ('retain_grads', 'retain_grads__')):
        C = [c for c in tree.body if isinstance(c, ast.ClassDef) and c.name == cname]
        if not C: raise Untranslatable(f'{cname} is not a class with __enter__ / __exit__')
        for m in ('__init__', '__enter__', '__exit__'):
            f = _method(C[0], m)
            st = {'g': 'g', 'prev': 'prev'}
            for s in f.body:
                if isinstance(s, ast.Global):
                    if s.names != [gname]: raise Untranslatable(f'{cname}.{m}: global {s.names}')
                    continue
                if isinstance(s, ast.Expr) and isinstance(s.value, ast.Constant): continue
                if isinstance(s, ast.Assign) and len(s.targets) == 1:
                    t = ast.unparse(s.targets[0]); v = s.value
                    if isinstance(v, ast.Constant) and isinstance(v.value, bool): val = 'true' if v.value else 'false'
                    elif ast.unparse(v) == gname: val = st['g']
                    elif ast.unparse(v) == 'self.prev': val = st['prev']
                    else: raise Untranslatable(f'{cname}.{m}: {ast.unparse(s)}')
                    if t == 'self.prev': st['prev'] = val
                    elif t == gname: st['g'] = val
                    else: raise Untranslatable(f'{cname}.{m}: {ast.unparse(s)}')
                    continue
                raise Untranslatable(f'{cname}.{m}: {ast.unparse(s)}')
            trans.append((f'{cname}_{m.strip("_")}', st['g'], st['prev'], f'{cname}.{m}: (global flag, self.prev) after the call'))
    return conds, trans, skeleton_traversal, skeleton_sweep


def lean_str(s):
    return '"' + s.replace('\\', '\\\\').replace('"', '\\"') + '"'


MODULES_SRC = lambda: os.path.join(common.REPO, 'synapgrad', 'nn', 'modules.py')


def class_methods(tree, cname):
    """names of the functions defined in the body of a class (its own methods, properties and setters once each), in source order"""
    C = [c for c in tree.body if isinstance(c, ast.ClassDef) and c.name == cname]
    if not C: raise Untranslatable(f'no class {cname}')
    out = []
    for f in C[0].body:
        if isinstance(f, (ast.FunctionDef, ast.AsyncFunctionDef)) and f.name not in out: out.append(f.name)
        if isinstance(f, ast.Assign):                      # `__iadd__ = __add__` style aliases count as definitions
            for t in f.targets:
                if isinstance(t, ast.Name) and t.id not in out: out.append(t.id)
    bases = [ast.unparse(b) for b in C[0].bases]
    return out, bases


def translate(src_path=None, modules_path=None):
    tree = ast.parse(open(src_path or SRC()).read())
    conds, trans, sk1, sk2 = extract(tree)
    tmeth, tbases = class_methods(tree, 'Tensor')
    mtree = ast.parse(open(modules_path or MODULES_SRC()).read())
    pmeth, pbases = class_methods(mtree, 'Parameter')
    out = ['/-! GENERATED by harness/engine_logic.py from synapgrad/tensor.py on every run — do not edit.',
           '    The Boolean conditions of tensor creation, the flag setters and `Tensor.backward` over named atoms; the grad-mode',
           '    context managers as transitions of (global flag, `self.prev`); the statement skeletons of the two loops of `backward`. -/',
           'set_option linter.unusedVariables false', 'namespace Synap.Gen.Engine', '']
    sigs = {}
    for name, e, doc in conds:
        c = Cond()
        body = c.tr(e)
        atoms = sorted(c.atoms)
        sigs[name] = atoms
        out.append(f'/-- {doc}: `{ast.unparse(e)}` -/')
        out.append(f'def {name} ({" ".join(atoms)} : Bool) : Bool :=\n  {body}\n')
    for name, g, prev, doc in trans:
        out.append(f'/-- {doc} -/')
        out.append(f'def {name} (g prev : Bool) : Bool × Bool := ({g}, {prev})\n')
    out.append('/-- the functions defined in the body of `class Tensor` (tensor.py), in source order -/')
    out.append('def tensorMethods : List String := [' + ', '.join(lean_str(m) for m in tmeth) + ']')
    out.append('def tensorBases : List String := [' + ', '.join(lean_str(m) for m in tbases) + ']\n')
    out.append('/-- the functions defined in the body of `class Parameter` (nn/modules.py), and its base classes -/')
    out.append('def parameterMethods : List String := [' + ', '.join(lean_str(m) for m in pmeth) + ']')
    out.append('def parameterBases : List String := [' + ', '.join(lean_str(m) for m in pbases) + ']\n')
    out.append('def traversalSkeleton : List String := [\n  ' + ',\n  '.join(lean_str(s) for s in sk1) + ']\n')
    out.append('def sweepSkeleton : List String := [\n  ' + ',\n  '.join(lean_str(s) for s in sk2) + ']\n')
    # evaluator for the driver
    out.append('/-- evaluation by name (driver: the conditions against the real predicates) -/')
    out.append('def evalCond (name : String) (x : List Bool) : Option Bool :=\n  match name, x with')
    for name, atoms in sigs.items():
        out.append(f'  | "{name}", [{", ".join(atoms)}] => some ({name} {" ".join(atoms)})')
    out.append('  | _, _ => none\n')
    out.append('end Synap.Gen.Engine')
    return '\n'.join(out) + '\n', {'conditions': sigs, 'transitions': [t[0] for t in trans]}


def write():
    try:
        text, rep = translate()
    except Untranslatable as ex:
        text = ('/-! GENERATED by harness/engine_logic.py — tensor.py could not be read: ' + str(ex).replace('-/', '- /') + ' -/\n'
                'namespace Synap.Gen.Engine\nend Synap.Gen.Engine\n')
        rep = {'error': str(ex)}
    old = open(OUT).read() if os.path.exists(OUT) else None
    if old != text:
        with open(OUT, 'w') as f: f.write(text)
    if 'error' in rep:
        return [f'engine-logic translator: tensor.py not readable: {rep["error"]}'], rep
    return [f'engine-logic translator: {len(rep["conditions"])} conditions, {len(rep["transitions"])} context transitions and 2 loop skeletons of tensor.py written to Generated/EngineLogic.lean'], rep


if __name__ == '__main__':
    t, r = translate()
    print(t)


# ---------------------------------------------------------------------------------------------------------------------------
# correspondence family `logic`: every row of the truth table of every generated condition, evaluated by the driver, against
# the source's own expression evaluated by Python with the atoms replaced by constants (validates the Boolean translation)
class _Subst(ast.NodeTransformer):
    def __init__(self, val): self.val = val
    def generic_visit(self, node):
        if isinstance(node, ast.expr) and not isinstance(node, (ast.BoolOp, ast.UnaryOp, ast.Compare, ast.Constant)):
            n = atom_name(node)
            if n in self.val: return ast.Constant(self.val[n])
        return super().generic_visit(node)
    def visit_Compare(self, node):
        if len(node.ops) == 1:
            op, l, r = node.ops[0], node.left, node.comparators[0]
            pos = {ast.IsNot: ast.Is, ast.NotIn: ast.In, ast.NotEq: ast.Eq}.get(type(op))
            tgt = ast.Compare(left=l, ops=[pos()], comparators=[r]) if pos else node
            n = atom_name(tgt)
            if n in self.val:
                c = ast.Constant(self.val[n])
                return ast.UnaryOp(op=ast.Not(), operand=c) if pos else c
        return self.generic_visit(node)
    def visit_UnaryOp(self, node):
        return ast.UnaryOp(op=node.op, operand=self.visit(node.operand))
    def visit_BoolOp(self, node):
        return ast.BoolOp(op=node.op, values=[self.visit(v) for v in node.values])


def logic_cases():
    import itertools, copy
    tree = ast.parse(open(SRC()).read())
    conds, trans, sk1, sk2 = extract(tree)
    out = []
    for name, e, doc in conds:
        c = Cond(); c.tr(e)
        atoms = sorted(c.atoms)
        for row in itertools.product([False, True], repeat=len(atoms)):
            val = dict(zip(atoms, row))
            expr = ast.fix_missing_locations(ast.Expression(_Subst(val).visit(copy.deepcopy(e))))
            want = bool(eval(compile(expr, '<cond>', 'eval'), {}))
            out.append({'kind': 'logic', 'name': name, 'row': val, 'lines': [f'ge {name} ' + ','.join('1' if b else '0' for b in row)],
                        'want': ['1' if want else '0'], 'desc': f'{name} {val} ({ast.unparse(e)})'})
    out.append({'kind': 'logic', 'name': 'skeleton', 'row': {}, 'lines': ['ge skeleton traversal', 'ge skeleton sweep'],
                'want': [' ; '.join(sk1), ' ; '.join(sk2)], 'desc': 'statement skeletons of the two loops of Tensor.backward'})
    return out
