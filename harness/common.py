"""Shared plumbing of the checks: importing the implementation from /repo's working tree,
talking to the compiled Lean driver, the single PRNG, float bit patterns, evidence and replay
files."""
import os, sys, json, struct, subprocess, random, hashlib, time, fcntl, contextlib, io

VERIF = os.path.dirname(os.path.dirname(os.path.abspath(__file__)))
REPO = os.environ.get('SYNAPGRAD_REPO', '/repo')
LEAN_DIR = os.path.join(VERIF, 'lean')
DRIVER = os.path.join(LEAN_DIR, '.lake', 'build', 'bin', 'synapdrv')
# definitions generated from the source on this run: one executable per generated file (a source one translator cannot read must not
# take the others down)
GEN_DRIVERS = {'gf ': os.path.join(LEAN_DIR, '.lake', 'build', 'bin', 'genformulas'),
               'gs ': os.path.join(LEAN_DIR, '.lake', 'build', 'bin', 'gensteps'),
               'ge ': os.path.join(LEAN_DIR, '.lake', 'build', 'bin', 'genlogic')}
GEN_PREFIXES = tuple(GEN_DRIVERS)
ALLOWED_AXIOMS = {'propext', 'Classical.choice', 'Quot.sound'}

_impl = None
def impl():
    """import synapgrad from the working tree of /repo (never an installed copy)"""
    global _impl
    if _impl is None:
        sys.path.insert(0, os.path.join(VERIF, 'harness', 'stubs'))
        sys.path.insert(0, REPO)
        import warnings
        warnings.simplefilter('ignore')
        import numpy as np
        np.seterr(all='ignore')
        import synapgrad
        assert os.path.abspath(synapgrad.__file__).startswith(os.path.abspath(REPO)), synapgrad.__file__
        _impl = synapgrad
    return _impl

def tmod():
    """the module object synapgrad.tensor (the package attribute is shadowed by the function)"""
    impl()
    return sys.modules['synapgrad.tensor']

# ---------------------------------------------------------------- floats as bit patterns
def fbits(x):
    return struct.unpack('<Q', struct.pack('<d', float(x)))[0]
def bitsf(n):
    return struct.unpack('<d', struct.pack('<Q', int(n)))[0]
def show_floats(xs):
    xs = list(xs)
    return ','.join(str(fbits(x)) for x in xs) if xs else '_'
def parse_floats(s):
    return [] if s == '_' else [bitsf(t) for t in s.split(',')]
def show_ints(xs):
    xs = list(xs)
    return ','.join(str(int(x)) for x in xs) if xs else '_'
def parse_ints(s):
    return [] if s == '_' else [int(t) for t in s.split(',')]
def show_opt(f, x):
    return '-' if x is None else f(x)

# ---------------------------------------------------------------- driver
def _run_one(binary, lines, timeout):
    p = subprocess.run([binary], input='\n'.join(lines) + '\n', capture_output=True, text=True, timeout=timeout)
    if p.returncode != 0:
        raise RuntimeError(f'driver exited with {p.returncode}: {p.stderr[:500]}')
    out = p.stdout.split('\n')
    if out and out[-1] == '':
        out.pop()
    if len(out) != len(lines):
        raise RuntimeError(f'driver answered {len(out)} lines for {len(lines)} requests')
    return out


def run_driver(lines, timeout=600):
    """send all lines to one driver process, return the answer lines (same length).  Lines about the definitions generated from
    the source on this run (`gf` / `gs` / `ge`) go to the separate executable `synapgen`; when that executable could not be
    built (a source the translators cannot read) they are answered `no-generated-definition`."""
    if not lines:
        return []
    gen = [k for k, l in enumerate(lines) if l.startswith(GEN_PREFIXES)]
    if not gen:
        return _run_one(DRIVER, lines, timeout)
    gset = set(gen)
    rest = [k for k in range(len(lines)) if k not in gset]
    out = [None] * len(lines)
    if rest:
        for k, o in zip(rest, _run_one(DRIVER, [lines[k] for k in rest], timeout)): out[k] = o
    for pre, binary in GEN_DRIVERS.items():
        ks = [k for k in gen if lines[k].startswith(pre)]
        if not ks: continue
        try:
            go = _run_one(binary, [lines[k] for k in ks], timeout) if os.path.exists(binary) else None
        except Exception:
            go = None
        for j, k in enumerate(ks): out[k] = go[j] if go is not None else 'no-generated-definition'
    return out

# ---------------------------------------------------------------- misc
class Rng(random.Random):
    """the single PRNG of a run; every random choice of a check derives from it"""
    def chance(self, p): return self.random() < p
    def pick(self, xs): return xs[self.randrange(len(xs))]
    def dyadic(self, lo=-4, hi=4, den=8):
        return self.randint(lo * den, hi * den) / den

def digest(obj):
    return hashlib.sha1(json.dumps(obj, sort_keys=True, default=str).encode()).hexdigest()[:12]

@contextlib.contextmanager
def quiet():
    """silence the implementation's prints (warnings about .grad on non-leaf tensors etc.)"""
    old = sys.stdout
    sys.stdout = io.StringIO()
    try:
        yield
    finally:
        sys.stdout = old

def outcome(f):
    """run f; map any exception to the single class `rejected` (never compare messages)"""
    try:
        with quiet():
            return f()
    except Exception as e:  # noqa
        return 'rejected'
