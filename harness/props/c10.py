"""C10 — results and gradients keep the operand's floating dtype and exact shape"""
import numpy as np
import common
from common import show_floats, show_ints, fbits
import tprog, gen_dag, gen_ops

tprog.LAYOUTS = True       # operands in every memory layout (results and gradients must keep the dtype whatever the strides)
tprog.ENTRIES = True
tprog.DTYPE_KW = True
PROP = 'C10'
LEAN_TARGETS = ['Props.C10']
REQUIRED_THEOREMS = ['Props.C10.result_dtype_preserved', 'Props.C10.grad_buffer_dtype_shape', "Props.C10.scalar_operand_dtype'", "Props.C10.apply_result_dtype'", 'Props.C10.apply_aligned',
                     'Props.C10.backward_accepts_only_matching_shape', 'Props.C10.assignGrad_keeps_shapes']
RULE = ('every public op / nn op / loss (every reduction) / scalar-operator form x operand dtype in {float32, float64} x upstream '
        'gradient dtype in {float32, float64} x shapes incl. 0-d results (full reductions, element indexing, reduced losses): the '
        'dtype of every result and of every gradient buffer, and the shape of every gradient buffer, are compared with the model; backward-call histories over one DAG (roots that are leaves already holding a gradient, upstream dtypes alternating) with the dtype of every buffer queried after every call '
        '(values are not compared here). The accept / reject boundary of the shape checks that guard gradients and targets: upstream gradients handed to backward(), '
        '`.grad = ...` assignments and loss targets (mse_loss; the broadcasting BCE pair) whose shape is the tensor\'s or one of its neighbours (1-axes appended / prepended / inserted, '
        'prefix / suffix, 0-d against (1,), one extent off, broadcast-compatible either way, same size) on leaves and op results of every rank incl. 0-d, dtype and shape of every buffer queried after every call. Implementation-only: the float32 result agrees with the float64 result to single '
        'precision — also with every operand at the EDGES of the domain of the op (exact zeros of either sign, denormals, the smallest normal, values below and around every '
        'epsilon guard, the largest float32 below 1) for log / sqrt / exp / pow / division / reductions / activations / softmax family / every loss / batch-norm with a '
        'constant channel, values and gradients compared element by element with the float32 rounding of the float64 run; and at LARGE-but-legal magnitudes (+-{30, 80, 88, 89, 100, 300, 690, 705} '
        'with small offsets, rows mixing far-apart entries, each input alone and all in one tensor; enumerated in every run) for exp / log / sqrt / pow / division / activations / the softmax family along either dim (functions and layers) / '
        'the logit losses, result and gradient under a non-uniform upstream gradient, demanded where the float64 value is finite and inside the float32 range. Every nn layer / loss class under EVERY option '
        'value incl. the boundary ones (Dropout p in {0, .25, .5, 1-2^-24, 1}; BatchNorm momentum None / 0 / .1 / 1 x eps 0 / 1e-5 / 1 x affine x running statistics; '
        'LeakyReLU slope 0 / 1 / 2 / negative; pools, convolutions, Unfold / Fold with kernel = input size, stride > kernel, padding, dilation; Linear 1x1 / without bias / '
        '1-d input; Flatten over every dim pair; every reduction) x both dtypes, the one object called in train and eval mode in a drawn order: dtype and shape of the '
        'result, of a reduction on it, of every gradient (upstream of the other dtype), parameters and buffers. Non-trivial: accepted op with a differentiable operand; counts 0-d results separately.')
EXHAUSTIVE = {'quick': False, 'thorough': False}
ASSUMPTIONS = ['the float32-vs-float64 agreement clause is observed (rel 2e-4 of the value scale), not proved']
TRUSTED_BASE = ['harness/tprog.py, harness/gen_ops.py']


def op_case(rng, op, dt, gdt):
    gen = gen_ops.gen_basic if op in gen_ops.OPS_BASIC else gen_ops.gen_nn
    leaves, args = gen(rng, op, False)
    # values exactly representable in float32 keep both runs on the same inputs
    leaves = [tuple([lf[0], [round(v * 64) / 64 for v in lf[1]]] + list(lf[2:])) for lf in leaves]
    c = {'kind': 'op', 'op': op, 'leaves': leaves, 'args': args, 'dt': dt, 'gdt': gdt}
    lines = gen_ops.program(c, rng)
    nl = len(leaves)
    io = tprog.run_program(lines)
    c['nout'] = 0 if io[-1] == 'rejected' else len(io[-1].split(','))
    q = [f't dtype {nl + k}' for k in range(c['nout'])]
    shp = tprog.run_program(lines + [f't val {nl + k}' for k in range(c['nout'])])[len(lines):]
    c['zero_d'] = False
    for k, s in enumerate(shp):
        sh = tuple(common.parse_ints(s.split('|')[0])) if '|' in s else ()
        if sh == (): c['zero_d'] = True
        q.append(f"t bw {nl + k} {show_ints(sh)} {show_floats(gen_dag.rand_data(rng, sh, -2, 2))} {gdt}")
    q += [f't gdtype {k}' for k in range(nl)] + [f't gdtype {nl + k}' for k in range(c['nout'])]
    c['lines'] = lines + q
    return c


def sop_case(rng, dt, gdt):
    sh = gen_ops.rshape(rng, 0, 3)
    kind = rng.pick(['add', 'mul', 'neg', 'sub', 'rsub', 'div', 'rdiv'])
    lines = [gen_dag.leaf_line(sh, gen_ops.vals(rng, sh, 'pos'), True, dt), f"t sop {kind} 0 s{fbits(rng.pick([3.0, 0.5, 2.0, 7.0]))}"]
    hidden = {'add': 1, 'mul': 1, 'neg': 1, 'rsub': 3, 'rdiv': 2, 'sub': 1, 'div': 1}[kind]
    r = 1 + hidden
    lines += [f't dtype {r}', f"t bw {r} {show_ints(sh)} {show_floats(gen_dag.rand_data(rng, sh))} {gdt}", 't gdtype 0', f't gdtype {r}']
    return {'kind': 'sop', 'op': kind, 'dt': dt, 'gdt': gdt, 'lines': lines, 'nout': 1, 'zero_d': sh == ()}


def mixed_const_case(rng):
    """ONE Python constant meeting tensors of both dtypes in one program, in either order (a scalar operand takes the dtype of the
    tensor it meets, each time): the constant is drawn fresh, so nothing earlier in the process has seen it"""
    c0 = round(rng.uniform(1.5, 9.5), 6)
    first = rng.pick(['f64', 'f64', 'f32'])
    second = 'f32' if first == 'f64' else 'f64'
    sh = gen_ops.rshape(rng, 0, 2)
    kind0 = rng.pick(['add', 'mul', 'sub', 'div'])
    kinds = [kind0, kind0 if rng.chance(.8) else rng.pick(['add', 'mul', 'sub', 'div'])]      # mostly the same operator twice: the same operand expression
    lines = [gen_dag.leaf_line(sh, gen_ops.vals(rng, sh, 'pos'), True, first), gen_dag.leaf_line(sh, gen_ops.vals(rng, sh, 'pos'), True, second)]
    nt = 2
    res = []
    for k, (leaf, kind) in enumerate(zip((0, 1), kinds)):
        lines.append(f't sop {kind} {leaf} s{fbits(c0)}')
        nt += {'add': 1, 'mul': 1, 'sub': 1, 'div': 1}[kind] + 1
        res.append(nt - 1)
    for r in res:
        lines += [f't dtype {r}', f't op sum {r} all 0']; nt += 1
        lines += [f't dtype {nt - 1}']
    return {'kind': 'sop', 'op': 'mixed-constant', 'dt': second, 'gdt': second, 'lines': lines, 'nout': 1, 'zero_d': sh == ()}


def loss_case(rng, dt, gdt):
    name = rng.pick(['mse_loss', 'nll_loss', 'binary_cross_entropy', 'binary_cross_entropy_with_logits', 'cross_entropy'])
    leaves, args = gen_ops.gen_nn(rng, name, False)
    red = rng.pick(['mean', 'sum', 'none'])
    lines = [gen_dag.leaf_line(lf[0], lf[1], lf[2], lf[3] if len(lf) > 3 else dt) for lf in leaves]
    lines.append(' '.join(['t loss', name, red, '0', '1'] + [str(a) for a in args]))
    k = 2 + (0 if red == 'none' else 1)
    lines += [f't dtype {k}']
    if red != 'none':
        lines += [f't bw {k} _ {show_floats([1.5])} {gdt}', 't gdtype 0', f't gdtype {k}']
    return {'kind': 'loss', 'op': name + '/' + red, 'dt': dt, 'gdt': gdt, 'lines': lines, 'nout': 1, 'zero_d': red != 'none'}


def bnhist_case(rng, dt):
    """a layer history: training / eval forwards of one BatchNorm layer of dtype `dt`; every output and the
    running statistics must keep that dtype (checked on the implementation; the model side is the dtype rule)"""
    evs = [rng.pick(['train', 'eval', 'fwd', 'fwd']) for _ in range(rng.randint(3, 8))] + ['train', 'fwd', 'eval', 'fwd']
    return {'kind': 'bnhist', 'op': 'BatchNorm', 'dt': dt, 'gdt': dt, 'nout': 1, 'zero_d': False, 'evs': evs,
            'C': rng.randint(1, 3), 'rank': rng.pick([2, 3, 4]), 'affine': rng.chance(.6), 'mo': rng.pick([None, 0.1, 0.5]),
            'seed': rng.randrange(2 ** 31), 'lines': ['t modes']}


def _bnhist(c):
    sg = common.impl()
    from synapgrad import nn
    dt = tprog.DT[c['dt']]
    rs = np.random.RandomState(c['seed'])
    cls = nn.BatchNorm1d if c['rank'] < 4 else nn.BatchNorm2d
    bn = cls(c['C'], momentum=c['mo'], affine=c['affine'], dtype=dt)
    rest = {2: (), 3: (3,), 4: (2, 2)}[c['rank']]
    for k, e in enumerate(c['evs']):
        if e == 'train': bn.train()
        elif e == 'eval': bn.eval()
        else:
            x = sg.Tensor(rs.rand(*((3, c['C']) + rest)).astype(dt), requires_grad=True)
            y = bn(x)
            if y.dtype != dt: return f'forward {k} ({"train" if bn.training else "eval"}) of a {c["dt"]} BatchNorm returned {y.dtype}'
            for name in ('running_mean', 'running_var'):
                if getattr(bn, name).dtype != dt: return f'{name} became {getattr(bn, name).dtype} after forward {k} of a {c["dt"]} layer'
            y.backward(sg.Tensor(np.ones(y.shape, dtype=dt)))
            if x.grad.dtype != dt or x.grad.shape != x.shape: return f'input gradient is {x.grad.dtype}{x.grad.shape}'
            for p_ in bn.parameters():
                if p_._grad is not None and (p_._grad.dtype != p_.dtype or p_._grad.shape != p_.shape): return 'parameter gradient dtype/shape changed'
    return None


def opthist_case(rng, dt):
    """a training history of a small model of dtype `dt` under an optimizer: backward, step, optimizer.zero_grad / module.zero_grad,
    and user-side gradient clipping through the public .grad setter with a coefficient of either dtype. After a zeroing call the
    buffers are the library's own again, so the gradients of the next backward must have the parameters' dtype; parameters never
    change dtype or shape (implementation side only; the model's rule is that a zeroed buffer has the tensor's dtype)"""
    evs = ['bw']
    for _ in range(rng.randint(3, 9)):
        evs.append(rng.pick(['bw', 'bw', 'step', 'optzero', 'modzero', 'clip32', 'clip64', 'clip64']))
    evs += ['clip64', 'optzero', 'bw', 'step', 'clip32', 'modzero', 'bw']
    return {'kind': 'opthist', 'op': 'optimizer-history', 'dt': dt, 'gdt': dt, 'nout': 1, 'zero_d': False, 'evs': evs,
            'opt': rng.pick(['sgd', 'sgdm', 'adam', 'adamw']), 'seed': rng.randrange(2 ** 31), 'lines': ['t modes']}


def _opthist(c):
    sg = common.impl()
    from synapgrad import nn, optim
    dt = tprog.DT[c['dt']]
    rs = np.random.RandomState(c['seed'])
    model = nn.Sequential(nn.Linear(3, 4), nn.Tanh(), nn.Linear(4, 2))
    for p_ in model.parameters():
        p_.data = p_.data.astype(dt)
    ps = model.parameters()
    opt = {'sgd': lambda: optim.SGD(ps, lr=0.05), 'sgdm': lambda: optim.SGD(ps, lr=0.05, momentum=0.9, weight_decay=0.1),
           'adam': lambda: optim.Adam(ps, lr=0.01), 'adamw': lambda: optim.AdamW(ps, lr=0.01)}[c['opt']]()
    own = True          # the gradient buffers are the library's own (not assigned by the user since the last zeroing)
    shapes = [p_.shape for p_ in ps]
    for k, e in enumerate(c['evs']):
        if e == 'bw':
            x = sg.Tensor(rs.rand(5, 3).astype(dt))
            loss = (model(x) * model(x)).sum()
            loss.backward()
            if own:
                for p_ in ps:
                    if p_._grad is None or p_._grad.dtype != dt or p_._grad.shape != p_.shape:
                        return f'event {k}: after backward the gradient of a {c["dt"]} parameter of shape {p_.shape} is {None if p_._grad is None else (p_._grad.dtype, p_._grad.shape)}'
        elif e == 'step':
            if all(p_._grad is not None for p_ in ps): opt.step()
        elif e == 'optzero': opt.zero_grad(); own = True
        elif e == 'modzero': model.zero_grad(); own = True
        else:
            coef = np.float32(0.5) if e == 'clip32' else np.float64(0.5)
            for p_ in ps:
                if p_._grad is not None:
                    p_.grad = sg.Tensor(p_.grad.data * coef)
            if np.dtype(type(coef)) != np.dtype(dt): own = False
        for p_, sh in zip(ps, shapes):
            if p_.data.dtype != dt or p_.shape != sh:
                return f'event {k} ({e}): a {c["dt"]} parameter became {p_.data.dtype}{p_.shape}'
    return None


def big_case(rng, dt):
    """results computed from more than 2^20 elements (implementation side only): the dtype rule has no size limit"""
    return {'kind': 'big', 'op': 'large-input', 'dt': dt, 'gdt': dt, 'nout': 1, 'zero_d': True, 'seed': rng.randrange(2 ** 31), 'lines': ['t modes']}


def _big(c):
    sg = common.impl()
    from synapgrad import nn
    dt = tprog.DT[c['dt']]
    rs = np.random.RandomState(c['seed'])
    x = sg.Tensor(rs.rand(1030, 1024).astype(dt), requires_grad=True)          # 1 054 720 elements
    t = sg.Tensor(rs.rand(1030, 1024).astype(dt))
    probes = [('mean()', lambda: x.mean()), ('sum()', lambda: x.sum()), ('mean(dim=0)', lambda: x.mean(dim=0)), ('mean(dim=(0,1), keepdims)', lambda: x.mean(dim=(0, 1), keepdims=True)),
              ('max()', lambda: x.max()), ('reshape(-1).mean()', lambda: x.reshape((-1,)).mean()), ('MSELoss(mean)', lambda: nn.MSELoss()(x, t)),
              ('MSELoss(sum)', lambda: nn.MSELoss(reduction='sum')(x, t)), ('(x * x).mean()', lambda: (x * x).mean()), ('x - x.mean(dim=1, keepdims)', lambda: x - x.mean(dim=1, keepdims=True))]
    for name, f in probes:
        y = f()
        if y.dtype != dt: return f'{name} of a {c["dt"]} tensor with {x.data.size} elements returned {y.dtype}'
    y = (x * x).mean(); x.zero_(); y.backward()
    if x.grad.dtype != dt or x.grad.shape != x.shape: return f'gradient of a large mean is {x.grad.dtype}{x.grad.shape}'
    ref = 2 * x.data.astype(np.float64) / x.data.size
    if not np.allclose(x.grad.data, ref, rtol=1e-4 if c['dt'] == 'f32' else 1e-10, atol=0): return 'gradient of a large mean has the wrong value'
    return None


def hist_case(rng, dt):
    """a history of backward calls over one DAG of dtype `dt`: roots are op results AND leaves (a leaf that already holds a
    gradient accumulates), upstream gradients alternate between float32 and float64; the dtype of every gradient buffer is
    queried after every call"""
    P = gen_dag.Prog()
    for _ in range(rng.randint(1, 3)):
        sh = rng.pick([(2,), (2, 2), ()])
        P.add_leaf(sh, [round(v * 8) / 8 for v in gen_dag.rand_data(rng, sh)], rng.chance(.85), dt)
    tries = 0
    while sum(1 for n in P.nodes if n['kind'] == 'op') < rng.randint(1, 5) and tries < 40:
        tries += 1
        gen_dag.gen_op(rng, P, ['add', 'mul', 'neg', 'sum', 'mean', 'clone', 'reshape', 'transpose', 'pow', 'unsqueeze', 'squeeze', 'slice', 'self2'])
    lines, _ = P.lines()
    nt = len(P.tshape)
    leaf_ids = [n['outs'][0] for n in P.nodes if n['kind'] == 'leaf' and n['rg']]
    for _ in range(rng.randint(2, 6)):
        r = rng.pick(leaf_ids) if leaf_ids and rng.chance(.45) else rng.randrange(nt)
        sh = P.tshape[r]
        lines.append(f"t bw {r} {show_ints(sh)} {show_floats([round(v * 8) / 8 for v in gen_dag.rand_data(rng, sh, -2, 2)])} {rng.pick(['f32', 'f64'])}")
        lines += [f't gdtype {k}' for k in range(nt)]
    return {'kind': 'hist', 'op': 'history', 'dt': dt, 'gdt': 'mixed', 'nout': 1, 'zero_d': any(s_ == () for s_ in P.tshape), 'lines': lines}


# ---- the accept / reject boundary of the shape checks that guard gradients and targets -----------------------------------------
class Exec(tprog.Impl):
    """`t setgrad i shape data dt` : the public setter, `x.grad = Tensor(array)`"""
    def run(self, line):
        t = line.split(' ')
        if t[1] == 'setgrad':
            shape = tuple(common.parse_ints(t[3]))
            a = np.array(common.parse_floats(t[4]), dtype=np.float64).reshape(shape).astype(tprog.DT[t[5]])
            self.ts[int(t[2])].grad = self.sg.Tensor(a)
            return 'ok'
        return super().run(line)


def to_model(line):
    t = line.split(' ')
    if len(t) > 1 and t[1] == 'setgrad': return ' '.join(t[:5])        # (the model's buffers carry no dtype of their own)
    return line


def shape_variants(sh):
    """shapes that are NOT `sh`, by class: rank (1-axes appended / prepended / inserted, prefix, suffix, 0-d against (1,), one more
    axis of the last extent), one extent, broadcast-compatible either way, same number of elements"""
    sh = tuple(sh)
    n = int(np.prod(sh)) if sh else 1
    out = [('rank: 1-axis appended', sh + (1,)), ('rank: 1-axis prepended', (1,) + sh), ('rank: axis of extent 2 appended', sh + (2,)),
           ('rank: two 1-axes appended', sh + (1, 1))]
    if sh:
        out += [('rank: prefix (last axis dropped)', sh[:-1]), ('rank: suffix (first axis dropped)', sh[1:]), ('rank: last axis repeated', sh + (sh[-1],)),
                ('rank: 0-d', ())]
        for k in range(len(sh)):
            out.append(('extent: one axis longer', sh[:k] + (sh[k] + 1,) + sh[k + 1:]))
            if sh[k] > 1:
                out.append(('extent: one axis shorter', sh[:k] + (sh[k] - 1,) + sh[k + 1:]))
                out.append(('broadcast: axis of extent 1 where the tensor has more', sh[:k] + (1,) + sh[k + 1:]))
            else:
                out.append(('broadcast: axis of extent 3 where the tensor has 1', sh[:k] + (3,) + sh[k + 1:]))
        if len(sh) >= 2:
            out += [('rank: 1-axis inserted', sh[:1] + (1,) + sh[1:]), ('same size: flattened', (n,)), ('same size: axes swapped', sh[:-2] + (sh[-1], sh[-2]))]
        if sh[-1] == 1 or sh[0] == 1:
            out.append(('rank: a 1-axis squeezed', tuple(v for v in sh if v != 1)))
    else:
        out += [('rank: (1,) for a 0-d tensor', (1,)), ('rank: (1, 1) for a 0-d tensor', (1, 1)), ('rank: (3,) for a 0-d tensor', (3,)), ('rank: (2, 3) for a 0-d tensor', (2, 3))]
    seen, res = {sh}, []
    for lab, v in out:
        if v not in seen and 0 not in v:
            seen.add(v); res.append((lab, v))
    return res


BOUNDARY_OPS = ['add', 'mul', 'neg', 'sum', 'mean', 'clone', 'reshape', 'transpose', 'slice', 'unsqueeze', 'squeeze', 'self2']


def _boundary_graph(rng, dt):
    P = gen_dag.Prog()
    for _ in range(rng.randint(1, 2)):
        sh = rng.pick([(), (1,), (3,), (2,), (2, 3), (1, 3), (2, 1), (2, 2)])
        P.add_leaf(sh, [round(v * 8) / 8 for v in gen_dag.rand_data(rng, sh)], rng.chance(.85), dt)
    want, tries = rng.randint(0, 4), 0
    while sum(1 for n in P.nodes if n['kind'] == 'op') < want and tries < 40:
        tries += 1
        gen_dag.gen_op(rng, P, BOUNDARY_OPS)
    if rng.chance(.4):      # a 0-d result on top: full reduction / element indexing
        a = rng.randrange(len(P.tshape))
        if P.tshape[a] and rng.chance(.4):
            P.add_op('slice', [a], [tprog.show_sel(tuple(rng.randrange(n) for n in P.tshape[a]))], [()])
        else:
            P.add_op(rng.pick(['sum', 'mean']), [a], ['all', 0], [()])
    return P


def boundary_case(rng, dt, what):
    """`what` = 'seed': backward(grad) calls whose upstream gradient has the root's shape or ONE OF ITS NEIGHBOURS (shape_variants);
    'setter': `.grad = …` assignments likewise.  Roots / targets are leaves and op results of every rank incl. 0-d.  After every
    call: dtype and shape of every gradient buffer.  The model mirrors the code: a gradient of another shape is refused (after the
    traversal zero-initialised the buffers), an accepted one leaves every buffer in its tensor's shape."""
    P = _boundary_graph(rng, dt)
    lines, _ = P.lines()
    nt = len(P.tshape)
    D = lambda sh: show_floats([round(v * 8) / 8 for v in gen_dag.rand_data(rng, sh, -2, 2)])
    classes = []
    roots = list(range(nt))
    zero_d = [t for t in roots if P.tshape[t] == ()]
    for _ in range(rng.randint(2, 5)):
        r = rng.pick(zero_d) if zero_d and rng.chance(.35) else rng.pick(roots)
        sh = P.tshape[r]
        if rng.chance(.65):
            lab, gs = rng.pick(shape_variants(sh))
        else:
            lab, gs = 'equal', sh
        classes.append(lab)
        if what == 'setter' and rng.chance(.6):
            lines.append(f"t setgrad {r} {show_ints(gs)} {D(gs)} {dt}")
        else:
            lines.append(f"t bw {r} {show_ints(gs)} {D(gs)} {rng.pick(['f32', 'f64'])}")
        lines += [f't gdtype {k}' for k in range(nt)]
    return {'kind': 'boundary-' + what, 'op': 'shape-check', 'dt': dt, 'gdt': 'mixed', 'nout': 1, 'zero_d': bool(zero_d), 'lines': lines, 'classes': classes}


def target_case(rng, dt):
    """loss targets whose shape is the prediction's or one of its neighbours: mse_loss checks the shapes (any other shape is
    refused), the BCE pair broadcasts (a target that broadcasts TO the prediction's shape is accepted and the gradient keeps the
    prediction's shape). Function and nn.*Loss class (every reduction); backward; dtype / shape of every buffer"""
    name = rng.pick(['mse_loss', 'mse_loss', 'binary_cross_entropy', 'binary_cross_entropy_with_logits'])
    s = gen_ops.rshape(rng, 0 if name == 'mse_loss' else 1, 3)
    n = int(np.prod(s)) if s else 1
    if rng.chance(.7):
        var = shape_variants(s)
        if name != 'mse_loss':      # (a target that makes the LOSS larger than the prediction is the kernels' subject, C02 / C06)
            var = [(l, v) for l, v in var if gen_dag.bshape(s, v) == s]
        lab, ts = rng.pick(var) if var else ('equal', s)
    else:
        lab, ts = 'equal', s
    m = int(np.prod(ts)) if ts else 1
    pv = [round(v * 64) / 64 for v in gen_ops.vals(rng, s, 'prob' if name == 'binary_cross_entropy' else 'any')]
    tv = [float(rng.randint(0, 1)) for _ in range(m)] if name != 'mse_loss' else [round(v * 64) / 64 for v in gen_ops.vals(rng, ts)]
    trg = name == 'mse_loss' and rng.chance(.4)
    lines = [gen_dag.leaf_line(s, pv, True, dt), gen_dag.leaf_line(ts, tv, trg, dt)]
    red = rng.pick(['mean', 'sum', 'none', 'fn'])
    if red == 'fn':
        lines.append(f't op {name} 0,1'); k = 2; osh = s
    else:
        lines.append(f't loss {name} {red} 0 1'); k = 2 + (0 if red == 'none' else 1); osh = s if red == 'none' else ()
    gdt = rng.pick(['f32', 'f64'])
    lines += [f't dtype {k}', f"t bw {k} {show_ints(osh)} {show_floats([round(v * 8) / 8 for v in gen_dag.rand_data(rng, osh, -2, 2)])} {gdt}",
              't gdtype 0', 't gdtype 1', f't gdtype {k}']
    return {'kind': 'boundary-target', 'op': name + '/' + red, 'dt': dt, 'gdt': gdt, 'nout': 1, 'zero_d': osh == (), 'lines': lines, 'classes': [lab]}


SCALAR_OPS = ['mean', 'sum', 'neg', 'clone', 'exp', 'sqrt', 'log', 'pow', 'reshape', 'unsqueeze', 'squeeze', 'self2', 'add', 'mul', 'tanh', 'sigmoid', 'relu',
              'softmax', 'log_softmax', 'sop', 'mse']


def scalar_leaf_case(rng, dt, first=None):
    """a 0-d (sometimes (1,) / (1, 1)) leaf that is the root of several backward calls — from the second call on it ACCUMULATES into the
    buffer it already holds — and the operand of ops of the whole catalogue that accept it (reductions, element-wise, shape ops, nn
    activations, operator forms with Python scalars, a loss), differentiated afterwards: every op's backward adds into that buffer.
    Upstream gradients of both dtypes; dtype and shape of every buffer after every call"""
    sh = rng.pick([(), (), (), (1,), (1, 1)])
    lines = [gen_dag.leaf_line(sh, [rng.pick([0.75, 1.5, 0.25, 2.0])], True, dt)]
    nt, sinks = 1, []
    for j in range(rng.randint(1, 4)):
        op = first if (j == 0 and first) else rng.pick(SCALAR_OPS)      # (`first`: every op of the list takes its turn)
        if op in ('mean', 'sum'):
            keep = rng.randint(0, 1)
            lines.append(f't op {op} 0 all {keep}'); osh = tuple(1 for _ in sh) if keep else ()
        elif op in ('neg', 'clone', 'exp', 'sqrt', 'log', 'tanh', 'sigmoid', 'relu'): lines.append(f't op {op} 0'); osh = sh
        elif op == 'pow': lines.append(f't op pow 0 {fbits(rng.pick([2.0, 3.0, 0.5]))}'); osh = sh
        elif op == 'reshape': lines.append('t op reshape 0 1'); osh = (1,)
        elif op == 'unsqueeze': lines.append('t op unsqueeze 0 0'); osh = (1,) + sh
        elif op == 'squeeze': lines.append('t op squeeze 0 all'); osh = ()
        elif op == 'self2': lines.append(f't op {rng.pick(["add", "mul"])} 0,0'); osh = sh
        elif op in ('add', 'mul'):      # against a tensor of another shape: the leaf is broadcast, its gradient reduced back
            s2 = rng.pick([(3,), (2, 2), ()])
            lines.append(gen_dag.leaf_line(s2, [round(v * 8) / 8 for v in gen_dag.rand_data(rng, s2)], rng.chance(.5), dt)); nt += 1
            lines.append(f't op {op} 0,{nt - 1}'); osh = gen_dag.bshape(sh, s2)
        elif op in ('softmax', 'log_softmax'):
            if sh == (): lines.append(f't op {op} 0 {rng.pick([0, -1])}')
            else: lines.append(f't op {op} 0 {rng.randrange(-len(sh), len(sh))}')
            osh = sh
        elif op == 'sop':
            kind = rng.pick(['add', 'mul', 'neg', 'sub', 'rsub', 'div', 'rdiv'])
            lines.append(f"t sop {kind} 0 s{fbits(rng.pick([3.0, 0.5, 2.0]))}")
            nt += {'add': 1, 'mul': 1, 'neg': 1, 'rsub': 3, 'rdiv': 2, 'sub': 1, 'div': 1}[kind]; osh = sh
        else:                           # mse against a constant target, reduced
            lines.append(gen_dag.leaf_line(sh, [0.5], False, dt)); nt += 1
            lines.append(f't loss mse_loss {rng.pick(["mean", "sum"])} 0 {nt - 1}'); nt += 1; osh = ()
        nt += 1
        sinks.append((nt - 1, osh))
    G = lambda s_: show_floats([round(v * 8) / 8 for v in gen_dag.rand_data(rng, s_, -2, 2)])
    q = lambda: [f't gdtype {k}' for k in range(nt)]
    evs = ['leaf'] * rng.randint(2, 3) + ['sink'] * len(sinks)
    if rng.chance(.5): evs = ['sink'] + evs          # (or a sweep through the leaf first: the buffer then starts as zeros_like)
    si = 0
    for e in evs:
        if e == 'leaf':
            lines.append(f"t bw 0 {show_ints(sh)} {G(sh)} {rng.pick(['f32', 'f64'])}")
        else:
            k, osh = sinks[si % len(sinks)]; si += 1
            lines.append(f"t bw {k} {show_ints(osh)} {G(osh)} {rng.pick(['f32', 'f64'])}")
        lines += q()
    return {'kind': 'scalar-leaf', 'op': 'accumulating 0-d leaf', 'dt': dt, 'gdt': 'mixed', 'nout': 1, 'zero_d': True, 'lines': lines}


# ---- float32 against float64 at the EDGES of every op's domain (implementation side) ---------------------------------------------
F32 = lambda v: float(np.float32(v))
# exact zeros, the smallest denormal, a denormal, the smallest normal of float32, values below every epsilon guard of the library
# (1e-12 in log / BCE, 1e-5 in batch-norm), around them, the largest float32 below 1, and a few ordinary values
EDGE_VALUES = [0.0, -0.0, F32(1.4e-45), F32(1e-40), F32(1.1754944e-38), F32(1e-30), F32(1e-20), F32(1e-13), F32(1e-12), F32(2e-12), F32(1e-7), F32(1e-5),
               F32(1.0 - 2.0 ** -24), 1.0, 0.5, 2.0]
EDGE_OPS = ['log', 'log of relu', 'sqrt', 'exp of -x', 'pow 0.5', 'pow 2', 'pow -1', 'pow 0', 'rpow 2', '1 / x', 'x / x', 'x / tiny tensor', 'x * x', 'sum', 'mean', 'max', 'min',
            'sigmoid', 'tanh', 'relu', 'leaky_relu', 'selu', 'softmax', 'log_softmax', 'log of softmax', 'binary_cross_entropy y=1', 'binary_cross_entropy y=0', 'BCELoss mean',
            'binary_cross_entropy_with_logits', 'mse_loss', 'cross_entropy', 'nll_loss of log', 'batch_norm constant channel']


def edge_case(rng, op, tier):
    """ONE op over ALL edge values (both signs where the op takes them), in a drawn order, next to a few ordinary values; run on float32 and on
    float64 operands holding the same numbers; forward values and the gradient of sum(out) are compared element by element"""
    vals = list(EDGE_VALUES) + [F32(rng.uniform(0.1, 3.0)) for _ in range(2)]
    vals = rng.sample(vals, len(vals))
    return {'kind': 'edge', 'op': op, 'dt': 'f32', 'gdt': 'f32', 'nout': 1, 'zero_d': False, 'vals': vals, 'lines': ['t modes']}


def _edge_fn(sg, nn, op, T, vals):
    """-> (result tensor, leaves)"""
    x = T(vals)
    neg = T([-v for v in vals])
    sym = T(vals + [-v for v in vals])
    U = lambda f, a=x: (f(a), [a])
    n = len(vals)
    if op == 'log': return U(lambda a: a.log())
    if op == 'log of relu': return U(lambda a: sg.relu(a).log(), sym)
    if op == 'sqrt': return U(lambda a: a.sqrt())
    if op == 'exp of -x': return U(lambda a: sg.exp(a), T([-v for v in vals] + [-87.0, -88.0, -100.0, -103.0, -104.0, -110.0]))
    if op.startswith('pow '): return U(lambda a: a ** float(op[4:]))
    if op == 'rpow 2': return U(lambda a: 2.0 ** a, sym)
    if op == '1 / x': return U(lambda a: 1.0 / a)
    if op == 'x / x': return U(lambda a: a / a)
    if op == 'x / tiny tensor':
        a, b = T([1.0] * n + list(vals)), T(list(vals) + list(reversed(vals)))
        return a / b, [a, b]
    if op == 'x * x': return U(lambda a: a * a, sym)
    if op in ('sum', 'mean'): return U(lambda a: getattr(a, op)(), sym)
    if op in ('max', 'min'): return U(lambda a: getattr(a.reshape((2, n)), op)(dim=0), sym)
    if op in ('sigmoid', 'tanh', 'relu', 'selu'): return U(lambda a: getattr(sg, op)(a), sym)
    if op == 'leaky_relu': return U(lambda a: sg.leaky_relu(a, 0.01), sym)
    if op in ('softmax', 'log_softmax'): return U(lambda a: getattr(sg, op)(a.reshape((2, n)), 1), sym)
    if op == 'log of softmax': return U(lambda a: sg.softmax(a.reshape((2, n)) * 40.0, 1).log(), sym)      # (probabilities down to exact zeros in float32)
    if op.startswith('binary_cross_entropy y='):
        y = sg.Tensor(np.full(n, float(op[-1]), dtype=x.data.dtype))
        return sg.binary_cross_entropy(x, y), [x]
    if op == 'BCELoss mean':
        p_ = T(list(vals) + list(vals))
        y = sg.Tensor(np.array([0.0] * n + [1.0] * n, dtype=x.data.dtype))
        return nn.BCELoss()(p_, y), [p_]
    if op == 'binary_cross_entropy_with_logits':
        a = T(list(vals) + [-v for v in vals])
        y = sg.Tensor(np.array([1.0, 0.0] * n, dtype=x.data.dtype))
        return sg.binary_cross_entropy_with_logits(a, y), [a]
    if op == 'mse_loss': return sg.mse_loss(sym, sg.Tensor(np.zeros(2 * n, dtype=x.data.dtype))), [sym]
    if op == 'cross_entropy':
        a = sym.reshape((n, 2)) if False else T(vals + [-v for v in vals])
        return sg.cross_entropy(a.reshape((n, 2)), sg.Tensor(np.arange(n) % 2, dtype=np.int32)), [a]
    if op == 'nll_loss of log':
        return sg.nll_loss(x.reshape((n // 2, 2)).log(), sg.Tensor(np.arange(n // 2) % 2, dtype=np.int32)), [x]
    if op.startswith('batch_norm'):
        eps = 1e-5 if 'constant' in op else 1e-12
        a = T([vals[j % n] for j in range(4)] * 3 + list(vals[:12]))          # channel 0 .. : constant columns (variance exactly 0) next to edge values
        a2 = a.reshape((2, 12)).transpose(0, 1) if False else a
        xx = T(sum([[vals[c], vals[c + 3] if c >= 3 else vals[c]] for c in range(6)], []))       # 6 channels x 2 rows, channels 0-2 constant
        xr = xx.reshape((6, 2)).transpose(0, 1)
        return sg.batch_norm(xr, None, None, None, None, True, 0.1, eps), [xx]
    raise KeyError(op)


def _edge(c):
    """None, or (class, description) of the first element on which the float32 run is not the float32 rounding of the float64 run"""
    sg = common.impl()
    from synapgrad import nn
    res = {}
    with np.errstate(all='ignore'):
        for dtn in ('f32', 'f64'):
            dt = tprog.DT[dtn]
            T = lambda v, dt=dt: sg.Tensor(np.array(v, dtype=np.float64).astype(dt), requires_grad=True)
            out, leaves = _edge_fn(sg, nn, c['op'], T, list(c['vals']))
            if out.data.dtype != dt: return 'result-dtype', f"{c['op']} at the edge values on {dtn} operands returned {out.data.dtype}"
            out.backward(sg.Tensor(np.ones(out.shape, dtype=dt)))
            for lf in leaves:
                if lf._grad is None or lf._grad.dtype != dt or lf._grad.shape != lf.data.shape:
                    return 'grad-dtype-shape', f"{c['op']} at the edge values on {dtn} operands: gradient buffer {None if lf._grad is None else (lf._grad.dtype, lf._grad.shape)}"
            res[dtn] = [np.array(out.data, dtype=np.float64)] + [np.array(lf._grad, dtype=np.float64) for lf in leaves] + [np.array(lf.data, dtype=np.float64) for lf in leaves]
        nl = (len(res['f32']) - 1) // 2
        known = None
        for k, (a, b) in enumerate(zip(res['f32'][:1 + nl], res['f64'][:1 + nl])):
            if a.shape != b.shape: return 'f32-f64-agreement', f"{c['op']}: shapes {a.shape} vs {b.shape}"
            b32 = b.astype(np.float32).astype(np.float64)          # the float32 rounding of the float64 result (overflow -> inf, underflow -> 0)
            ok = (np.isnan(a) & np.isnan(b32)) | (a == b32) | (np.abs(a - b32) <= 2e-4 * np.maximum(1.0, np.abs(b32)))
            for j in np.flatnonzero(~ok.ravel()):
                j = int(j)
                what = 'result' if k == 0 else f'gradient of operand {k - 1}'
                at_vals = [float(d.ravel()[j]) for d in res['f64'][1 + nl:] if d.size == a.size]
                at = f' (operand value(s) {at_vals})' if at_vals else ''
                cls = 'f32-f64-agreement'
                av, bv = float(a.ravel()[j]), float(b.ravel()[j])
                if c['op'].startswith(('binary_cross_entropy y=', 'BCELoss')) and k == 0 and av == 100.0 and abs(bv + np.log(1e-12)) < 1e-3 \
                        and any(0 < abs(v) < 1e-19 for v in at_vals):
                    # known finding: the clamp is an EQUALITY test with the level -log(eps); for 0 < p < ~6e-20, p + 1e-12 rounds to 1e-12 in float32 (the
                    # clamp fires: 100) and not in float64 (27.631).  At p == 0 both dtypes give 100 since fix 2 of the ledger (before it float32 never clamped).
                    cls = 'f32-f64-agreement-bce-clamp-level'
                elif c['op'] in ('x / x', 'x / tiny tensor', '1 / x', 'pow 0', 'pow -1', 'pow 0.5') and any(0 < abs(v) < 5.5e-20 for v in at_vals):
                    # known finding: a / b is a * b**-1, its gradient goes through b**-2 and that of a**n through a**(n-1): for |b| < 2.9e-39 (values) /
                    # 5.4e-20 (gradients) the reciprocal leaves float32's range although the quotient / gradient itself is representable
                    cls = 'f32-f64-agreement-reciprocal-out-of-range'
                msg = f"{c['op']}: {what}, element {j}{at}: float32 gives {float(a.ravel()[j])!r}, float64 gives {float(b.ravel()[j])!r}"
                if cls == 'f32-f64-agreement': return cls, msg
                known = known or (cls, msg)
        return known
    return None


# ---- float32 against float64 at LARGE-but-legal magnitudes (implementation side) --------------------------------------------------
# every op whose formula holds exp / log / pow / a division, at +-LARGE_MAGS (around float32's exp range 88.72 / -103.97, around float64's
# 709.78), rows mixing far-apart entries, constant offsets with small noise; forward values AND gradients (non-uniform upstream gradient);
# enumerated, not drawn: the same inputs in every run and in both tiers.  Demanded only where the float64 result is finite and its float32
# rounding is finite (a gradient: where that also holds for the forward result).  Only library ops and linear wrappers: a composite written
# here (log of exp, BCE of sigmoid) would hand float32 an intermediate TENSOR that single precision legitimately cannot hold.  Every input is ALSO run alone (as its own tensor), so a guard on the whole array's min / max cannot hide behind a
# neighbouring row that happens to take the safe path.
LARGE_MAGS = [30.0, 80.0, 88.0, 89.0, 100.0, 300.0, 690.0, 705.0]
LARGE_NOISE = [0.0, -1.5, 0.25]
LARGE_FAR_ROWS = [[0.0, 50.0, 100.0], [-120.0, 3.0, 90.0], [95.0, 97.0, 99.0], [-300.0, 0.0, 300.0], [-690.0, 0.0, 690.0], [-705.0, 0.0, 705.0], [88.0, 89.0, -89.0],
                  [-104.0, -110.0, -130.0], [650.0, -650.0, 12.0]]
LARGE_UP = [1.0, -2.0, 0.5, 3.0, -0.25]


def large_rows():
    rows = [list(r) for r in LARGE_FAR_ROWS]
    for m in LARGE_MAGS:
        for s in (1.0, -1.0):
            rows.append([s * m + e for e in LARGE_NOISE])
    return rows


def _lab(r, k): return np.arange(r) % k
LARGE_OPS = {
    # name: (layout, fn(sg, nn, a) -> result)      layout: 'elem' (any shape), 'pos' (positive operands), 'row' (2-d, along dim 1), 'col' (2-d, along dim 0)
    'exp': ('elem', lambda sg, nn, a: sg.exp(a)),
    'log': ('pos', lambda sg, nn, a: a.log()),
    'sqrt': ('pos', lambda sg, nn, a: a.sqrt()),
    'pow 2': ('elem', lambda sg, nn, a: a ** 2.0), 'pow 3': ('elem', lambda sg, nn, a: a ** 3.0), 'pow 12': ('elem', lambda sg, nn, a: a ** 12.0),
    'pow 0.5': ('pos', lambda sg, nn, a: a ** 0.5), 'pow -1': ('elem', lambda sg, nn, a: a ** -1.0), 'pow -2': ('elem', lambda sg, nn, a: a ** -2.0),
    'rpow 2': ('elem', lambda sg, nn, a: 2.0 ** a), 'rpow 1.1': ('elem', lambda sg, nn, a: 1.1 ** a),
    '1 / x': ('elem', lambda sg, nn, a: 1.0 / a), 'x / reversed x': ('elem2', lambda sg, nn, a, b: a / b), 'x * reversed x': ('elem2', lambda sg, nn, a, b: a * b),
    'sigmoid': ('elem', lambda sg, nn, a: sg.sigmoid(a)), 'nn.Sigmoid': ('elem', lambda sg, nn, a: nn.Sigmoid()(a)),
    'tanh': ('elem', lambda sg, nn, a: sg.tanh(a)), 'nn.Tanh': ('elem', lambda sg, nn, a: nn.Tanh()(a)),
    'relu': ('elem', lambda sg, nn, a: sg.relu(a)), 'leaky_relu': ('elem', lambda sg, nn, a: sg.leaky_relu(a, 0.01)),
    'selu': ('elem', lambda sg, nn, a: sg.selu(a)), 'nn.SELU': ('elem', lambda sg, nn, a: nn.SELU()(a)),
    'binary_cross_entropy_with_logits': ('elem', lambda sg, nn, a: sg.binary_cross_entropy_with_logits(a, sg.Tensor((np.arange(a.data.size) % 2).reshape(a.shape).astype(a.data.dtype)))),
    'nn.BCEWithLogitsLoss': ('elem', lambda sg, nn, a: nn.BCEWithLogitsLoss()(a, sg.Tensor(((np.arange(a.data.size) + 1) % 2).reshape(a.shape).astype(a.data.dtype)))),
    'mse_loss': ('elem', lambda sg, nn, a: sg.mse_loss(a, sg.Tensor(np.ones(a.shape, dtype=a.data.dtype)))),
    'sum': ('elem', lambda sg, nn, a: a.sum()), 'mean': ('elem', lambda sg, nn, a: a.mean()),
    'softmax': ('row', lambda sg, nn, a: sg.softmax(a, 1)), 'softmax dim 0': ('col', lambda sg, nn, a: sg.softmax(a, 0)),
    'nn.Softmax': ('row', lambda sg, nn, a: nn.Softmax(dim=1)(a)), 'nn.Softmax dim 0': ('col', lambda sg, nn, a: nn.Softmax(dim=0)(a)),
    'log_softmax': ('row', lambda sg, nn, a: sg.log_softmax(a, 1)), 'log_softmax dim 0': ('col', lambda sg, nn, a: sg.log_softmax(a, 0)),
    'nn.LogSoftmax': ('row', lambda sg, nn, a: nn.LogSoftmax(dim=1)(a)),
    'softmax * x': ('row', lambda sg, nn, a: sg.softmax(a, 1) * a),
    'cross_entropy': ('row', lambda sg, nn, a: sg.cross_entropy(a, sg.Tensor(_lab(a.shape[0], a.shape[1]), dtype=np.int32))),
    'nn.CrossEntropyLoss': ('row', lambda sg, nn, a: nn.CrossEntropyLoss()(a, sg.Tensor((_lab(a.shape[0], a.shape[1]) + 1) % a.shape[1], dtype=np.int64))),
    'nll_loss of log_softmax': ('row', lambda sg, nn, a: sg.nll_loss(sg.log_softmax(a, 1), sg.Tensor(_lab(a.shape[0], a.shape[1]), dtype=np.int32))),
    'max': ('row', lambda sg, nn, a: a.max(dim=1)), 'min': ('row', lambda sg, nn, a: a.min(dim=1)),
}


def large_inputs(layout):
    """[(label, nested list(s))]: every input alone AND all of them in one tensor"""
    rows = large_rows()
    if layout in ('row', 'col'):
        tr = (lambda m: [list(t) for t in zip(*m)]) if layout == 'col' else (lambda m: m)
        return [(f'row {r}', [tr([r])]) for r in rows] + [('all rows in one tensor', [tr(rows)]), ('the rows inside (-700, 700) in one tensor', [tr([r for r in rows if max(map(abs, r)) < 700])])]
    groups = [[s * m + e for s in (1.0, -1.0) for e in LARGE_NOISE] for m in LARGE_MAGS] + [list(r) for r in LARGE_FAR_ROWS]
    if layout == 'pos': groups = [sorted({abs(v) + 0.5 for v in g}) for g in groups] + [[1e10, 1e30, 3e38, 1e-30]]
    groups = groups + [sum(groups, [])]
    if layout == 'elem2': return [(f'values {g}', [g, list(reversed(g))]) for g in groups]
    return [(f'values {g}', [g]) for g in groups]


def large_case(op):
    layout = LARGE_OPS[op][0]
    return {'kind': 'large', 'op': op, 'dt': 'f32', 'gdt': 'f32', 'nout': 1, 'zero_d': False, 'layout': layout, 'ninputs': len(large_inputs(layout)), 'lines': ['t modes']}


def _large_known(op, what, av, bv, at_vals):
    """class suffix of a listed finding this disagreement belongs to, or None"""
    return None


def _large(c, only=None):
    """None, or (class, description, input) of the first element on which the float32 run is not the float32 rounding of a finite, float32-representable
    float64 result"""
    sg = common.impl()
    from synapgrad import nn
    layout, fn = LARGE_OPS[c['op']]
    known = None
    with np.errstate(all='ignore'):
        for label, arrs in large_inputs(layout):
            if only is not None and label != only: continue
            res = {}
            for dtn in ('f32', 'f64'):
                dt = tprog.DT[dtn]
                leaves = [sg.Tensor(np.array(v, dtype=np.float64).astype(np.float32).astype(dt), requires_grad=True) for v in arrs]
                out = fn(sg, nn, *leaves)
                if out.data.dtype != dt: return 'result-dtype', f"{c['op']} of {label} on {dtn} operands returned {out.data.dtype}", label
                n = max(1, int(np.prod(out.shape)))
                up = np.array([LARGE_UP[j % len(LARGE_UP)] for j in range(n)], dtype=dt).reshape(out.shape)
                out.backward(sg.Tensor(up))
                for lf in leaves:
                    if lf._grad is None or lf._grad.dtype != dt or lf._grad.shape != lf.data.shape:
                        return 'grad-dtype-shape', f"{c['op']} of {label} on {dtn} operands: gradient buffer {None if lf._grad is None else (lf._grad.dtype, lf._grad.shape)}", label
                res[dtn] = [np.array(out.data, dtype=np.float64)] + [np.array(lf._grad, dtype=np.float64) for lf in leaves]
            for k, (a, b) in enumerate(zip(res['f32'], res['f64'])):
                if a.shape != b.shape: return 'f32-f64-agreement', f"{c['op']} of {label}: shapes {a.shape} vs {b.shape}", label
                b32 = b.astype(np.float32).astype(np.float64)
                demanded = np.isfinite(b) & np.isfinite(b32)          # float64 finite and inside float32's range
                if k > 0:          # a gradient is demanded only where the forward result it belongs to is representable in float32 itself
                    r64 = res['f64'][0]; rep = np.isfinite(r64) & np.isfinite(r64.astype(np.float32))
                    demanded = demanded & (rep if rep.shape == b.shape else bool(rep.all()))
                ok = ~demanded | (a == b32) | (np.abs(a - b32) <= 2e-4 * np.maximum(1.0, np.abs(b32)))
                for j in np.flatnonzero(~ok.ravel()):
                    j = int(j)
                    what = 'result' if k == 0 else f'gradient of operand {k - 1}'
                    av, bv = float(a.ravel()[j]), float(b.ravel()[j])
                    at_vals = [float(np.array(v, dtype=np.float64).ravel()[j]) for v in arrs if np.array(v).size == a.size]
                    msg = f"{c['op']} of {label}: {what}, element {j}{' (operand value(s) ' + str(at_vals) + ')' if at_vals else ''}: float32 gives {av!r}, float64 gives {bv!r}"
                    kn = _large_known(c['op'], what, av, bv, at_vals)
                    if kn is None: return 'f32-f64-agreement', msg, label
                    known = known or ('f32-f64-agreement-' + kn, msg, label)
    return known


# ---- every nn layer under every option value, boundary values included, x both dtypes x train / eval (implementation side) --------
def layer_options():
    """(layer name, constructor arguments as a printable tuple, input shape)"""
    out = []
    for p_ in (0.0, 0.25, 0.5, 1.0 - 2.0 ** -24, 1.0): out.append(('Dropout', (p_,), (4, 3)))
    for mo in (None, 0.0, 0.1, 1.0):
        for eps in (0.0, 1e-5, 1.0):
            for affine in (False, True):
                for track in (False, True):
                    out.append(('BatchNorm1d', (eps, mo, affine, track), (4, 3)))
                    if mo in (None, 1.0) or eps == 0.0: out.append(('BatchNorm2d', (eps, mo, affine, track), (3, 2, 2, 2)))
        out.append(('BatchNorm1d', (1e-5, mo, True, True), (2, 3, 4)))
    for sl in (0.0, 0.01, 1.0, 2.0, -1.0): out.append(('LeakyReLU', (sl,), (3, 2)))
    for name in ('ReLU', 'SELU', 'Tanh', 'Sigmoid'): out += [(name, (), (3, 2)), (name, (), ())]
    for name in ('Softmax', 'LogSoftmax'):
        for dim in (0, 1, -1): out.append((name, (dim,), (3, 2)))
        out.append((name, (0,), (4,)))
    for name in ('MaxPool1d', 'AvgPool1d'):
        for k, st, pd, dil in ((5, None, 0, 1), (1, 1, 0, 1), (2, 7, 1, 1), (2, 1, 0, 4), (3, 2, 1, 2), (5, 5, 2, 1)):
            out.append((name, (k, st, pd, dil), (2, 2, 5)))
    for name in ('MaxPool2d', 'AvgPool2d'):
        for k, st, pd, dil in (((4, 3), None, 0, 1), (1, 1, 0, 1), (2, (5, 5), 1, 1), ((2, 1), 1, 0, (3, 2)), (3, 2, 1, 1)):
            out.append((name, (k, st, pd, dil), (2, 2, 4, 3)))
    for bias in (False, True):
        for k, st, pd, dil in ((5, 1, 0, 1), (1, 1, 0, 1), (2, 6, 1, 1), (2, 1, 0, 4), (3, 2, 2, 2)):
            out.append(('Conv1d', (2, 3, k, st, pd, dil, bias), (2, 2, 5)))
        for k, st, pd, dil in (((4, 3), 1, 0, 1), (1, 1, 0, 1), (2, (5, 4), 1, 1), ((2, 1), 1, 0, (3, 2)), (3, 2, 1, 1)):
            out.append(('Conv2d', (2, 3, k, st, pd, dil, bias), (2, 2, 4, 3)))
        for i, o in ((1, 1), (3, 1), (1, 4), (3, 2)):
            out.append(('Linear', (i, o, bias), (2, i))); out.append(('Linear', (i, o, bias), (1, i)))
        out.append(('Neuron', (3, bias), (2, 3)))
    for sd, ed in ((0, -1), (1, -1), (1, 1), (0, 0), (-1, -1), (1, 2)): out.append(('Flatten', (sd, ed), (2, 3, 2)))
    for k, st, pd, dil, pv in (((4, 3), 1, 0, 1, 0), (1, 1, 0, 1, 0), (2, 1, 1, 1, 0.5), (2, 2, 2, 1, -1), ((2, 1), 1, 0, (3, 2), 0), (2, 1, 1, 1, 7)):
        out.append(('Unfold', (k, st, pd, dil, pv), (2, 2, 4, 3)))
    for osz, k, st, pd, dil in (((2, 2), 2, 1, 0, 1), ((3, 3), 2, 1, 0, 1), ((2, 2), 1, 1, 0, 1), ((2, 2), 2, 1, 1, 1), ((3, 3), 2, 1, 0, 2)):
        L = ((osz[0] + 2 * pd - dil * (k - 1) - 1) // st + 1) * ((osz[1] + 2 * pd - dil * (k - 1) - 1) // st + 1)
        out.append(('Fold', (osz, k, st, pd, dil), (2, 3 * k * k, L)))
    for name in ('MSELoss', 'BCELoss', 'BCEWithLogitsLoss', 'NLLLoss', 'CrossEntropyLoss'):
        for red in ('mean', 'sum', 'none'): out.append((name, (red,), (3, 2)))
    return out


def layeropt_case(rng, spec, dt):
    name, args, xsh = spec
    return {'kind': 'layeropt', 'op': f'{name}{args}', 'layer': name, 'args': list(args), 'xsh': list(xsh), 'dt': dt, 'gdt': 'f64' if dt == 'f32' else 'f32', 'nout': 1,
            'zero_d': False, 'seed': rng.randrange(2 ** 31), 'modes': rng.sample(['train', 'eval', 'train', 'eval'], 4), 'lines': ['t modes']}


def _tup(v): return tuple(v) if isinstance(v, list) else v


def _layeropt(c):
    """the layer object built once, called in train and eval mode (in a drawn order, so also again after the other mode) on operands of dtype
    `dt`: dtype / shape of the result, of a reduction on top of it, of every gradient (upstream gradient of the OTHER dtype), of parameters and
    buffers afterwards"""
    sg = common.impl()
    from synapgrad import nn
    dt, other = tprog.DT[c['dt']], tprog.DT[c['gdt']]
    rs = np.random.RandomState(c['seed'])
    name, a, xsh = c['layer'], [_tup(v) for v in c['args']], tuple(c['xsh'])
    if name.startswith('BatchNorm'): m = getattr(nn, name)(xsh[1], eps=a[0], momentum=a[1], affine=a[2], track_running_stats=a[3], dtype=dt)
    elif name == 'Unfold': m = nn.Unfold(a[0], stride=a[1], padding=a[2], dilation=a[3], pad_value=a[4])
    elif name == 'Fold': m = nn.Fold(a[0], a[1], stride=a[2], padding=a[3], dilation=a[4])
    elif name.endswith('Loss'): m = getattr(nn, name)(reduction=a[0])
    else: m = getattr(nn, name)(*a)
    for p_ in m.parameters():
        p_.data = p_.data.astype(dt)
    bufs = {k: v for k, v in vars(m).items() if isinstance(v, sg.Tensor) and not isinstance(v, nn.Parameter)}
    for mode in c['modes']:
        m.train() if mode == 'train' else m.eval()
        tag = f"{name}{tuple(a)} in {mode} mode on a {c['dt']} input of shape {xsh}"
        data = rs.rand(*xsh) if name == 'BCELoss' else rs.randn(*xsh)
        x = sg.Tensor(np.asarray(data).astype(dt), requires_grad=True)
        if name.endswith('Loss'):
            if name in ('NLLLoss', 'CrossEntropyLoss'): y = sg.Tensor(rs.randint(0, xsh[1], xsh[0]), dtype=np.int32)
            else: y = sg.Tensor(rs.randint(0, 2, xsh).astype(dt))
            out = m(x, y)
        else:
            out = m(x)
        if out.data.dtype != dt: return f'{tag}: result dtype {out.data.dtype}'
        red = out.sum()
        if red.data.dtype != dt or red.shape != (): return f'{tag}: out.sum() is {red.data.dtype}{red.shape}'
        out.backward(sg.Tensor(np.ones(out.shape, dtype=other)))
        if x._grad is None or x._grad.dtype != dt or x._grad.shape != x.data.shape:
            return f'{tag}: input gradient is {None if x._grad is None else (x._grad.dtype, x._grad.shape)}'
        for p_ in m.parameters():
            if p_.data.dtype != dt: return f'{tag}: a parameter became {p_.data.dtype}'
            if p_._grad is not None and (p_._grad.dtype != dt or p_._grad.shape != p_.data.shape): return f'{tag}: parameter gradient is {p_._grad.dtype}{p_._grad.shape}'
        for k, v in vars(m).items():
            if isinstance(v, sg.Tensor) and not isinstance(v, nn.Parameter) and v.data.dtype.kind == 'f' and k in bufs and v.data.dtype != dt:
                return f'{tag}: buffer {k} became {v.data.dtype}'
    return None


def cases(rng, tier):
    out = []
    reps = 2 if tier == 'quick' else 40
    for dt in ('f32', 'f64'):
        for j in range(21 * reps):
            out.append(scalar_leaf_case(rng, dt, SCALAR_OPS[j % len(SCALAR_OPS)]))
    for dt in ('f32', 'f64'):
        for _ in range(30 * reps):
            out.append(boundary_case(rng, dt, 'seed'))
        for _ in range(20 * reps):
            out.append(boundary_case(rng, dt, 'setter'))
        for _ in range(20 * reps):
            out.append(target_case(rng, dt))
    for dt in ('f32', 'f64'):
        for _ in range(20 * reps):
            out.append(hist_case(rng, dt))
        for _ in range(4 * reps):
            out.append(opthist_case(rng, dt))
        out.append(big_case(rng, dt))
    for dt in ('f32', 'f64'):
        for _ in range(6 * reps):
            out.append(bnhist_case(rng, dt))
    for dt in ('f32', 'f64'):
        for gdt in ('f32', 'f64'):
            for op in gen_ops.OPS_BASIC + gen_ops.OPS_NN:
                for _ in range(reps):
                    out.append(op_case(rng, op, dt, gdt))
            for _ in range(8 * reps):
                out.append(sop_case(rng, dt, gdt))
                out.append(loss_case(rng, dt, gdt))
    for _ in range(12 if tier == 'quick' else 240):
        out.append(mixed_const_case(rng))
    for _ in range(1 if tier == 'quick' else 10):
        for op in EDGE_OPS:
            out.append(edge_case(rng, op, tier))
    for op in LARGE_OPS:          # enumerated: the same inputs in every run, both tiers
        out.append(large_case(op))
    specs = layer_options()
    for dt in ('f32', 'f64'):
        for spec in specs:
            out.append(layeropt_case(rng, spec, dt))
    # corpus: full reduction / element indexing / reduced loss of float64 operands
    for dt in ('f32', 'f64'):
        out.append({'kind': 'op', 'op': 'sum', 'dt': dt, 'gdt': 'f32', 'nout': 1, 'zero_d': True,
                    'lines': [gen_dag.leaf_line((2, 2), [1., 2, 3, 4], True, dt), 't op sum 0 all 0', 't dtype 1', 't op slice 0 i0;i1', 't dtype 2',
                              f't bw 1 _ {show_floats([2.0])} f32', 't gdtype 0', 't gdtype 1']})
    # corpus: a 0-d float32 leaf that was the root of two backward calls (0-d + 0-d used to leave a NumPy scalar as its buffer), then a
    # sweep through mean, whose gradient array is float64 (finding, repaired)
    one = show_floats([1.0])
    out.append({'kind': 'scalar-leaf', 'op': 'accumulating 0-d leaf', 'dt': 'f32', 'gdt': 'f32', 'nout': 1, 'zero_d': True,
                'lines': [gen_dag.leaf_line((), [0.75], True, 'f32'), 't op mean 0 all 0', f't bw 0 _ {one} f32', 't gdtype 0', f't bw 0 _ {one} f32', 't gdtype 0',
                          f't bw 1 _ {one} f32', 't gdtype 0', 't gdtype 1']})
    # corpus: a RETAINED non-leaf gradient of a float32 tensor whose consumers send it float64 contributions (mean over a dim divides by a
    # NumPy integer; an upstream gradient of the other dtype): the buffer keeps the tensor's dtype and shape — with retain_grad() marks and
    # inside a retain_grads block, both dtypes
    g6 = show_floats([1.0, -2.0, 0.5]); g23 = show_floats([1.0, 2.0, 3.0, -1.0, -2.0, 0.5])
    for dt in ('f32', 'f64'):
        odt = 'f64' if dt == 'f32' else 'f32'
        for how in ('mark', 'block'):
            lines = [gen_dag.leaf_line((2, 3), [1., 2, 3, 4, 5, 6], True, dt), gen_dag.leaf_line((2, 3), [.5, -1, 2, 1, 3, -2], True, dt)]
            if how == 'block': lines += ['t ctx new rg', 't ctx enter 0']
            lines += ['t op mul 0,1', 't op mean 2 i:0 0', 't op neg 2', 't op sum 4 all 0']
            if how == 'mark': lines += ['t retain 2', 't retain 4']
            lines += [f't bw 3 3 {g6} {odt}', 't gdtype 2', 't gdtype 0', f't bw 5 _ {show_floats([2.0])} {dt}', 't gdtype 2', 't gdtype 4', 't gdtype 0', 't gdtype 1']
            if how == 'block': lines += ['t ctx exit 0']
            out.append({'kind': 'hist', 'op': 'retained non-leaf gradient', 'dt': dt, 'gdt': 'mixed', 'nout': 1, 'zero_d': True, 'lines': lines})
    # corpus: ONE Python constant met first by a float64 tensor and then by a float32 tensor (and the other way round), through every operator
    # spelling that wraps a scalar (x * c, c - x, -x, x / c): a scalar operand takes the dtype of the tensor it meets, each time
    for first, second in (('f64', 'f32'), ('f32', 'f64')):
        for k, c0 in enumerate((2.5, 3.0, -1.0, 7.25)):
            lines = [gen_dag.leaf_line((2,), [1.5, 2.5], True, first), gen_dag.leaf_line((2,), [0.5, 4.0], True, second)]
            nt = 2; res = []
            for leaf in (0, 1):
                for kind in ('mul', 'sub', 'div', 'add'):
                    lines.append(f't sop {kind} {leaf} s{fbits(c0)}'); nt += 2; res.append(nt - 1)
            for r in res: lines.append(f't dtype {r}')
            out.append({'kind': 'sop', 'op': 'mixed-constant', 'dt': second, 'gdt': second, 'lines': lines, 'nout': 1, 'zero_d': False})
    for c in out:
        c['desc'] = ' ; '.join(c['lines'])[:500]
    _SAFE['pending'] = [c['lines'] for c in out if c['kind'].startswith('boundary')]
    return out


# The boundary programs run in CHILD interpreters: a gradient of an odd shape that gets past a shape check can take NumPy down with
# the whole process (np.add.at with values that do not broadcast is a segmentation fault, not an exception). One child runs all
# pending programs and reports after each; when it dies, the program it was running is answered `crashed` on every line and a new
# child goes on with the rest.
_SAFE = {'pending': [], 'done': {}}


def _child(progs):
    import subprocess, sys, json, os
    here = os.path.dirname(os.path.dirname(os.path.abspath(__file__)))
    code = ("import sys, json; sys.path.insert(0, %r)\n"
            "import tprog, props.c10 as m\n"
            "for k, p in enumerate(json.load(sys.stdin)):\n"
            "    print('@@RESULT@@' + json.dumps([k, tprog.run_program(p, m.Exec)]), flush=True)\n") % here
    p = subprocess.run([sys.executable, '-c', code], input=json.dumps(progs), capture_output=True, text=True, timeout=900)
    res = {}
    for l in p.stdout.split('\n'):
        if l.startswith('@@RESULT@@'):
            k, io = json.loads(l[len('@@RESULT@@'):])
            res[k] = io
    return res, p.returncode


def _safe_run(programs):
    """answers of every program (list of lines); a program that kills its interpreter is answered ['crashed', ...]"""
    out, todo = {}, list(range(len(programs)))
    while todo:
        res, rc = _child([programs[i] for i in todo])
        for k, io in res.items(): out[todo[k]] = io
        rest = todo[len(res):]
        if rest and len(res) < len(todo):
            if rc == 0 and not res: raise RuntimeError('child interpreter gave no answers')
            out[rest[0]] = ['crashed'] * len(programs[rest[0]])      # the one that was running when the child died
            rest = rest[1:]
        todo = rest
    return [out[i] for i in range(len(programs))]


def _safe_io(lines):
    key = common.digest(lines)
    if key not in _SAFE['done']:
        progs = [q for q in _SAFE['pending'] if common.digest(q) not in _SAFE['done']]
        if lines not in progs: progs.append(lines)
        for q, io in zip(progs, _safe_run(progs)):
            _SAFE['done'][common.digest(q)] = io
        _SAFE['pending'] = []
    return _SAFE['done'][key]


def _run(c):
    return _safe_io(c['lines']) if c['kind'].startswith('boundary') else tprog.run_program(c['lines'], Exec)


def impl(c):
    return _run(c)


def compare(c, mo, io):
    if c['kind'] == 'bnhist':
        f = common.outcome(lambda: _bnhist(c))
        return [('BatchNorm layer history', 'dtype kept', str(f))] if f else []
    if c['kind'] == 'opthist':
        f = common.outcome(lambda: _opthist(c))
        return [('optimizer history', 'dtype kept', str(f))] if f else []
    if c['kind'] == 'big':
        f = common.outcome(lambda: _big(c))
        return [('large input', 'dtype kept', str(f))] if f else []
    if c['kind'] == 'edge':
        f = common.outcome(lambda: _edge(c))
        return [('float32 vs float64 at the edges of the domain', 'agree to single precision', str(f))] if f else []
    if c['kind'] == 'large':
        f = common.outcome(lambda: _large(c))
        return [('float32 vs float64 at large-but-legal magnitudes', 'agree to single precision', str(f))] if f else []
    if c['kind'] == 'layeropt':
        f = common.outcome(lambda: _layeropt(c))
        return [('layer under one option value', 'dtype and shape kept', str(f))] if f else []
    diffs = []
    for l, m, i in zip(c['lines'], mo, io):
        if l.startswith(('t dtype', 't gdtype')) or l.startswith(('t op', 't sop', 't loss', 't leaf')):
            if m != i and i != 'hidden' and not (m == 'bad-op' and i == 'rejected'):
                diffs.append((l[:120], m, i))
        elif l.startswith(('t bw', 't setgrad')):
            if (m == 'rejected') != (i == 'rejected') or i == 'crashed':
                diffs.append((l[:120], m[:40], i[:40]))
    if not diffs and c['dt'] == 'f32' and c['kind'] == 'op' and 'leaves' in c:
        f = _agree(c)
        if f: diffs.append(('float32 vs float64', 'agree to single precision', f))
    return diffs[:3]


def _agree(c):
    """implementation only: the same op on float32 and float64 operands"""
    if c['nout'] == 0: return None
    nl = len(c['leaves'])
    res = {}
    for dt in ('f32', 'f64'):
        cc = dict(c, dt=dt)
        lines = gen_ops.program(cc, None) + [f't val {nl + k}' for k in range(c['nout'])]
        res[dt] = tprog.run_program(lines)[-c['nout']:]
    for a, b in zip(res['f32'], res['f64']):
        if '|' not in a or '|' not in b: continue
        x, y = tprog.parse_arr(a), tprog.parse_arr(b)
        if x.shape != y.shape: return f'shapes {x.shape} vs {y.shape}'
        fin = np.isfinite(y)
        scale = max(1.0, float(np.abs(y[fin]).max()) if fin.any() else 1.0)
        if fin.any() and np.abs(x[fin] - y[fin]).max() > 2e-4 * scale:
            return f'{c["op"]}: float32 {x.ravel()[:4].tolist()} vs float64 {y.ravel()[:4].tolist()}'
    return None


def nontrivial(c):
    return c['nout'] > 0


def distribution(cases):
    d = {'zero_d_results': sum(1 for c in cases if c.get('zero_d'))}
    for c in cases:
        k = f"{c['kind']}:{c['dt']}/g{c['gdt']}"
        d[k] = d.get(k, 0) + 1
        if c['kind'] == 'edge':
            k = f"edge values (zeros, denormals, below every epsilon guard; {len(c['vals'])} values) float32 vs float64: {c['op']}"
            d[k] = d.get(k, 0) + 1
        if c['kind'] == 'large':
            k = f"large-but-legal magnitudes, float32 vs float64, result and gradient ({c['ninputs']} inputs, layout {c['layout']}): {c['op']}"
            d[k] = d.get(k, 0) + 1
            ks = f'large-magnitude inputs, enumerated in every run (+-{[int(m) for m in LARGE_MAGS]} with offsets {LARGE_NOISE}, {len(LARGE_FAR_ROWS)} far-apart rows; each alone and all in one tensor)'
            d[ks] = d.get(ks, 0) + c['ninputs']
        if c['kind'] == 'layeropt':
            k = f"layer option values x train/eval: {c['layer']}"
            d[k] = d.get(k, 0) + 1
        for lab in c.get('classes', []):        # shape of the upstream gradient / assigned gradient / loss target relative to the tensor's
            k = f"{c['kind']} shape class {lab}"
            d[k] = d.get(k, 0) + 1
    return d


def oracle(c):
    """dtype / shape inspection on the implementation alone"""
    key = {'kind': c['kind'], 'op': c['op']}
    cc = {k: v for k, v in c.items() if k != 'desc'}
    if c['kind'] == 'bnhist':
        f = common.outcome(lambda: _bnhist(c))
        return {'key': dict(key, cls='layer-dtype'), 'case': cc, 'what': str(f)} if f else None
    if c['kind'] == 'opthist':
        f = common.outcome(lambda: _opthist(c))
        return {'key': dict(key, cls='optimizer-history-dtype'), 'case': cc, 'what': str(f)} if f else None
    if c['kind'] == 'big':
        f = common.outcome(lambda: _big(c))
        return {'key': dict(key, cls='large-input-dtype'), 'case': cc, 'what': str(f)} if f else None
    if c['kind'] == 'edge':
        f = common.outcome(lambda: _edge(c))
        if f == 'rejected': return {'key': dict(key, cls='edge-raised'), 'case': cc, 'what': f"{c['op']} raised at the edge values (float32 or float64)"}
        if f and f[0] != 'f32-f64-agreement' and f[0].startswith('f32-f64-agreement-'): return {'key': {'kind': 'edge', 'cls': f[0]}, 'case': cc, 'what': f[1]}
        return {'key': dict(key, cls=f[0]), 'case': cc, 'what': f[1]} if f else None
    if c['kind'] == 'large':
        f = common.outcome(lambda: _large(c, c.get('only')))
        if f == 'rejected': return {'key': dict(key, cls='large-raised'), 'case': cc, 'what': f"{c['op']} raised at large-but-legal magnitudes (float32 or float64)"}
        if f and f[0] != 'f32-f64-agreement' and f[0].startswith('f32-f64-agreement-'): return {'key': {'kind': 'large', 'cls': f[0]}, 'case': dict(cc, only=f[2]), 'what': f[1]}
        return {'key': dict(key, cls=f[0]), 'case': dict(cc, only=f[2]), 'what': f[1]} if f else None          # (the case narrowed to the ONE failing input)
    if c['kind'] == 'layeropt':
        f = common.outcome(lambda: _layeropt(c))
        return {'key': {'kind': c['kind'], 'op': c['layer'], 'cls': 'layer-option-dtype'}, 'case': cc, 'what': str(f)} if f else None
    if c['op'] == 'mixed-constant': return None      # (two operand dtypes in one program: judged line by line against the model only)
    io = _run(c)
    if 'crashed' in io:
        return {'key': dict(key, cls='interpreter-crash'), 'case': cc,
                'what': 'the program kills the interpreter (a gradient / target of a shape the unchanged code refuses reached a NumPy kernel): ' + ' ; '.join(c['lines'])[:300]}
    last = None
    for li, (l, o) in enumerate(zip(c['lines'], io)):
        if l.startswith(('t bw', 't setgrad')): last = (l.split(' ')[1:4], o[:8])
        if l.startswith('t dtype') and o in ('f32', 'f64') and o != c['dt']:
            return {'key': dict(key, cls='result-dtype'), 'case': cc, 'what': f"{c['op']} on {c['dt']} operands returned {o} ({l})"}
        if l.startswith('t gdtype') and o not in ('-', 'hidden', 'rejected', c['dt']):
            if c['kind'].startswith('boundary'):      # the shortest prefix of the program that shows it
                cc = dict(cc, lines=c['lines'][:li + 1])
                return {'key': dict(key, cls='grad-dtype-shape'), 'case': cc,
                        'what': f"after `{' '.join(last[0]) if last else '?'}` (a gradient of that shape handed to t{last[0][1] if last else '?'}; answered {last[1] if last else '?'}) "
                                f"the gradient buffer of a {c['dt']} tensor is {o} ({l})"}
            return {'key': dict(key, cls='grad-dtype-shape'), 'case': cc, 'what': f"{c['op']} on {c['dt']} operands with a {c['gdt']} upstream gradient: gradient buffer is {o} ({l})"}
    if c['dt'] == 'f32' and c['kind'] == 'op' and 'leaves' in c:
        f = _agree(c)
        if f:
            return {'key': dict(key, cls='f32-f64-agreement'), 'case': cc, 'what': f}
    return None


def search(rng, tier):
    for c in cases(rng, 'quick'):
        f = oracle(c)
        if f: yield f


def _fix(c):
    if 'leaves' in c: c['leaves'] = [tuple([tuple(lf[0])] + list(lf[1:])) for lf in c['leaves']]
    return c
def matches_known(k, fail): return k.get('key') == fail.get('key')
def rerun_known(k): return oracle(_fix(k['witness'])) is not None
def replay(fail):
    f = oracle(_fix(fail['case']))
    return {'fails': f is not None, 'now': f}
