"""C07 — requires_grad propagation and grad-mode contexts"""
import numpy as np
import common
from common import show_floats, show_ints
import tprog, gen_dag
tprog.DTYPE_KW = True
tprog.ENTRIES = True        # function / Tensor method / operator / augmented operator statement, varying from call to call

PROP = 'C07'
LEAN_TARGETS = ['Props.C07']
REQUIRED_THEOREMS = ['Props.C07.modes_stack', 'Props.C07.ctx_restores', 'Props.C07.result_requires_grad_rule',
                     'Props.C07.no_grad_result_has_no_history', 'Props.C07.release_rule', 'Props.C07.float_only']
RULE = ('event sequences: context objects created (possibly long before use, re-used, entered while another is active), '
        'well-nested enter/exit at depth <= 5 incl. exits by exception, leaves created with either flag and float/int dtype, ops on '
        'mixed operands inside and outside contexts, requires_grad toggled on leaves and non-leaves, retain_grad, backward inside / '
        'outside contexts; compared after every event: global modes, flags (requires_grad, is_leaf, grad_fn, has grad, #children) '
        'of every tensor. Non-trivial: nesting depth >= 2 with a pre-constructed context and at least one op inside no_grad.')
EXHAUSTIVE = {'quick': False, 'thorough': False}
ASSUMPTIONS = ['exit by exception is exercised by calling __exit__ with exception info (what the with-statement does)']
TRUSTED_BASE = ['harness/tprog.py']
OPS = ['add', 'mul', 'neg', 'sum', 'clone', 'self2', 'reshape']


class Exec(tprog.Impl):
    def run(self, line):
        t = line.split(' ')
        if t[1] == 'ctx' and t[2] == 'exitexc':
            self.ctxs[int(t[3])].__exit__(ValueError, ValueError('x'), None); return 'ok'
        return super().run(line)


def to_model(line):
    """complex / unsigned / 16-bit / bool dtypes are all `not floating point` for the model: spelled i64 there"""
    t = line.split(' ')
    if len(t) > 2 and t[1] == 'leaf' and t[2] in ('c64', 'c128', 'u8', 'i16', 'bool'):
        t[2] = 'i64'
        return ' '.join(t)
    return line


def gen_seq(rng, tier):
    P = gen_dag.Prog()
    lines = []
    nctx = 0
    depth = [0]
    stats = {'maxdepth': 0, 'pre': False, 'op_in_ng': False}
    created_at_depth = {}
    active = []     # stack of (ctx id, kind)
    ints = set()

    def q():
        nt = len(P.tshape)
        lines.append('t modes')
        for k in range(nt):
            lines.append(f't flags {k}')

    def new_ctx():
        nonlocal nctx
        kind = rng.pick(['ng', 'ng', 'rg'])
        lines.append(f't ctx new {kind}')
        created_at_depth[nctx] = (len(active), kind)
        nctx += 1
        return nctx - 1

    def event():
        r = rng.random()
        nt = len(P.tshape)
        if r < 0.18 or nt == 0:
            sh = rng.pick([(2,), (), (2, 2)])
            dt = rng.pick(['f64', 'f64', 'f64', 'f64', 'i64', 'c128', 'c64', 'u8', 'i16', 'bool'])   # float32 rounding of gradients is C10's subject
            rg = rng.chance(.6)
            data = [float(rng.randint(-3, 3)) for _ in range(int(np.prod(sh)) if sh else 1)]
            lines.append(gen_dag.leaf_line(sh, data, rg, dt))
            # a rejected creation (int tensor requiring grad) creates nothing
            if not (rg and dt != 'f64' and not any(k == 'ng' for _, k in active)):
                tid = P.add_leaf(sh, data, rg, dt)
                if dt != 'f64': ints.add(tid)
        elif r < 0.50:
            flo = [t for t in range(nt) if t not in ints]
            if not flo: return
            before = len(P.nodes)
            gen_dag.gen_op(rng, P, OPS, flo)   # integer tensors only exercise the creation / setter rules
            if len(P.nodes) > before:
                nd = P.nodes[-1]
                lines.append(' '.join(['t op', nd['name'], show_ints(nd['ins'])] + [str(a) for a in nd['args']]))
                if any(k == 'ng' for _, k in active): stats['op_in_ng'] = True
        elif r < 0.58:
            lines.append(f't setrg {rng.randrange(nt)} {rng.randint(0, 1)}')
        elif r < 0.63:
            lines.append(f't retain {rng.randrange(nt)}')
        elif r < 0.73:
            t = rng.randrange(nt)
            lines.append(f"t bw {t} {show_ints(P.tshape[t])} {show_floats(gen_dag.rand_data(rng, P.tshape[t]))}")
            for k in range(nt): lines.append(f't grad {k}')
        elif r < 0.80:
            new_ctx()
        elif r < 0.93 and len(active) < 5:
            # enter an existing (possibly stale / already used) or a fresh context
            idle = [k for k in range(nctx) if k not in [a for a, _ in active]]   # one object is not entered twice at once
            if idle and rng.chance(.5):
                k = rng.pick(idle)
                stats['pre'] = True
            else:
                k = new_ctx()
            lines.append(f't ctx enter {k}')
            active.append((k, created_at_depth[k][1]))
            stats['maxdepth'] = max(stats['maxdepth'], len(active))
        elif active:
            k, _ = active.pop()
            lines.append(f't ctx {"exitexc" if rng.chance(.3) else "exit"} {k}')
        q()

    for _ in range(rng.randint(5, 18 if tier == 'quick' else 60)):
        event()
    while active:
        k, _ = active.pop()
        lines.append(f't ctx exit {k}')
        q()
    return lines, stats


def gen_release_seq(rng):
    """the release rule over several backward calls: a chain leaf -> a -> b -> root (and a side branch); backward calls
    inside and outside retain_grads blocks, retain_grad marks set between calls, later graphs re-using the intermediates;
    all gradients (present / released) are queried after every call"""
    lines = [gen_dag.leaf_line((2,), [float(rng.randint(1, 3)), float(rng.randint(-3, -1))], True),
             't op mul 0,0', 't op add 1,0', 't op mul 2,1', 't ctx new rg', 't ctx new rg']
    nt = 4
    active = []
    nctx = 2
    for _ in range(rng.randint(3, 8)):
        r = rng.random()
        if r < 0.25 and not active:
            k = rng.randrange(nctx); lines.append(f't ctx enter {k}'); active.append(k)
        elif r < 0.45 and active:
            k = active.pop(); lines.append(f't ctx {"exitexc" if rng.chance(.3) else "exit"} {k}')
        elif r < 0.55:
            lines.append(f't retain {rng.randrange(1, nt)}')
        elif r < 0.70:
            a, b = rng.randrange(1, nt), rng.randrange(nt)
            lines.append(f't op {rng.pick(["mul", "add"])} {a},{b}'); nt += 1
        else:
            root = rng.randrange(1, nt)
            lines.append(f"t bw {root} 2 {show_floats(gen_dag.rand_data(rng, (2,)))}")
            lines += [f't grad {k}' for k in range(nt)]
        lines.append('t modes')
    while active:
        lines.append(f't ctx exit {active.pop()}')
    root = rng.randrange(1, nt)
    lines.append(f"t bw {root} 2 {show_floats(gen_dag.rand_data(rng, (2,)))}")
    lines += [f't grad {k}' for k in range(nt)] + [f't flags {k}' for k in range(nt)] + ['t modes']
    return lines, {'maxdepth': 1, 'pre': True, 'op_in_ng': False}


def op_flag_case(rng, op):
    """the flag rule for EVERY op of the catalogue, arguments from the per-op generators (boundary values included): operands
    with random requires_grad flags, the op inside or outside no_grad; flags of all results are compared with the model"""
    import gen_ops
    gen = gen_ops.gen_basic if op in gen_ops.OPS_BASIC else gen_ops.gen_nn
    leaves, args = gen(rng, op, False)
    if op == 'pow' and rng.chance(.5):                 # boundary exponent: x ** 0 is still an op on x
        args = [common.fbits(rng.pick([0.0, -0.0]))]
        leaves = [(leaves[0][0], [abs(v) + 0.5 for v in leaves[0][1]]) + tuple(leaves[0][2:])]
    zero_bias = op in ('linear', 'conv1d', 'conv2d') and len(leaves) == 3 and rng.chance(.5)
    leaves = [tuple(list(lf[:2]) + [rng.chance(.6) if len(lf) < 4 or lf[3] != 'i64' else False] + list(lf[3:])) for lf in leaves]
    if zero_bias:        # a zero-initialised bias as the ONLY operand that requires grad (frozen weight, plain input)
        leaves = [tuple(list(leaves[0][:2]) + [False] + list(leaves[0][3:])), tuple(list(leaves[1][:2]) + [False] + list(leaves[1][3:])),
                  (leaves[2][0], [0.0] * len(leaves[2][1]), True) + tuple(leaves[2][3:])]
    c = {'op': op, 'leaves': leaves, 'args': args}
    prog = gen_ops.program(c, rng)
    nl = len(leaves)
    ng = rng.chance(.3) and not zero_bias
    lines = prog[:nl] + (['t ctx new ng', 't ctx enter 0'] if ng else []) + prog[nl:] + (['t ctx exit 0'] if ng else [])
    io = tprog.run_program(lines)
    res = io[nl + (2 if ng else 0)]
    nout = 0 if res in ('rejected', 'hidden') or not res.startswith('t') else len(res.split(','))
    lines += [f't flags {k}' for k in range(nl + nout)] + ['t modes']
    if nout:
        lines.append(f't op mul {nl},{nl}'); lines.append(f't flags {nl + nout}')      # the flag travels on
    return lines, {'maxdepth': 1, 'pre': False, 'op_in_ng': ng}


def cases(rng, tier):
    out = []
    import gen_ops
    for op in gen_ops.OPS_BASIC + gen_ops.OPS_NN:
        for _ in range((14 if op in ('linear', 'conv1d', 'conv2d') else 6) if tier == 'quick' else 60):
            try:
                lines, stats = op_flag_case(rng, op)
            except Exception:
                continue
            out.append({'lines': lines, 'stats': stats, 'desc': ' ; '.join(l for l in lines if not l.startswith(('t flags', 't modes', 't grad')))[:900]})
    for _ in range(150 if tier == 'quick' else 5000):
        lines, stats = gen_seq(rng, tier)
        out.append({'lines': lines, 'stats': stats, 'desc': ' ; '.join(l for l in lines if not l.startswith(('t flags', 't modes', 't grad')))[:900]})
    for _ in range(60 if tier == 'quick' else 2000):
        lines, stats = gen_release_seq(rng)
        out.append({'lines': lines, 'stats': stats, 'desc': ' ; '.join(l for l in lines if not l.startswith(('t flags', 't modes', 't grad')))[:900]})
    # arguments under which an op changes nothing (flatten of a single dim, reshape to the same shape, squeeze with nothing to
    # squeeze, a dim moved onto itself, the empty tuple of dims, exponent 1): the result is still a NEW tensor whose flag
    # follows the rule — inside no_grad it must not require grad although the operand does
    noop = [((3,), 'flatten 0 0 0'), ((2, 3), 'flatten 0 1 1'), ((2, 3), 'flatten 0 -1 -1'), ((2, 3), 'reshape 0 2,3'), ((3,), 'reshape 0 -1'),
            ((2, 3), 'squeeze 0 all'), ((2, 3), 'squeeze 0 t:_'), ((2, 3), 'transpose 0 0 0'), ((2, 3), 'transpose 0 1 -1'), ((2, 3), 'movedim 0 1 1'),
            ((2, 3), 'sum 0 t:_ 0'), ((2, 3), 'mean 0 t:_ 1'), ((3,), f'pow 0 {common.fbits(1.0)}'), ((3,), 'clone 0'), ((), 'sum 0 all 0'), ((), 'reshape 0 _')]
    for sh, opl in (noop if tier != 'quick' else rng.sample(noop, 10)):
        for ng, rg in ((True, True), (False, rng.chance(.5))):
            n = int(np.prod(sh)) if sh else 1
            lines = [gen_dag.leaf_line(sh, [float(rng.randint(1, 3)) for _ in range(n)], rg)] + (['t ctx new ng', 't ctx enter 0'] if ng else []) + \
                    [f't op {opl}', 't flags 1', 't flags 0', 't op mul 1,1', 't flags 2'] + (['t ctx exit 0'] if ng else []) + ['t op mul 1,0', 't flags 3', 't modes']
            out.append({'lines': lines, 'stats': {'maxdepth': 1, 'pre': False, 'op_in_ng': ng}, 'desc': 'no-op arguments: ' + ' ; '.join(lines)[:300]})
    for _ in range(3 if tier == 'quick' else 16):
        lines, stats = fresh_seq(rng)
        out.append({'lines': lines, 'stats': stats, 'fresh': True, 'desc': 'fresh interpreter: ' + ' ; '.join(l for l in lines if not l.startswith(('t flags', 't modes')))[:900]})
    if tier == 'thorough':
        # EXHAUSTIVE sub-family: three pre-constructed context objects (no_grad, retain_grads, no_grad); every word of length <= 6
        # over {enter c0, enter c1, enter c2, exit top, exit top by exception, op}; an op and the modes are observed after each
        import itertools
        for n in range(1, 7):
            for word in itertools.product(range(6), repeat=n):
                lines = [gen_dag.leaf_line((2,), [1.0, 2.0], True), 't ctx new ng', 't ctx new rg', 't ctx new ng']
                active, nt, ok = [], 1, True
                for k in word:
                    if k < 3:
                        if k in active: ok = False; break          # one object is not entered twice at once
                        lines.append(f't ctx enter {k}'); active.append(k)
                    elif k < 5:
                        if not active: ok = False; break
                        lines.append(f't ctx {"exit" if k == 3 else "exitexc"} {active.pop()}')
                    else:
                        lines.append('t op mul 0,0'); lines.append(f't flags {nt}'); nt += 1
                    lines.append('t modes')
                if not ok: continue
                while active: lines.append(f't ctx exit {active.pop()}'); lines.append('t modes')
                lines += ['t op mul 0,0', f't flags {nt}']
                out.append({'lines': lines, 'stats': {'maxdepth': 3, 'pre': True, 'op_in_ng': True}, 'exhaustive': True, 'desc': ' ; '.join(lines)[:600]})
    corpus = [
        # a context object constructed while another is active, used later
        ['t ctx new ng', 't ctx enter 0', 't ctx new ng', 't ctx exit 0', 't modes', 't ctx enter 1', 't modes', 't ctx exit 1', 't modes'],
        ['t ctx new rg', 't ctx new ng', 't ctx enter 1', 't ctx enter 0', 't modes', 't ctx exitexc 0', 't modes', 't ctx exitexc 1', 't modes',
         't ctx enter 0', 't modes', 't ctx exit 0', 't modes', 't ctx enter 0', 't modes', 't ctx exit 0', 't modes'],
        [gen_dag.leaf_line((2,), [1., 2.], True), 't ctx new ng', 't ctx enter 0', 't op mul 0,0', 't flags 1', 't ctx exit 0', 't op mul 0,0', 't flags 2',
         't bw 1 2 ' + show_floats([1., 1.]), 't setrg 2 0', 't setrg 0 0', 't flags 0', gen_dag.leaf_line((2,), [1., 2.], True, 'i64')],
    ]
    for l in corpus:
        out.append({'lines': l, 'stats': {'maxdepth': 2, 'pre': True, 'op_in_ng': True}, 'desc': ' ; '.join(l)})
    return out


def _io(c):
    return tprog.run_program_fresh(c['lines'], 'props.c07', 'Exec') if c.get('fresh') else tprog.run_program(c['lines'], Exec)


def impl(c):
    return _io(c)


def fresh_seq(rng):
    """the first statements of a fresh interpreter: contexts are constructed and entered BEFORE the first tensor exists"""
    k0, k1 = rng.pick(['ng', 'rg']), rng.pick(['ng', 'rg'])
    lines = [f't ctx new {k0}', f't ctx new {k1}', 't ctx enter 0', 't modes']
    nested = rng.chance(.5)
    if nested: lines += ['t ctx enter 1', 't modes']
    lines += [gen_dag.leaf_line((2,), [1.0, 3.0], True), 't modes', 't flags 0', gen_dag.leaf_line((2,), [2.0, 1.0], False), 't op mul 0,1', 't flags 2', 't modes']
    if nested: lines += [f't ctx {rng.pick(["exit", "exitexc"])} 1', 't modes', 't op add 0,1', 't flags 3']
    lines += [f't ctx {rng.pick(["exit", "exitexc"])} 0', 't modes', 't op mul 0,0', f't flags {4 if nested else 3}']
    return lines, {'maxdepth': 2 if nested else 1, 'pre': True, 'op_in_ng': 'ng' in (k0, k1)}


def compare(c, mo, io):
    return tprog.diff_program(c['lines'], mo, io)


def nontrivial(c):
    s = c['stats']
    return s['maxdepth'] >= 2 and s['pre'] and s['op_in_ng']


def distribution(cases):
    d = {'maxdepth': max(c['stats']['maxdepth'] for c in cases)}
    d['exhaustive: all well-formed words of length <= 6 over enter c0/c1/c2, exit, exit by exception, op'] = sum(1 for c in cases if c.get('exhaustive'))
    for c in cases:
        for l in c['lines']:
            k = ' '.join(l.split(' ')[1:3]) if l.startswith('t ctx') else l.split(' ')[1]
            d[k] = d.get(k, 0) + 1
    return d


# ---- oracle: the property's predicates evaluated on the observed answers ------------------------
def oracle(c):
    io = _io(c)
    stack = []                       # (ctx id, kind, mode value at enter)
    grad, retain = True, False
    flags = {}
    ntens = 0
    rg_of = {}
    ever = set()      # tensors that required grad at some point (a frozen leaf keeps the gradient it had)
    for li, (l, o) in enumerate(zip(c['lines'], io)):
        t = l.split(' ')
        def fail(cls, what):
            return {'key': {'cls': cls}, 'case': {'lines': c['lines'][:li + 1], 'fresh': bool(c.get('fresh'))}, 'what': what}
        if t[1] == 'ctx' and t[2] == 'enter':
            kind = None
            # kind is known from the creation line
            k = int(t[3])
            newl = [x for x in c['lines'] if x.startswith('t ctx new')][k]
            kind = newl.split(' ')[3]
            stack.append((k, kind, grad if kind == 'ng' else retain))
            if kind == 'ng': grad = False
            else: retain = True
        elif t[1] == 'ctx' and t[2] in ('exit', 'exitexc'):
            k, kind, prev = stack.pop()
            if kind == 'ng': grad = prev
            else: retain = prev
        elif t[1] == 'modes':
            if o != f'{int(grad)}{int(retain)}':
                return fail('modes', f'global modes are {o}, a stack of contexts gives {int(grad)}{int(retain)}')
        elif t[1] == 'leaf':
            if o != 'rejected':
                rg_of[ntens] = bool(int(t[4])) and grad
                if rg_of[ntens]: ever.add(ntens)
                if t[2] not in ('f64', 'f32') and rg_of[ntens]:
                    return fail('float-only', f'a tensor of dtype {t[2]} (not floating point) was made to require grad')
                ntens += 1
            elif not (t[2] not in ('f64', 'f32') and bool(int(t[4])) and grad):
                return fail('leaf-rejected', 'leaf creation raised')
        elif t[1] == 'op' and o != 'rejected':
            ins = common.parse_ints(t[3])
            want = grad and any(rg_of.get(i, False) for i in ins)
            for _ in o.split(','):
                rg_of[ntens] = want
                if want: ever.add(ntens)
                ntens += 1
        elif t[1] == 'setrg' and o == 'ok':
            rg_of[int(t[2])] = bool(int(t[3]))
            if rg_of[int(t[2])]: ever.add(int(t[2]))
        elif t[1] == 'flags':
            k = int(t[2])
            f = dict(kv.split('=') for kv in o.split(' '))
            if bool(int(f['rg'])) != rg_of.get(k, False):
                return fail('requires_grad', f't{k}.requires_grad is {f["rg"]}, the rule (mode and any operand) gives {int(rg_of.get(k, False))}')
            if rg_of.get(k, False): ever.add(k)
            if f['rg'] == '0' and (f['fn'] == '1' or (f['grad'] == '1' and k not in ever) or f['children'] != '0'):
                return fail('no-history', f't{k} does not require grad but has {o}')
        elif t[1] == 'bw':
            k = int(t[2])
            if (o == 'rejected') != (not rg_of.get(k, False)):
                return fail('backward-accept', f'backward on t{k} (requires_grad={rg_of.get(k)}) answered {o[:20]}')
    return None


def search(rng, tier):
    for c in cases(rng, 'quick'):
        f = oracle(c)
        if f: yield f


def matches_known(k, fail): return k.get('key') == fail.get('key')
def rerun_known(k): return oracle(k['witness']) is not None
def replay(fail):
    f = oracle(fail['case'])
    return {'fails': f is not None, 'now': f}
