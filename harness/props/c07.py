"""C07 — requires_grad propagation and grad-mode contexts"""
import numpy as np
import common
from common import show_floats, show_ints
import tprog, gen_dag
tprog.DTYPE_KW = True
tprog.ENTRIES = True        # function / Tensor method / operator / augmented operator statement, varying from call to call

PROP = 'C07'
LEAN_TARGETS = ['Props.C07', 'genlogic']      # genlogic: the definitions generated from the source on this run, executable
REQUIRED_THEOREMS = ['Props.C07.modes_stack', 'Props.C07.ctx_restores', 'Props.C07.result_requires_grad_rule',
                     'Props.C07.no_grad_result_has_no_history', 'Props.C07.release_rule', 'Props.C07.float_only',
                     'Props.C07.detach_is_plain', 'Props.C07.gradTensor_is_plain', 'Props.C07.fromData_is_leaf', 'Props.C07.copyTensor_same',
                     'Props.C07.route_first_is_setter', 'Props.C07.route_refused', 'Props.C07.route_step']
REQUIRED_THEOREMS += ['Props.C07.' + t for t in ['src_creation_rule_is_model', 'src_is_leaf_is_model', 'src_requires_grad_setter_is_model', 'src_retain_grad_is_model', 'src_ctx_new_is_model', 'src_ctx_enter_is_model', 'src_ctx_exit_is_model', 'src_no_inplace_operator', 'src_no_attribute_hook', 'src_parameter_created_by_tensor_init']]   # ties to the source read on this run
RULE = ('event sequences: context objects created (possibly long before use, re-used, entered while another is active), '
        'well-nested enter/exit at depth <= 5 incl. exits by exception, leaves created with either flag and float/int dtype, ops on '
        'mixed operands inside and outside contexts, requires_grad toggled on leaves and non-leaves, retain_grad, backward inside / '
        'outside contexts; compared after every event: global modes, flags (requires_grad, is_leaf, grad_fn, has grad, #children) '
        'of every tensor. Tensors made from tensors without an op (detach, Tensor(t.data, requires_grad=...), the copy constructor '
        'Tensor(t), the .grad getter, clone) applied to leaves / intermediates / roots / constants in every life-cycle state (fresh, '
        'after backward, retained, under retain_grads, after two calls, zeroed, frozen, root of an interior call, after a refused call), '
        'inside and outside no_grad, the results queried, used by later ops and differentiated. The flag rule for every nn op under '
        'every mode / option combination: batch_norm (training x running statistics both / none / one-sided x weight x bias; function '
        'and BatchNorm1d/2d layer object in train() / eval()), Dropout (train / eval x p in {0, 0.5, 1}), every loss x reduction, each with '
        'every operand flag pattern, inside and outside no_grad. '
        'Binary operators in every spelling: + - * / ** @ written infix, reflected (Python number on the left), as the augmented statement '
        '(`r = a; r += b`, -=, *=, /=, **=, @=, also with the number on the left: `total = 0; total += t`), as the function of the package and as '
        'the explicit special-method call, over every pair of operand states (plain / parameter / computed / computed under no_grad from '
        'tracked operands / frozen / switched on later) inside and outside (nested) no_grad blocks, the statement repeated on its own '
        'result (accumulation loop); after each: flags of the result and of both operands, whether the result is a new object, a '
        'backward from the result and the gradients it leaves on every operand (a tracked leaf under a tracked result must hold one). '
        'The creation rule through every constructor: Tensor(array) / Tensor(list, dtype=) / synapgrad.tensor / zeros / ones / empty / rand / randn / '
        'normal / randint / arange / eye / zeros_like / ones_like with requires_grad= either way, nn.Parameter(array) with and without the '
        'keyword, nn.Parameter(tensor) (= the copy constructor) over tensors in every state, the parameters and buffers of freshly constructed '
        'Linear / Neuron / Conv1d / Conv2d / BatchNorm1d / BatchNorm2d layers — each over float64 / float32 / int32 / int64 / bool (and complex / '
        'unsigned / 16-bit) data, inside and outside (nested) no_grad / retain_grads blocks; accept / reject and the flags compared with mkTensor. '
        'Every ROUTE that switches flags — the requires_grad setter in a loop, Module.freeze() / unfreeze() on the owning module, on a parent / '
        'grandparent, on a Sequential over the owners, on an OrderedDict container — over lists of nn.Parameter objects of every kind (float64 / float32 '
        'with either flag, int32 / int64 / bool / other non-float dtypes, non-leaf parameters wrapped from computed tensors, copies of plain tensors) '
        'in every position of the list, alone and mixed, repeated, inside and outside blocks: accept / reject, the flags of EVERY tensor afterwards '
        '(a refused call leaves the parameters before the offending one switched) and later ops must be those of the setter applied one by one. '
        'The flag rule with exactly ONE tracked operand in EVERY position (first ... last, sole element) for the list-valued ops concat / stack over '
        'lists of length 1-5 and for every op of the catalogue with several operands (enumerated, not drawn), all / none tracked, inside and outside no_grad, '
        'followed by a backward from the result. '
        'Non-trivial: nesting depth >= 2 with a pre-constructed context and at least one op inside no_grad.')
EXHAUSTIVE = {'quick': False, 'thorough': False}
ASSUMPTIONS = ['exit by exception is exercised by calling __exit__ with exception info (what the with-statement does)']
TRUSTED_BASE = ['harness/tprog.py']
TRUSTED_BASE = TRUSTED_BASE + ['harness/engine_logic.py (reading of the conditions, context transitions, loop skeletons and class method surfaces of tensor.py / nn/modules.py, Generated/EngineLogic.lean; the Boolean translation is validated on every run by the `logic` family of C07)']
OPS = ['add', 'mul', 'neg', 'sum', 'clone', 'self2', 'reshape']


# ---- binary operators in every spelling --------------------------------------------------------------------------------
BSYM = {'add': '+', 'sub': '-', 'mul': '*', 'div': '/', 'pow': '**', 'matmul': '@'}
BDUN = {'add': 'add', 'sub': 'sub', 'mul': 'mul', 'div': 'truediv', 'pow': 'pow', 'matmul': 'matmul'}
REFLECTED = ('radd', 'rsub', 'rmul', 'rdiv', 'rpow')
# form -> (kind, right operand is a tensor, spellings)
BFORMS = {'add_tt': ('add', True, ('infix', 'aug', 'fn', 'dunder')), 'mul_tt': ('mul', True, ('infix', 'aug', 'fn', 'dunder')),
          'matmul_tt': ('matmul', True, ('infix', 'aug', 'fn', 'dunder')), 'sub_tt': ('sub', True, ('infix', 'aug', 'dunder')),
          'div_tt': ('div', True, ('infix', 'aug', 'dunder')),
          'add_ts': ('add', False, ('infix', 'aug', 'dunder')), 'mul_ts': ('mul', False, ('infix', 'aug', 'dunder')),
          'sub_ts': ('sub', False, ('infix', 'aug', 'dunder')), 'div_ts': ('div', False, ('infix', 'aug', 'dunder')),
          'pow_ts': ('pow', False, ('infix', 'aug', 'fn', 'dunder')),
          'radd': ('radd', False, ('infix', 'aug', 'dunder')), 'rmul': ('rmul', False, ('infix', 'aug', 'dunder')),
          'rsub': ('rsub', False, ('infix', 'aug', 'dunder')), 'rdiv': ('rdiv', False, ('infix', 'aug', 'dunder')),
          'rpow': ('rpow', False, ('infix', 'aug', 'fn', 'dunder'))}


def bop_hidden(kind, tt):
    """tensors an operator creates on its way (scalar operands, -b, b ** -1): nodes of the model, not reachable on the implementation"""
    if kind in ('pow', 'rpow') or (tt and kind in ('add', 'mul', 'matmul')): return 0
    if kind == 'sub': return 2 if tt else 1
    return {'add': 1, 'mul': 1, 'div': 1, 'radd': 1, 'rmul': 1, 'rsub': 3, 'rdiv': 2}[kind]


def bop_model(kind, a, b):
    """the model's line for `t bop <kind> <spelling> <a> <b>` (it has ONE spelling of each operator)"""
    if b[0] == 'n': b = 's' + str(common.fbits(float(int(b[1:]))))
    if b[0] == 't' and kind in ('add', 'mul', 'matmul'): return f't op {kind} {a},{b[1:]}'
    if kind in ('pow', 'rpow'): return f't op {kind} {a} {b[1:]}'
    return f't sop {kind[1:] if kind in ("radd", "rmul") else kind} {a} {b}'


# ---- constructors ------------------------------------------------------------------------------------------------------------
MK_EXACT = ['Tensor', 'Tensor-dtype', 'tensor', 'zeros', 'ones', 'arange', 'eye', 'zeros_like', 'ones_like', 'Parameter', 'Parameter-kw']   # the data are known
MK_ROUTES = MK_EXACT + ['empty', 'rand', 'randn', 'normal', 'randint']          # flags only
LAYER_PARAMS = [('linear', 'weight', (3, 2)), ('linear', 'bias', (3,)), ('neuron', 'weight', (1, 3)), ('neuron', 'bias', (1,)),
                ('conv1d', 'weight', (2, 1, 3)), ('conv1d', 'bias', (2,)), ('conv2d', 'weight', (2, 1, 2, 3)), ('conv2d', 'bias', (2,)),
                ('bn1d', 'weight', (3,)), ('bn1d', 'bias', (3,)), ('bn1d', 'running_mean', (3,)), ('bn1d', 'running_var', (3,)),
                ('bn2d', 'weight', (2,)), ('bn2d', 'bias', (2,)), ('bn2d', 'running_mean', (2,))]


def mk_data(route, shape):
    """what the constructor puts into the tensor (zeros where that is not determined)"""
    n = int(np.prod(shape)) if shape else 1
    if route in ('ones', 'ones_like'): return [1.0] * n
    if route == 'arange': return [float(k) for k in range(n)]
    if route == 'eye': return [float(i == j) for i in range(shape[0]) for j in range(shape[0])]
    return [0.0] * n


def _flags(x):
    return (f'rg={int(x.requires_grad)} leaf={int(x.is_leaf)} fn={int(x.grad_fn is not None)} '
            f'grad={int(x._grad is not None)} children={len(x._children)}')


class Exec(tprog.Impl):
    def run(self, line):
        t = line.split(' ')
        sg = self.sg
        if t[1] == 'ctx' and t[2] == 'exitexc':
            self.ctxs[int(t[3])].__exit__(ValueError, ValueError('x'), None); return 'ok'
        # ---- tensors made from tensors without an op
        if t[1] == 'detach':
            self.ts.append(self.ts[int(t[2])].detach()); return f't{len(self.ts) - 1}'
        if t[1] == 'fromdata':          # the `.data` round trip: t fromdata <i> <requires_grad> data|copy
            x = self.ts[int(t[2])]
            self.ts.append(sg.Tensor(x.data if t[4] == 'data' else x.data.copy(), requires_grad=bool(int(t[3])))); return f't{len(self.ts) - 1}'
        if t[1] == 'copy':              # the copy constructor
            self.ts.append(sg.Tensor(self.ts[int(t[2])])); return f't{len(self.ts) - 1}'
        if t[1] == 'gradt':             # the .grad getter: None, or a new tensor whose flags are the answer
            g = self.ts[int(t[2])].grad
            return 'none' if g is None else _flags(g)
        if t[1] == 'dropout':           # t dropout <i> <p bits> <train>: a Dropout layer object in train() / eval() mode
            x = self.ts[int(t[2])]
            m = self.nn.Dropout(common.bitsf(t[3]))
            m.train() if int(t[4]) else m.eval()
            out = m(x)
            if out is not x: self.ts.append(None)      # the mask tensor of x * mask (a node of the model, not reachable here)
            self.ts.append(out)
            if out.grad_fn is not None and out is not x: self.fn_owner[id(out.grad_fn)] = len(self.ts) - 1
            return f't{len(self.ts) - 1}'
        if t[1] == 'bop':               # t bop <kind> <spelling> <a> t<b> | s<bits> | n<int> : one binary operator in one spelling
            kind, sp, ia = t[2], t[3], int(t[4])
            tt = t[5][0] == 't'
            b = self.ts[int(t[5][1:])] if tt else int(t[5][1:]) if t[5][0] == 'n' else common.bitsf(t[5][1:])
            r = self.bop(kind, sp, self.ts[ia], b)
            if not isinstance(r, sg.Tensor): raise TypeError(type(r))
            self.ts += [None] * bop_hidden(kind, tt)
            self.ts.append(r)
            k = len(self.ts) - 1
            if r.grad_fn is not None and id(r.grad_fn) not in self.fn_owner: self.fn_owner[id(r.grad_fn)] = k
            same = [j for j in [ia] + ([int(t[5][1:])] if tt else []) if self.ts[j] is r]      # the statement handed back an operand itself
            return f't{k}' + (f' is-operand-t{same[0]}' if same else '')
        if t[1] == 'mk':                # t mk <route> <dtype> <shape> <requires_grad> <data> : one constructor call
            self.ts.append(self.mk(t[2], t[3], tuple(common.parse_ints(t[4])), bool(int(t[5])), common.parse_floats(t[6])))
            return f't{len(self.ts) - 1}'
        if t[1] == 'wrap':              # t wrap <i> -|0|1 : nn.Parameter(tensor[, requires_grad=...]) — Tensor's copy constructor
            x = self.ts[int(t[2])]
            self.ts.append(self.nn.Parameter(x) if t[3] == '-' else self.nn.Parameter(x, requires_grad=bool(int(t[3]))))
            return f't{len(self.ts) - 1}'
        if t[1] == 'rgroute':           # t rgroute <route> <0|1> <ids> : one call that switches the flags of the listed parameters
            return self.rgroute(t[2], bool(int(t[3])), [self.ts[k] for k in common.parse_ints(t[4])])
        if t[1] == 'lp':                # t lp <layer> <attribute> <shape> : a parameter / buffer of a freshly constructed layer
            sh = tuple(common.parse_ints(t[4]))
            nn = self.nn
            if t[2] == 'linear': m = nn.Linear(sh[1] if len(sh) == 2 else 2, sh[0])
            elif t[2] == 'neuron': m = nn.Neuron(sh[1] if len(sh) == 2 else 2)
            elif t[2] == 'conv1d': m = nn.Conv1d(sh[1], sh[0], sh[2]) if len(sh) == 3 else nn.Conv1d(1, sh[0], 2)
            elif t[2] == 'conv2d': m = nn.Conv2d(sh[1], sh[0], (sh[2], sh[3])) if len(sh) == 4 else nn.Conv2d(1, sh[0], 2)
            else: m = (nn.BatchNorm1d if t[2] == 'bn1d' else nn.BatchNorm2d)(sh[0])
            x = getattr(m, t[3])
            if tuple(x.shape) != sh or (t[3] in ('weight', 'bias') and x not in m.parameters()): raise ValueError(x.shape)
            self.ts.append(x)
            return f't{len(self.ts) - 1}'
        return super().run(line)

    def rgroute(self, route, v, ps):
        """the listed parameters become the parameters() — in that order — of a module tree of the given form; freeze() / unfreeze() is
        called on its root.  `setter` is the loop a user writes by hand."""
        nn = self.nn
        if route == 'setter':
            for p in ps: p.requires_grad = v
            return 'ok'
        def owner(qs, sub=None):
            m = nn.Module()
            for j, q in enumerate(qs):
                if j % 2: m.register_parameter(f'p{j}', q)
                else: setattr(m, f'p{j}', q)
            if sub is not None: m.child = sub
            return m
        if route == 'module': root = owner(ps)
        elif route == 'parent':           # the root holds the first parameter itself, a child the others
            root = owner(ps[:1], owner(ps[1:]))
        elif route == 'grandparent':
            root = owner([], owner(ps[:1], owner(ps[1:])))
        elif route == 'sequential':       # one owner per parameter inside a Sequential, itself a member of a Sequential
            root = nn.Sequential(nn.Sequential(*[owner([q]) for q in ps]))
        elif route == 'seqdict':
            from collections import OrderedDict
            root = nn.Sequential(OrderedDict((f'k{len(ps) - j}', owner([q])) for j, q in enumerate(ps)))
        else: raise KeyError(route)
        listed = root.parameters()
        if len(listed) != len(ps) or any(a is not b for a, b in zip(listed, ps)): return 'parameters()-is-not-the-registered-list'
        root.unfreeze() if v else root.freeze()
        return 'ok'

    def bop(self, kind, sp, a, b):
        import operator
        sg = self.sg
        refl = kind in REFLECTED
        base = kind[1:] if refl else kind
        if sp == 'fn':                  # the package's function (tensor operands; a Python exponent / base)
            return getattr(sg, kind)(a, b)
        if sp == 'infix':
            f = getattr(operator, BDUN[base])
            return f(b, a) if refl else f(a, b)
        if sp == 'aug':                 # the STATEMENT `r = <left>; r <op>= <right>` (the left operand of a reflected form is the number)
            ns = {'r': b if refl else a, 'x': a if refl else b}
            exec(f'r {BSYM[base]}= x', {}, ns)
            return ns['r']
        if sp == 'dunder':              # the explicit special-method call
            return getattr(a, f'__{"r" if refl else ""}{BDUN[base]}__')(b)
        raise KeyError(sp)

    def mk(self, route, dtn, shape, rg, data):
        sg = self.sg
        dt = tprog.DT[dtn]
        vals = np.array(data, dtype=np.float64).reshape(shape)
        if route == 'Tensor': return sg.Tensor(vals.astype(dt), requires_grad=rg)
        if route == 'Tensor-dtype': return sg.Tensor(vals.tolist(), dtype=dt, requires_grad=rg)
        if route == 'tensor': return sg.tensor(vals.tolist(), requires_grad=rg, dtype=dt)
        if route in ('zeros', 'ones', 'empty', 'rand', 'randn'):
            f = getattr(sg, route)
            return f(*shape, dtype=dt, requires_grad=rg) if len(shape) != 1 or route.startswith('rand') else f(shape, dtype=dt, requires_grad=rg)
        if route == 'normal': return sg.normal(0.0, 1.0, *shape, dtype=dt, requires_grad=rg)
        if route == 'randint': return sg.randint(0, 5, shape, dtype=None if dtn == 'i32' else dt, requires_grad=rg)
        if route == 'arange': return sg.arange(shape[0], dtype=dt, requires_grad=rg)
        if route == 'eye': return sg.eye(shape[0], dtype=dt, requires_grad=rg)
        if route in ('zeros_like', 'ones_like'): return getattr(sg, route)(sg.Tensor(np.full(shape, 3).astype(dt)), requires_grad=rg)
        if route == 'Parameter': return self.nn.Parameter(vals.astype(dt))                     # (no flag: the line says requires_grad 0)
        if route == 'Parameter-kw': return self.nn.Parameter(vals.astype(dt), requires_grad=rg)
        raise KeyError(route)

    def call_nn(self, name, x, args):
        """batch_norm: half of the calls go through a BatchNorm1d / BatchNorm2d layer OBJECT put into train() / eval() mode
        (affine = weight and bias both present, track_running_stats = both statistics present) whose parameters are the program's
        operand tensors"""
        if name == 'batch_norm':
            route = sum(map(ord, ' '.join(map(str, args)))) % 2        # (a program is run by a fresh executor: the route derives from the arguments)
            hw, hb, tr = bool(int(args[0])), bool(int(args[1])), bool(int(args[2]))
            both, neither = args[4] != '-' and args[5] != '-', args[4] == '-' and args[5] == '-'
            if route == 0 and hw == hb and (both or neither) and x[0].data.ndim in (2, 3, 4) and x[0].data.dtype.kind == 'f':
                cls = self.nn.BatchNorm1d if x[0].data.ndim < 4 else self.nn.BatchNorm2d
                m = cls(x[0].shape[1], eps=common.bitsf(args[3]), momentum=0.1, affine=hw, track_running_stats=both, dtype=x[0].data.dtype)
                if hw:
                    object.__setattr__(m, 'weight', x[1]); object.__setattr__(m, 'bias', x[2])
                if both:
                    m.running_mean.data = np.array(common.parse_floats(args[4]), dtype=x[0].data.dtype)
                    m.running_var.data = np.array(common.parse_floats(args[5]), dtype=x[0].data.dtype)
                m.train() if tr else m.eval()
                return m(x[0])
        return super().call_nn(name, x, args)


def to_model(line):
    """complex / unsigned / 16-bit / bool dtypes are all `not floating point` for the model: spelled i64 there. The model has
    one spelling of the `.data` round trip; Dropout in train mode is x * mask (a hidden constant tensor and the product), in eval
    mode it hands back its operand (a second name for the same attributes)"""
    t = line.split(' ')
    if len(t) > 2 and t[1] == 'leaf' and t[2] in ('c64', 'c128', 'u8', 'i16', 'bool'):
        t[2] = 'i64'
        return ' '.join(t)
    if len(t) > 2 and t[1] == 'fromdata': return ' '.join(t[:4])
    if len(t) > 2 and t[1] == 'bop': return bop_model(t[2], t[4], t[5])
    if len(t) > 2 and t[1] == 'mk':            # every constructor is the leaf-creation rule over its array
        return f"t leaf {t[3] if t[3] in ('f32', 'f64', 'i8', 'i32', 'i64') else 'i64'} {t[4]} {t[5]} {t[6]}"
    if len(t) > 2 and t[1] == 'rgroute': return f't setrgs {t[3]} {t[4]}'      # every route is the setter applied to the listed tensors in turn
    if len(t) > 2 and t[1] == 'wrap': return f't copy {t[2]}'      # Parameter(tensor) is Tensor(tensor): every attribute of the source
    if len(t) > 2 and t[1] == 'lp':            # layers build their parameters with requires_grad=True, their buffers without
        sh = common.parse_ints(t[4])
        return gen_dag.leaf_line(sh, [0.0] * int(np.prod(sh)), t[3] in ('weight', 'bias'), 'f32')
    if len(t) > 2 and t[1] == 'dropout':
        return f't sop mul {t[2]} s{common.fbits(1.0)}' if int(t[4]) else f't copy {t[2]}'
    return line


def gen_seq(rng, tier):
    P = gen_dag.Prog()
    lines = []
    nctx = 0
    depth = [0]
    stats = {'maxdepth': 0, 'pre': False, 'op_in_ng': False}
    created_at_depth = {}
    active = []     # stack of (ctx id, kind)
    ints = set()
    tainted = set()  # copy-constructed tensors and everything computed from them: they share buffers / backward functions with
                     # their source, which the model (one node per tensor) does not express — flags only, never differentiated
    hidden = set()   # tensors an operator statement makes on its way (nodes of the model only): never named by a later line
    vis = lambda: [k for k in range(len(P.tshape)) if k not in hidden]
    params = []      # tensors that are nn.Parameter objects (what a module registers)

    def q():
        nt = len(P.tshape)
        lines.append('t modes')
        for k in range(nt):
            lines.append(f't flags {k}')

    def new_ctx():
        nonlocal nctx
        kind = rng.pick(['ng', 'ng', 'rg'])
        lines.append(f't ctx new {kind}')
        created_at_depth[nctx] = (len(active), kind)
        nctx += 1
        return nctx - 1

    def event():
        r = rng.random()
        nt = len(P.tshape)
        if r < 0.16 or nt == 0:
            sh = rng.pick([(2,), (), (2, 2)])
            dt = rng.pick(['f64', 'f64', 'f64', 'f64', 'i64', 'c128', 'c64', 'u8', 'i16', 'bool'])   # float32 rounding of gradients is C10's subject
            rg = rng.chance(.6)
            data = [float(rng.randint(-3, 3)) for _ in range(int(np.prod(sh)) if sh else 1)]
            if rng.chance(.4):        # ... through one of the other constructors (factory functions, nn.Parameter)
                route = rng.pick(MK_EXACT)
                if route == 'arange': sh = (2,)
                if route == 'eye': sh = (2, 2)
                if route == 'Parameter': rg = False
                if route not in ('Tensor', 'Tensor-dtype', 'tensor', 'Parameter', 'Parameter-kw'): data = mk_data(route, sh)
                elif dt != 'f64': data = [abs(v) for v in data]
                lines.append(f't mk {route} {dt} {show_ints(sh)} {int(rg)} {show_floats(data)}')
                stats['ctor'] = stats.get('ctor', 0) + 1
            else:
                lines.append(gen_dag.leaf_line(sh, data, rg, dt))
            # a rejected creation (int tensor requiring grad) creates nothing
            if not (rg and dt != 'f64' and not any(k == 'ng' for _, k in active)):
                tid = P.add_leaf(sh, data, rg, dt)
                if dt != 'f64': ints.add(tid)
                if lines[-1].startswith('t mk Parameter'): params.append(tid)
        elif r < 0.28:
            # a tensor made from a tensor without an op — whatever state the source is in by now
            src = rng.pick(vis())
            d = rng.pick(['detach', 'detach', 'copy', 'fromdata', 'fromdata', 'gradt', 'like', 'wrap'])
            stats['derived'] = stats.get('derived', 0) + 1
            if d == 'gradt':
                lines.append(f't gradt {src}')
                return q()
            if d == 'fromdata':
                rg = rng.chance(.5)
                lines.append(f't fromdata {src} {int(rg)} {rng.pick(["data", "copy"])}')
                if rg and src in ints and not any(k == 'ng' for _, k in active):
                    return q()          # refused: only floating-point tensors can require grad
            elif d == 'like':
                lines.append(f't ctor like {rng.randint(0, 1)} {src}')
            elif d == 'wrap':
                lines.append(f't wrap {src} {rng.pick(["-", "-", "0", "1"])}')
            else:
                lines.append(f't {d} {src}')
            tid = P.add_leaf(P.tshape[src], [], False)
            if src in ints: ints.add(tid)
            if d in ('copy', 'wrap'): tainted.add(tid)
            if d == 'wrap': params.append(tid)
        elif r < 0.36:
            # one binary operator in one spelling (infix / reflected / augmented statement / function / special method) over operands
            # in whatever state they are by now: an untracked accumulator on the left of a tracked operand included
            flo = [t for t in vis() if t not in ints]
            if not flo: return
            form = rng.pick(['add_tt', 'add_tt', 'mul_tt', 'sub_tt', 'add_ts', 'mul_ts', 'sub_ts', 'div_ts', 'radd', 'rmul', 'rsub'])
            kind, tt, sps = BFORMS[form]
            a = rng.pick(flo)
            if tt:
                b = rng.pick([x for x in flo if gen_dag.bshape(P.tshape[a], P.tshape[x]) is not None])
                out = gen_dag.bshape(P.tshape[a], P.tshape[b])
                btok = f't{b}'
            else:
                b, out = None, P.tshape[a]
                btok = rng.pick([f's{common.fbits(rng.pick([2.0, 0.5, -1.5]))}', f'n{rng.pick([2, 3, -1])}'])
            lines.append(f't bop {kind} {rng.pick(sps)} {a} {btok}')
            stats['bop'] = stats.get('bop', 0) + 1
            if any(k == 'ng' for _, k in active): stats['op_in_ng'] = True
            nh = bop_hidden(kind, tt)
            new = [P.add_leaf(P.tshape[b] if tt else (), [], False) for _ in range(nh)] + [P.add_leaf(out, [], False)]
            hidden.update(new[:-1])
            if a in tainted or b in tainted: tainted.update(new)
        elif r < 0.50:
            flo = [t for t in vis() if t not in ints]
            if not flo: return
            before = len(P.nodes)
            gen_dag.gen_op(rng, P, OPS, flo)   # integer tensors only exercise the creation / setter rules
            if len(P.nodes) > before:
                nd = P.nodes[-1]
                lines.append(' '.join(['t op', nd['name'], show_ints(nd['ins'])] + [str(a) for a in nd['args']]))
                if any(k == 'ng' for _, k in active): stats['op_in_ng'] = True
                if any(i in tainted for i in nd['ins']): tainted.update(nd['outs'])
        elif r < 0.535 and params:
            # freeze() / unfreeze() of a module tree over some of the parameters made so far (whatever their dtype / state), or the setter loop
            ids = rng.sample(params, rng.randint(1, min(3, len(params))))
            lines.append(f't rgroute {rng.pick(ROUTES)} {rng.randint(0, 1)} {show_ints(ids)}')
            stats['routes'] = stats.get('routes', 0) + 1
        elif r < 0.57:
            lines.append(f't setrg {rng.pick(vis())} {rng.randint(0, 1)}')
        elif r < 0.60:
            flo = [t for t in vis() if t not in ints]
            if flo: lines.append(f't zero {rng.pick(flo)}')       # the user resets a buffer (any floating-point tensor)
        elif r < 0.64:
            lines.append(f't retain {rng.pick(vis())}')
        elif r < 0.73:
            ok = [t for t in vis() if t not in tainted]
            if not ok: return
            t = rng.pick(ok)
            lines.append(f"t bw {t} {show_ints(P.tshape[t])} {show_floats(gen_dag.rand_data(rng, P.tshape[t]))}")
            for k in range(nt):
                if k not in tainted: lines.append(f't grad {k}')
        elif r < 0.80:
            new_ctx()
        elif r < 0.93 and len(active) < 5:
            # enter an existing (possibly stale / already used) or a fresh context
            idle = [k for k in range(nctx) if k not in [a for a, _ in active]]   # one object is not entered twice at once
            if idle and rng.chance(.5):
                k = rng.pick(idle)
                stats['pre'] = True
            else:
                k = new_ctx()
            lines.append(f't ctx enter {k}')
            active.append((k, created_at_depth[k][1]))
            stats['maxdepth'] = max(stats['maxdepth'], len(active))
        elif active:
            k, _ = active.pop()
            lines.append(f't ctx {"exitexc" if rng.chance(.3) else "exit"} {k}')
        q()

    for _ in range(rng.randint(5, 18 if tier == 'quick' else 60)):
        event()
    while active:
        k, _ = active.pop()
        lines.append(f't ctx exit {k}')
        q()
    return lines, stats


def gen_release_seq(rng):
    """the release rule over several backward calls: a chain leaf -> a -> b -> root (and a side branch); backward calls
    inside and outside retain_grads blocks, retain_grad marks set between calls, later graphs re-using the intermediates;
    all gradients (present / released) are queried after every call"""
    lines = [gen_dag.leaf_line((2,), [float(rng.randint(1, 3)), float(rng.randint(-3, -1))], True),
             't op mul 0,0', 't op add 1,0', 't op mul 2,1', 't ctx new rg', 't ctx new rg']
    nt = 4
    active = []
    nctx = 2
    for _ in range(rng.randint(3, 8)):
        r = rng.random()
        if r < 0.25 and not active:
            k = rng.randrange(nctx); lines.append(f't ctx enter {k}'); active.append(k)
        elif r < 0.45 and active:
            k = active.pop(); lines.append(f't ctx {"exitexc" if rng.chance(.3) else "exit"} {k}')
        elif r < 0.55:
            lines.append(f't retain {rng.randrange(1, nt)}')
        elif r < 0.70:
            a, b = rng.randrange(1, nt), rng.randrange(nt)
            lines.append(f't op {rng.pick(["mul", "add"])} {a},{b}'); nt += 1
        else:
            root = rng.randrange(1, nt)
            lines.append(f"t bw {root} 2 {show_floats(gen_dag.rand_data(rng, (2,)))}")
            lines += [f't grad {k}' for k in range(nt)]
        lines.append('t modes')
    while active:
        lines.append(f't ctx exit {active.pop()}')
    root = rng.randrange(1, nt)
    lines.append(f"t bw {root} 2 {show_floats(gen_dag.rand_data(rng, (2,)))}")
    lines += [f't grad {k}' for k in range(nt)] + [f't flags {k}' for k in range(nt)] + ['t modes']
    return lines, {'maxdepth': 1, 'pre': True, 'op_in_ng': False}


def op_flag_case(rng, op, hot=None, force=None, dts=None, ng=None):
    """the flag rule for EVERY op of the catalogue, arguments from the per-op generators (boundary values included): operands
    with random requires_grad flags, the op inside or outside no_grad; flags of all results are compared with the model.
    dts = (dtype of the first float operand, dtype of the other float operands): operands of DIFFERENT float dtypes (a float64 batch
    against float32 parameters and the other way round); ng: the op inside no_grad or not (None: drawn)"""
    import gen_ops
    gen = gen_ops.gen_basic if op in gen_ops.OPS_BASIC else gen_ops.gen_nn
    leaves, args = gen(rng, op, False)
    if dts is not None:
        fl = [i for i, lf in enumerate(leaves) if (lf[3] if len(lf) > 3 else 'f64') in ('f64', 'f32')]
        if len(fl) < 2: raise IndexError('one float operand')
        q = lambda v: round(v * 64) / 64                  # (values exact in binary32)
        leaves = [(lf[0], [q(v) for v in lf[1]], lf[2], dts[0] if i == fl[0] else dts[1]) if i in fl else lf for i, lf in enumerate(leaves)]
    if op == 'pow' and (force in ('pow0', 'pow-0') or rng.chance(.5)):                 # boundary exponent: x ** 0 is still an op on x
        args = [common.fbits(-0.0 if force == 'pow-0' else 0.0 if force == 'pow0' else rng.pick([0.0, -0.0]))]
        leaves = [(leaves[0][0], [abs(v) + 0.5 for v in leaves[0][1]]) + tuple(leaves[0][2:])]
    zero_bias = op in ('linear', 'conv1d', 'conv2d') and len(leaves) == 3 and rng.chance(.5)
    leaves = [tuple(list(lf[:2]) + [rng.chance(.6) if len(lf) < 4 or lf[3] != 'i64' else False] + list(lf[3:])) for lf in leaves]
    if force: leaves = [tuple(list(lf[:2]) + [True] + list(lf[3:])) for lf in leaves]      # forced boundary case: tracked operand, grad mode on
    if hot is not None:  # exactly ONE tracked operand, at position `hot` (enumerated by the caller)
        zero_bias = False
        if hot >= len(leaves) or (len(leaves[hot]) > 3 and leaves[hot][3] == 'i64'): raise IndexError(hot)
        leaves = [tuple(list(lf[:2]) + [i == hot] + list(lf[3:])) for i, lf in enumerate(leaves)]
    if zero_bias:        # a zero-initialised bias as the ONLY operand that requires grad (frozen weight, plain input)
        leaves = [tuple(list(leaves[0][:2]) + [False] + list(leaves[0][3:])), tuple(list(leaves[1][:2]) + [False] + list(leaves[1][3:])),
                  (leaves[2][0], [0.0] * len(leaves[2][1]), True) + tuple(leaves[2][3:])]
    c = {'op': op, 'leaves': leaves, 'args': args}
    prog = gen_ops.program(c, rng)
    nl = len(leaves)
    ng = (rng.chance(.3) and not zero_bias and not force) if ng is None else ng
    lines = prog[:nl] + (['t ctx new ng', 't ctx enter 0'] if ng else []) + prog[nl:] + (['t ctx exit 0'] if ng else [])
    io = tprog.run_program(lines)
    res = io[nl + (2 if ng else 0)]
    nout = 0 if res in ('rejected', 'hidden') or not res.startswith('t') else len(res.split(','))
    lines += [f't flags {k}' for k in range(nl + nout)] + ['t modes']
    if nout:
        lines.append(f't op mul {nl},{nl}'); lines.append(f't flags {nl + nout}')      # the flag travels on
    st = {'maxdepth': 1, 'pre': False, 'op_in_ng': ng}
    if hot is not None and nl > 1: st['onehot'] = f'{op}: only operand {hot} of {nl} tracked'
    if dts is not None: st['mixed'] = f"{op}: first operand {dts[0]}, the others {dts[1]}; tracked: {('operand ' + str(hot)) if hot is not None else 'drawn'}"
    return lines, st


MIXED_OPS = ['linear', 'conv1d', 'conv2d', 'batch_norm', 'mse_loss', 'binary_cross_entropy', 'binary_cross_entropy_with_logits', 'add', 'mul', 'matmul', 'addmm',
             'concat', 'stack']


STATES = ['fresh', 'after backward', 'intermediate marked with retain_grad, after backward', 'after backward under retain_grads', 'after two backward calls',
          'after backward, leaf and root zeroed', 'after backward, leaf frozen (requires_grad switched off)', 'after backward from the intermediate (it is the root)',
          'after a backward call refused for the shape of its gradient']
DERIVE = ['detach', 'copy', 'fromdata 0', 'fromdata 1', 'clone', 'like', 'gradt']


def lifecycle_case(rng, state, ng):
    """the graph  x (leaf) , c (constant) -> a = x * c -> h = a + x -> root = h * h  brought into `state`; then EVERY tensor-from-
    tensor derivation applied to EVERY tensor of it (inside no_grad when `ng`), the flags of every result, the results used by a
    later op and differentiated where that is defined, and finally the flags and gradients of the sources once more"""
    D = lambda: show_floats(gen_dag.rand_data(rng, (2,)))
    lines = [gen_dag.leaf_line((2,), [float(rng.randint(1, 3)), float(rng.randint(-3, -1))], True),
             gen_dag.leaf_line((2,), [float(rng.randint(1, 3)), float(rng.randint(1, 3))], False),
             't op mul 0,1', 't op add 2,0', 't op mul 3,3']
    nt, nctx = 5, 0
    bad_bw = []
    k = STATES.index(state)
    if k == 1: lines += [f't bw 4 2 {D()}']
    elif k == 2: lines += ['t retain 2', f't bw 4 2 {D()}']
    elif k == 3: lines += ['t ctx new rg', 't ctx enter 0', f't bw 4 2 {D()}', 't ctx exit 0']; nctx = 1
    elif k == 4: lines += [f't bw 4 2 {D()}', f't bw 4 2 {D()}']
    elif k == 5: lines += [f't bw 4 2 {D()}', 't zero 0', 't zero 4']
    elif k == 6: lines += [f't bw 4 2 {D()}', 't setrg 0 0']
    elif k == 7: lines += [f't bw 2 2 {D()}']
    elif k == 8:
        lines += [f"t bw 4 2,2 {show_floats(gen_dag.rand_data(rng, (2, 2)))}"]; bad_bw.append(len(lines) - 1)
    lines += [f't flags {i}' for i in range(nt)]
    if ng: lines += ['t ctx new ng', f't ctx enter {nctx}']
    made = []
    for src in range(5):
        for d in DERIVE:
            if d == 'gradt':
                lines.append(f't gradt {src}'); continue
            if d == 'clone': lines.append(f't op clone {src}')
            elif d == 'like': lines.append(f't ctor like {rng.randint(0, 1)} {src}')          # zeros_like / ones_like
            elif d.startswith('fromdata'): lines.append(f't fromdata {src} {d[-1]} {rng.pick(["data", "copy"])}')
            else: lines.append(f't {d} {src}')
            made.append((nt, d, src)); nt += 1
            lines.append(f't flags {nt - 1}')
    if ng: lines += [f't ctx exit {nctx}']
    lines.append('t modes')
    # the results at work: as operands (the flag travels on), as roots (a tensor that does not require grad refuses backward)
    for tid, d, src in made:
        if d == 'copy':
            lines += [f't op mul {tid},1', f't flags {nt}']; nt += 1
            continue
        lines += [f't op mul {tid},0', f't flags {nt}']; nt += 1
        if d in ('detach', 'fromdata 0', 'like') or rng.chance(.3):
            lines += [f't bw {tid} 2 {D()}', f't flags {tid}', f't grad {tid}']
        if d in ('detach', 'fromdata 0', 'fromdata 1', 'like') and rng.chance(.5):
            # the flag toggled on the new leaf (a detached tensor turned into a parameter of its own): it starts without a gradient,
            # and what one sweep leaves on it is that sweep's contribution alone
            lines += [f't setrg {tid} 1', f't flags {tid}', f't op mul {tid},{tid}', f't bw {nt} 2 {D()}', f't flags {tid}', f't grad {tid}',
                      f't setrg {tid} 0', f't flags {tid}']; nt += 1
    if k != 6 and rng.chance(.5):       # one more sweep through the original graph: the derived tensors stay as they are
        lines += [f't bw 4 2 {D()}']
    lines += [f't flags {t}' for t in range(nt) if t not in [m[0] for m in made if m[1] == 'copy']] + [f't grad {i}' for i in range(5)]
    lines += [f't flags {m[0]}' for m in made if m[1] == 'copy']
    return lines, {'maxdepth': 1, 'pre': False, 'op_in_ng': ng, 'state': state}, bad_bw


def bn_mode_case(rng, tr, stats, hw, hb, ng):
    """F.batch_norm / BatchNorm layer under ONE combination of training x running statistics (both / none / mean only / var only) x
    weight x bias; the operand flags are drawn (mostly at least one requires grad), inside or outside no_grad"""
    c = rng.randint(1, 3)
    sh = (rng.randint(2, 4), c) + rng.pick([(), (rng.randint(1, 3),), (rng.randint(1, 2), rng.randint(1, 2))])
    V = lambda s_: gen_dag.rand_data(rng, s_)
    nop = 1 + int(hw) + int(hb)
    flags = [rng.chance(.6) for _ in range(nop)]
    if rng.chance(.15): flags = [False] * nop
    elif not any(flags): flags[rng.randrange(nop)] = True
    lines = [gen_dag.leaf_line(sh, V(sh), flags[0])] + [gen_dag.leaf_line((c,), V((c,)), f) for f in flags[1:]]
    rm = show_floats([rng.dyadic(-1, 1) for _ in range(c)]) if stats in ('both', 'mean') else '-'
    rv = show_floats([rng.randint(2, 24) / 8 for _ in range(c)]) if stats in ('both', 'var') else '-'
    if ng: lines += ['t ctx new ng', 't ctx enter 0']
    lines.append(f"t op batch_norm {show_ints(range(nop))} {int(hw)} {int(hb)} {int(tr)} {common.fbits(rng.pick([1e-5, 1e-3, 0.1]))} {rm} {rv}")
    lines += [f't flags {nop}']
    if ng: lines += ['t ctx exit 0']
    lines += [f't flags {i}' for i in range(nop)] + [f't op mul {nop},{nop}', f't flags {nop + 1}', 't modes']
    if stats in ('both', 'none'):        # (the arithmetic of a one-sided call is not this property's subject: flags only)
        lines += [f"t bw {nop + 1} {show_ints(sh)} {show_floats(V(sh))}"] + [f't flags {i}' for i in range(nop + 2)]
    return lines, {'maxdepth': 1, 'pre': False, 'op_in_ng': ng, 'mode': f"batch_norm training={int(tr)} running stats={stats} weight={int(hw)} bias={int(hb)}"}


def dropout_mode_case(rng, p, train, rg, ng):
    sh = rng.pick([(3,), (2, 2), ()])
    lines = [gen_dag.leaf_line(sh, gen_dag.rand_data(rng, sh), rg)]
    if ng: lines += ['t ctx new ng', 't ctx enter 0']
    lines.append(f't dropout 0 {common.fbits(p)} {int(train)}')
    r = 2 if train else 1
    lines.append(f't flags {r}')
    if ng: lines += ['t ctx exit 0']
    lines += [f't op mul {r},{r}', f't flags {r + 1}', 't flags 0', 't modes']
    return lines, {'maxdepth': 1, 'pre': False, 'op_in_ng': ng, 'mode': f'Dropout p={p} train={int(train)}'}


OPERAND_STATES = ['plain', 'parameter', 'computed', 'computed under no_grad from a parameter', 'frozen parameter', 'plain, switched on later']
CTX_LAYOUTS = [(), ('ng',), ('rg', 'ng'), ('ng', 'rg'), ('ng', 'ng'), ('rg',)]      # blocks entered around the statements, outermost first


def _enter(lines, layout, nctx):
    for j, k in enumerate(layout): lines += [f't ctx new {k}', f't ctx enter {nctx + j}']
    return nctx + len(layout)


def _exit(lines, layout, nctx, rng):
    for j in reversed(range(len(layout))): lines.append(f't ctx {"exitexc" if rng.chance(.2) else "exit"} {nctx - len(layout) + j}')


def binop_case(rng, form, sp, layout, pairs):
    """ONE binary operator in ONE spelling over operand pairs in the given states, inside the given blocks: `r = a <op> b`, the
    same statement again on its own result (the accumulation loop `total += w * x`), the flags of every result and — afterwards,
    outside the blocks — of every operand, a backward from every final result and the gradients it leaves"""
    kind, tt, _ = BFORMS[form]
    sh = (2, 2) if kind == 'matmul' else rng.pick([(2,), (3,), (2, 2), ()])
    n = int(np.prod(sh)) if sh else 1
    lines, nt, nctx = [], 0, 0
    V = lambda: [rng.pick([0.5, 1.0, 1.5, 2.0, 3.0]) for _ in range(n)]       # (positive: powers and quotients stay finite)
    def operand(state):
        nonlocal nt, nctx
        k = OPERAND_STATES.index(state)
        lines.append(gen_dag.leaf_line(sh, V(), k in (1, 2, 3, 4))); nt += 1
        if k == 2: lines.append(f't op mul {nt - 1},{nt - 1}'); nt += 1
        if k == 3:
            lines.extend([f't ctx new ng', f't ctx enter {nctx}', f't op mul {nt - 1},{nt - 1}', f't ctx exit {nctx}']); nt += 1; nctx += 1
        if k == 4: lines.append(f't setrg {nt - 1} 0')
        if k == 5: lines.append(f't setrg {nt - 1} 1')
        return nt - 1
    A = {st: operand(st) for st in sorted({p_[0] for p_ in pairs})}
    B = {st: operand(st) for st in sorted({p_[1] for p_ in pairs})} if tt else {}
    nop = nt
    def scalar():
        if kind in ('pow',): return f's{common.fbits(rng.pick([2.0, 0.5, -1.0, 3.0]))}'
        if kind == 'rpow': return f's{common.fbits(rng.pick([2.0, 0.5, 1.5]))}'
        return rng.pick([f's{common.fbits(rng.pick([2.0, 0.5, -1.5, 3.0]))}', f'n{rng.pick([2, 3, -2])}'])
    nctx = _enter(lines, layout, nctx)
    finals = []
    for sa, sb in pairs:
        r = A[sa]
        for rep_ in range(2):
            btok = f't{B[sb]}' if tt else scalar()
            lines.append(f't bop {kind} {sp} {r} {btok}')
            nt += bop_hidden(kind, tt) + 1
            r = nt - 1
            lines.append(f't flags {r}')
        finals.append(r)
    _exit(lines, layout, nctx, rng)
    lines.append('t modes')
    lines += [f't flags {k}' for k in range(nop)]
    for r in finals:
        lines.append(f"t bw {r} {show_ints(sh)} {show_floats(gen_dag.rand_data(rng, sh))}")
    lines += [f't grad {k}' for k in range(nop)] + [f't flags {r}' for r in finals]
    return lines, {'maxdepth': len(layout), 'pre': False, 'op_in_ng': 'ng' in layout,
                   'binop': f"{form} {sp}{' inside ' + '>'.join(layout) if layout else ''}", 'pairs': len(pairs)}


def ctor_case(rng, route, layout):
    """ONE constructor over every dtype class and either requested flag, inside the given blocks: accept / reject and the flags; then
    the wrapper nn.Parameter over the new tensor, the setter on it, an op on it"""
    lines, nt = [], 0
    nctx = _enter(lines, layout, 0)
    grad_on = 'ng' not in layout
    made = []
    for dt in ['f64', 'f32', 'i32', 'i64', 'bool', rng.pick(['c64', 'c128', 'u8', 'i16'])]:
        for rg in (0, 1):
            if route == 'Parameter' and rg: continue
            sh = (rng.randint(1, 3),) if route in ('arange',) else (2, 2) if route == 'eye' else rng.pick([(2,), (1, 2)] + ([()] if route in ('Tensor', 'Tensor-dtype', 'tensor', 'zeros', 'ones', 'empty', 'Parameter', 'Parameter-kw', 'zeros_like', 'ones_like') else []))
            n = int(np.prod(sh)) if sh else 1
            data = mk_data(route, sh) if route not in ('Tensor', 'Tensor-dtype', 'tensor', 'Parameter', 'Parameter-kw') else [float(rng.randint(0, 3)) for _ in range(n)]
            lines.append(f't mk {route} {dt} {show_ints(sh)} {rg} {show_floats(data)}')
            isf = dt in ('f64', 'f32')
            if rg and not isf and grad_on: continue          # refused: only floating-point tensors can require grad
            k = nt; nt += 1
            lines.append(f't flags {k}')
            lines += [f't wrap {k} {rng.pick(["-", "-", "0", "1"])}', f't flags {nt}']; nt += 1
            if rng.chance(.5): lines += [f't setrg {k} {rng.randint(0, 1)}', f't flags {k}']
            if isf: lines += [f't op mul {k},{k}', f't flags {nt}']; nt += 1
            made.append((k, isf))
    _exit(lines, layout, nctx, rng)
    lines.append('t modes')
    for k, isf in made:
        lines.append(f't flags {k}')
        if isf and rng.chance(.5): lines += [f't op mul {k},{k}', f't flags {nt}']; nt += 1
    return lines, {'maxdepth': len(layout), 'pre': False, 'op_in_ng': 'ng' in layout, 'ctor_route': f"{route}{' inside ' + '>'.join(layout) if layout else ''}"}


def layer_case(rng, layout):
    """the parameters and buffers of freshly constructed layers, built inside the given blocks"""
    lines, nt = [], 0
    nctx = _enter(lines, layout, 0)
    for layer, attr, sh in LAYER_PARAMS:
        lines += [f't lp {layer} {attr} {show_ints(sh)}', f't flags {nt}', f't op mul {nt},{nt}', f't flags {nt + 1}']; nt += 2
    _exit(lines, layout, nctx, rng)
    lines.append('t modes')
    lines += [f't flags {k}' for k in range(nt)]
    return lines, {'maxdepth': len(layout), 'pre': False, 'op_in_ng': 'ng' in layout, 'ctor_route': f"layer constructors{' inside ' + '>'.join(layout) if layout else ''}"}


ROUTES = ['setter', 'module', 'parent', 'grandparent', 'sequential', 'seqdict']
PARAM_KINDS = ['f64 on', 'f64 off', 'f32 on', 'f32 off', 'i32', 'i64', 'bool', 'other non-float', 'non-leaf (wrapped computed tensor)',
               'copy of a tracked plain tensor', 'copy of an untracked plain tensor', 'wrapped computed-under-no_grad tensor']


def _param(rng, lines, nt, nctx, kind):
    """one nn.Parameter of the given kind; returns (id of the parameter, next tensor id, next context id)"""
    sh = rng.pick([(2,), (1, 2), ()])
    n = int(np.prod(sh)) if sh else 1
    k = PARAM_KINDS.index(kind)
    if k < 8:
        dt = ['f64', 'f64', 'f32', 'f32', 'i32', 'i64', 'bool', rng.pick(['u8', 'i16', 'c64', 'c128'])][k]
        data = [float(rng.randint(0, 3)) for _ in range(n)]
        lines.append(f"t mk Parameter-kw {dt} {show_ints(sh)} {int(k in (0, 2))} {show_floats(data)}")
        return nt, nt + 1, nctx
    lines.append(gen_dag.leaf_line(sh, [float(rng.randint(1, 3)) for _ in range(n)], k != 10)); nt += 1
    if k == 8: lines.append(f't op mul {nt - 1},{nt - 1}'); nt += 1
    if k == 11:
        lines.extend(['t ctx new ng', f't ctx enter {nctx}', f't op mul {nt - 1},{nt - 1}', f't ctx exit {nctx}']); nt += 1; nctx += 1
    lines.append(f't wrap {nt - 1} {rng.pick(["-", "0", "1"])}')
    return nt, nt + 1, nctx


def route_case(rng, route, layout, tier):
    """ONE route over parameters of EVERY kind: each kind alone under freeze and under unfreeze (a fresh parameter for each call), then
    mixed lists with the offending kinds in drawn positions, calls repeated; the flags of every tensor after every call, ops on the
    floating-point ones afterwards"""
    lines, nt, nctx = [], 0, 0
    pool = []
    def Q(ids=None):
        return [f't flags {k}' for k in (ids if ids is not None else range(nt))]
    nctx = _enter(lines, layout, nctx)
    for kind in PARAM_KINDS:
        for v in (1, 0):
            pid, nt, nctx = _param(rng, lines, nt, nctx, kind)
            lines += Q([pid]) + [f't rgroute {route} {v} {pid}'] + Q([pid])
            if rng.chance(.3): lines += [f't rgroute {route} {1 - v} {pid}'] + Q([pid])       # ... and back
            pool.append((pid, kind))
    # mixed lists: a realistic module holds float tables next to integer index parameters
    for _ in range(3 if tier == 'quick' else 12):
        ids = []
        for kind in rng.sample(PARAM_KINDS[:4], rng.randint(1, 3)) + rng.sample(PARAM_KINDS[4:], rng.randint(0, 2)):
            pid, nt, nctx = _param(rng, lines, nt, nctx, kind); ids.append(pid)
        ids = rng.sample(ids, len(ids))          # the offending one first / in the middle / last
        for v in rng.sample([0, 1, 1, 0], rng.randint(1, 3)):
            lines += [f't rgroute {rng.pick([route, route, "setter"])} {v} {show_ints(ids)}'] + Q(ids)
        pool += [(i, None) for i in ids]
    _exit(lines, layout, len(layout), rng)           # (the blocks of the layout are the contexts 0 .. len(layout) - 1)
    lines.append('t modes')
    lines += Q()
    for pid, kind in rng.sample(pool, min(len(pool), 6)):
        lines += [f't op mul {pid},{pid}', f't flags {nt}']; nt += 1
    return lines, {'maxdepth': len(layout), 'pre': False, 'op_in_ng': False, 'route': f"{route}{' inside ' + '>'.join(layout) if layout else ''}"}


def listop_case(rng, op, n, mask, ng):
    """concat / stack over a list of n operands whose tracked positions are given by `mask`"""
    base = rng.pick([(2,), (2, 3), (1, 2)]) if op == 'concat' else rng.pick([(), (2,), (2, 2)])
    ax = rng.randrange(-len(base), len(base)) if op == 'concat' else rng.randrange(-(len(base) + 1), len(base) + 1)
    shapes = [tuple(rng.randint(1, 3) if op == 'concat' and i == ax % len(base) else d for i, d in enumerate(base)) for _ in range(n)]
    lines = [gen_dag.leaf_line(sh, gen_dag.rand_data(rng, sh), bool(m)) for sh, m in zip(shapes, mask)]
    if ng: lines += ['t ctx new ng', 't ctx enter 0']
    lines.append(f't op {op} {show_ints(range(n))} {ax}')
    lines.append(f't flags {n}')
    if ng: lines += ['t ctx exit 0']
    out = tuple(int(v) for v in (np.concatenate if op == 'concat' else np.stack)([np.zeros(sh) for sh in shapes], ax).shape)
    lines += [f't flags {k}' for k in range(n)] + [f't op mul {n},{n}', f't flags {n + 1}', 't modes',
              f"t bw {n} {show_ints(out)} {show_floats(gen_dag.rand_data(rng, out))}"] + [f't grad {k}' for k in range(n)] + [f't flags {k}' for k in range(n + 1)]
    return lines, {'maxdepth': 1, 'pre': False, 'op_in_ng': ng, 'listop': f"{op} n={n} tracked={''.join(str(int(m)) for m in mask)}"}


LOSSES = ['mse_loss', 'nll_loss', 'binary_cross_entropy', 'binary_cross_entropy_with_logits', 'cross_entropy']


def loss_mode_case(rng, name, red):
    """every loss class under every reduction (the reduced loss is a second op on top of the unreduced one)"""
    import gen_ops
    leaves, args = gen_ops.gen_nn(rng, name, False)
    flags = [rng.chance(.6), rng.chance(.4) if name == 'mse_loss' else False]
    lines = [gen_dag.leaf_line(lf[0], lf[1], f, lf[3] if len(lf) > 3 else 'f64') for lf, f in zip(leaves, flags)]
    ng = rng.chance(.3)
    if ng: lines += ['t ctx new ng', 't ctx enter 0']
    lines.append(' '.join(['t loss', name, red, '0', '1'] + [str(a) for a in args]))
    r = 2 if red == 'none' else 3
    lines += [f't flags {k}' for k in range(2, r + 1)]
    if ng: lines += ['t ctx exit 0']
    lines += [f't op mul {r},{r}', f't flags {r + 1}', 't modes']
    return lines, {'maxdepth': 1, 'pre': False, 'op_in_ng': ng, 'mode': f'{name} reduction={red}'}


def extract():
    """the conditions of tensor creation, the flag setters and the grad-mode contexts are re-read from tensor.py (Generated/EngineLogic.lean);
    the src_* theorems are re-checked against them by the build that follows"""
    import engine_logic
    return engine_logic.write()[0]


def logic_cases():
    """family `logic`: every row of the truth table of every generated condition (driver) against the source's own expression evaluated by
    Python with the atoms replaced by constants — validates the Boolean translation of harness/engine_logic.py"""
    import engine_logic
    try:
        cs = engine_logic.logic_cases()
    except Exception:
        return []                         # tensor.py not readable: the build of Props.C07 reports it
    for c in cs:
        c['stats'] = {'maxdepth': 0, 'pre': False, 'op_in_ng': False}
    return cs


def cases(rng, tier):
    out = []
    out += logic_cases()
    import gen_ops
    for op in gen_ops.OPS_BASIC + gen_ops.OPS_NN:
        for _ in range((14 if op in ('linear', 'conv1d', 'conv2d') else 6) if tier == 'quick' else 60):
            try:
                lines, stats = op_flag_case(rng, op)
            except Exception:
                continue
            out.append({'lines': lines, 'stats': stats, 'desc': ' ; '.join(l for l in lines if not l.startswith(('t flags', 't modes', 't grad')))[:900]})
        for hot in range(4):            # ... and with exactly one tracked operand in every position
            for _ in range(1 if tier == 'quick' else 5):
                try:
                    lines, stats = op_flag_case(rng, op, hot)
                except Exception:
                    continue
                out.append({'lines': lines, 'stats': stats, 'desc': ' ; '.join(l for l in lines if not l.startswith(('t flags', 't modes', 't grad')))[:900]})
    # operands of DIFFERENT float dtypes (float64 batch against float32 parameters and vice versa) for every op with several float
    # operands: exactly one tracked operand in every position, outside and inside no_grad; plus drawn flags
    for op in MIXED_OPS:
        for dts in (('f64', 'f32'), ('f32', 'f64')):
            for hot in (0, 1, 2, None):
                for ng in (False, True):
                    for _ in range(1 if tier == 'quick' else 6):
                        if ng and tier == 'quick' and hot is not None and rng.chance(.5): continue
                        try:
                            lines, stats = op_flag_case(rng, op, hot, dts=dts, ng=ng)
                        except Exception:
                            continue
                        out.append({'lines': lines, 'stats': stats, 'desc': 'mixed float dtypes: ' + ' ; '.join(l for l in lines if not l.startswith(('t flags', 't modes', 't grad')))[:900]})
    for op in ('concat', 'stack'):
        for n in range(1, 6):
            masks = [[int(i == k) for i in range(n)] for k in range(n)] + [[0] * n, [1] * n]
            if tier != 'quick': masks = [[(b >> i) & 1 for i in range(n)] for b in range(2 ** n)]
            for mask in masks:
                for ng in ((False, True) if tier != 'quick' or sum(mask) == 1 and (mask[-1] or rng.chance(.3)) else (False,)):
                    lines, stats = listop_case(rng, op, n, mask, ng)
                    out.append({'lines': lines, 'stats': stats, 'desc': 'list op: ' + ' ; '.join(l for l in lines if not l.startswith(('t flags', 't modes', 't grad ')))[:900]})
    for route in ROUTES:
        for layout in (CTX_LAYOUTS if tier != 'quick' else [(), rng.pick(CTX_LAYOUTS[1:])]):
            lines, stats = route_case(rng, route, layout, tier)
            out.append({'lines': lines, 'stats': stats, 'desc': 'flag route: ' + ' ; '.join(l for l in lines if not l.startswith(('t flags', 't modes', 't grad ')))[:900]})
    for _ in range(150 if tier == 'quick' else 5000):
        lines, stats = gen_seq(rng, tier)
        out.append({'lines': lines, 'stats': stats, 'desc': ' ; '.join(l for l in lines if not l.startswith(('t flags', 't modes', 't grad')))[:900]})
    for _ in range(60 if tier == 'quick' else 2000):
        lines, stats = gen_release_seq(rng)
        out.append({'lines': lines, 'stats': stats, 'desc': ' ; '.join(l for l in lines if not l.startswith(('t flags', 't modes', 't grad')))[:900]})
    # arguments under which an op changes nothing (flatten of a single dim, reshape to the same shape, squeeze with nothing to
    # squeeze, a dim moved onto itself, the empty tuple of dims, exponent 1): the result is still a NEW tensor whose flag
    # follows the rule — inside no_grad it must not require grad although the operand does
    noop = [((3,), 'flatten 0 0 0'), ((2, 3), 'flatten 0 1 1'), ((2, 3), 'flatten 0 -1 -1'), ((2, 3), 'reshape 0 2,3'), ((3,), 'reshape 0 -1'),
            ((2, 3), 'squeeze 0 all'), ((2, 3), 'squeeze 0 t:_'), ((2, 3), 'transpose 0 0 0'), ((2, 3), 'transpose 0 1 -1'), ((2, 3), 'movedim 0 1 1'),
            ((2, 3), 'sum 0 t:_ 0'), ((2, 3), 'mean 0 t:_ 1'), ((3,), f'pow 0 {common.fbits(1.0)}'), ((3,), 'clone 0'), ((), 'sum 0 all 0'), ((), 'reshape 0 _')]
    for sh, opl in (noop if tier != 'quick' else rng.sample(noop, 10)):
        for ng, rg in ((True, True), (False, rng.chance(.5))):
            n = int(np.prod(sh)) if sh else 1
            lines = [gen_dag.leaf_line(sh, [float(rng.randint(1, 3)) for _ in range(n)], rg)] + (['t ctx new ng', 't ctx enter 0'] if ng else []) + \
                    [f't op {opl}', 't flags 1', 't flags 0', 't op mul 1,1', 't flags 2'] + (['t ctx exit 0'] if ng else []) + ['t op mul 1,0', 't flags 3', 't modes']
            out.append({'lines': lines, 'stats': {'maxdepth': 1, 'pre': False, 'op_in_ng': ng}, 'desc': 'no-op arguments: ' + ' ; '.join(lines)[:300]})
    mk = lambda lines, stats, tag, **kw: dict({'lines': lines, 'stats': stats, 'desc': tag + ': ' + ' ; '.join(l for l in lines if not l.startswith(('t flags', 't modes', 't grad ')))[:900]}, **kw)
    for rep in range(2 if tier == 'quick' else 30):
        for state in STATES:
            for ng in (False, True):
                lines, stats, bad = lifecycle_case(rng, state, ng)
                out.append(mk(lines, stats, f'life cycle [{state}{", derived inside no_grad" if ng else ""}]', bad_bw=bad))
    for rep in range(1 if tier == 'quick' else 20):
        for tr in (False, True):
            for st_ in ('both', 'none', 'mean', 'var'):
                for hw in (False, True):
                    for hb in (False, True):
                        for ng in (False, True):
                            out.append(mk(*bn_mode_case(rng, tr, st_, hw, hb, ng), 'nn mode'))
        for p_ in (0.0, 0.5, 1.0):
            for train in (False, True):
                for rg in (False, True):
                    for ng in (False, True):
                        out.append(mk(*dropout_mode_case(rng, p_, train, rg, ng), 'nn mode'))
        for name in LOSSES:
            for red in ('mean', 'sum', 'none'):
                out.append(mk(*loss_mode_case(rng, name, red), 'nn mode'))
    # binary operators: every form x spelling outside any block over ALL pairs of operand states, and once more inside a drawn
    # arrangement of blocks (thorough: every arrangement)
    allp = [(a, b) for a in OPERAND_STATES for b in OPERAND_STATES]
    for form, (kind, tt, sps) in list(BFORMS.items()) * (1 if tier == 'quick' else 3):
        pairs = allp if tt else [(a, OPERAND_STATES[0]) for a in OPERAND_STATES]
        for sp in sps:
            # (quick: outside, one drawn arrangement that contains a no_grad block, and retain_grads alone now and then)
            for layout in ([()] + ([rng.pick(CTX_LAYOUTS[1:5])] + ([('rg',)] if rng.chance(.25) else []) if tier == 'quick' else CTX_LAYOUTS[1:])):
                sub = pairs if not layout or tier != 'quick' or not tt else rng.sample(pairs, 24)
                out.append(mk(*binop_case(rng, form, sp, layout, sub), 'binary operator'))
    # constructors: every route x dtype class x requested flag, outside and inside blocks
    for route in MK_ROUTES:
        for layout in (CTX_LAYOUTS if tier != 'quick' else [(), ('ng',), rng.pick(CTX_LAYOUTS[2:])]):
            out.append(mk(*ctor_case(rng, route, layout), 'constructor'))
    for layout in CTX_LAYOUTS:
        out.append(mk(*layer_case(rng, layout), 'constructor'))
    for _ in range(3 if tier == 'quick' else 16):
        lines, stats = fresh_seq(rng)
        out.append({'lines': lines, 'stats': stats, 'fresh': True, 'desc': 'fresh interpreter: ' + ' ; '.join(l for l in lines if not l.startswith(('t flags', 't modes')))[:900]})
    if tier == 'thorough':
        # EXHAUSTIVE sub-family: three pre-constructed context objects (no_grad, retain_grads, no_grad); every word of length <= 6
        # over {enter c0, enter c1, enter c2, exit top, exit top by exception, op}; an op and the modes are observed after each
        import itertools
        for n in range(1, 7):
            for word in itertools.product(range(6), repeat=n):
                lines = [gen_dag.leaf_line((2,), [1.0, 2.0], True), 't ctx new ng', 't ctx new rg', 't ctx new ng']
                active, nt, ok = [], 1, True
                for k in word:
                    if k < 3:
                        if k in active: ok = False; break          # one object is not entered twice at once
                        lines.append(f't ctx enter {k}'); active.append(k)
                    elif k < 5:
                        if not active: ok = False; break
                        lines.append(f't ctx {"exit" if k == 3 else "exitexc"} {active.pop()}')
                    else:
                        lines.append('t op mul 0,0'); lines.append(f't flags {nt}'); nt += 1
                    lines.append('t modes')
                if not ok: continue
                while active: lines.append(f't ctx exit {active.pop()}'); lines.append('t modes')
                lines += ['t op mul 0,0', f't flags {nt}']
                out.append({'lines': lines, 'stats': {'maxdepth': 3, 'pre': True, 'op_in_ng': True}, 'exhaustive': True, 'desc': ' ; '.join(lines)[:600]})
    corpus = [
        # a context object constructed while another is active, used later
        ['t ctx new ng', 't ctx enter 0', 't ctx new ng', 't ctx exit 0', 't modes', 't ctx enter 1', 't modes', 't ctx exit 1', 't modes'],
        ['t ctx new rg', 't ctx new ng', 't ctx enter 1', 't ctx enter 0', 't modes', 't ctx exitexc 0', 't modes', 't ctx exitexc 1', 't modes',
         't ctx enter 0', 't modes', 't ctx exit 0', 't modes', 't ctx enter 0', 't modes', 't ctx exit 0', 't modes'],
        [gen_dag.leaf_line((2,), [1., 2.], True), 't ctx new ng', 't ctx enter 0', 't op mul 0,0', 't flags 1', 't ctx exit 0', 't op mul 0,0', 't flags 2',
         't bw 1 2 ' + show_floats([1., 1.]), 't setrg 2 0', 't setrg 0 0', 't flags 0', gen_dag.leaf_line((2,), [1., 2.], True, 'i64')],
    ]
    for l in corpus:
        out.append({'lines': l, 'stats': {'maxdepth': 2, 'pre': True, 'op_in_ng': True}, 'desc': ' ; '.join(l)})
    # every run, after everything drawn (their stream is not moved): x ** 0 and x ** -0.0 of a tracked tensor with grad mode on
    for f in ('pow0', 'pow-0'):
        try:
            lines, stats = op_flag_case(rng, 'pow', force=f)
            out.append({'lines': lines, 'stats': dict(stats, forced='pow with exponent zero'), 'desc': ' ; '.join(l for l in lines if not l.startswith(('t flags', 't modes', 't grad')))[:900]})
        except Exception:
            pass
    return out


def _io(c):
    return tprog.run_program_fresh(c['lines'], 'props.c07', 'Exec') if c.get('fresh') else tprog.run_program(c['lines'], Exec)


def impl(c):
    if c.get('kind') == 'logic': return list(c['want'])
    return _io(c)


def fresh_seq(rng):
    """the first statements of a fresh interpreter: contexts are constructed and entered BEFORE the first tensor exists"""
    k0, k1 = rng.pick(['ng', 'rg']), rng.pick(['ng', 'rg'])
    lines = [f't ctx new {k0}', f't ctx new {k1}', 't ctx enter 0', 't modes']
    nested = rng.chance(.5)
    if nested: lines += ['t ctx enter 1', 't modes']
    lines += [gen_dag.leaf_line((2,), [1.0, 3.0], True), 't modes', 't flags 0', gen_dag.leaf_line((2,), [2.0, 1.0], False), 't op mul 0,1', 't flags 2', 't modes']
    if nested: lines += [f't ctx {rng.pick(["exit", "exitexc"])} 1', 't modes', 't op add 0,1', 't flags 3']
    lines += [f't ctx {rng.pick(["exit", "exitexc"])} 0', 't modes', 't op mul 0,0', f't flags {4 if nested else 3}']
    return lines, {'maxdepth': 2 if nested else 1, 'pre': True, 'op_in_ng': 'ng' in (k0, k1)}


def compare(c, mo, io):
    if c.get('kind') == 'logic': return [(l, m, i) for l, m, i in zip(c['lines'], mo, io) if m != i][:3]
    return tprog.diff_program(c['lines'], mo, io)


def nontrivial(c):
    s = c['stats']
    return s['maxdepth'] >= 2 and s['pre'] and s['op_in_ng']


def distribution(cases):
    d = {'maxdepth': max(c['stats']['maxdepth'] for c in cases)}
    d['exhaustive: all well-formed words of length <= 6 over enter c0/c1/c2, exit, exit by exception, op'] = sum(1 for c in cases if c.get('exhaustive'))
    d['logic: truth-table rows of the conditions read from tensor.py'] = sum(1 for c in cases if c.get('kind') == 'logic')
    for c in cases:
        if c.get('kind') == 'logic': continue
        for l in c['lines']:
            k = ' '.join(l.split(' ')[1:3]) if l.startswith('t ctx') else l.split(' ')[1]
            d[k] = d.get(k, 0) + 1
        st = c['stats']
        if st.get('state'):       # life-cycle state in which every derivation (detach, copy constructor, .data round trip, clone, .grad) is applied to every tensor
            k = f"derivations x tensors in state: {st['state']}{' (inside no_grad)' if st['op_in_ng'] else ''}"
            d[k] = d.get(k, 0) + 1
        if st.get('binop'):       # one binary operator in one spelling: statements (operand-state pairs x 2) in that program
            k = f"binary operator {st['binop'].split(' inside ')[0]}: statements outside blocks / inside no_grad / inside retain_grads only"
            v = d.setdefault(k, [0, 0, 0])
            v[1 if st['op_in_ng'] else 2 if st['maxdepth'] else 0] += 2 * st['pairs']
        if st.get('ctor_route'):
            k = f"constructor route: {st['ctor_route']}"
            d[k] = d.get(k, 0) + 1
        if st.get('route'):
            k = f"flag-switching route over parameters of every kind: {st['route']}"
            d[k] = d.get(k, 0) + 1
        if st.get('listop'):
            k = f"list op, tracked positions enumerated: {st['listop']}{' (inside no_grad)' if st['op_in_ng'] else ''}"
            d[k] = d.get(k, 0) + 1
        if st.get('onehot'):
            k = f"exactly one tracked operand: {st['onehot']}"
            d[k] = d.get(k, 0) + 1
        if st.get('mixed'):       # operands of different float dtypes
            k = f"mixed float dtypes: {st['mixed']}{' (inside no_grad)' if st['op_in_ng'] else ''}"
            d[k] = d.get(k, 0) + 1
        if st.get('mode'):        # nn op under one mode / option combination
            k = f"nn mode: {st['mode']}{' (inside no_grad)' if st['op_in_ng'] else ''}"
            d[k] = d.get(k, 0) + 1
    d['flag-switching route calls (freeze / unfreeze on an owner tree, setter loop) inside random event sequences'] = sum(c['stats'].get('routes', 0) for c in cases if c.get('kind') != 'logic')
    d['tensor-from-tensor derivations inside random event sequences'] = sum(c['stats'].get('derived', 0) for c in cases)
    d['operator statements (drawn form x spelling) inside random event sequences'] = sum(c['stats'].get('bop', 0) for c in cases if c.get('kind') != 'logic')
    d['constructor routes other than Tensor(array) inside random event sequences'] = sum(c['stats'].get('ctor', 0) for c in cases if c.get('kind') != 'logic')
    return d


# ---- oracle: the property's predicates evaluated on the observed answers ------------------------
def oracle(c):
    if c.get('kind') == 'logic': return None
    io = _io(c)
    stack = []                       # (ctx id, kind, mode value at enter)
    grad, retain = True, False
    flags = {}
    ntens = 0
    rg_of = {}
    ever = set()      # tensors that required grad at some point (a frozen leaf keeps the gradient it had)
    assigned = set()  # tensors whose buffer the USER set (zero_()) — and copy-constructed tensors, which take over their source's buffer
    isfloat = {}
    bad_bw = set(c.get('bad_bw') or [])
    plain = 'rg=0 leaf=1 fn=0 grad=0 children=0'
    nonleaf = set()   # tensors that require grad and carry a backward function (results of ops on tracked operands, and their copies)
    deps = {}         # result of a binary operator -> the leaves it was tracked through when it was made
    owed = {}         # leaves a successful backward call has to leave a gradient on -> the root of that call
    group = {}        # names of ONE object (an operator statement that hands back its operand): they share every attribute
    names = lambda k: group.get(k, [k])
    for li, (l, o) in enumerate(zip(c['lines'], io)):
        t = l.split(' ')
        def fail(cls, what):
            return {'key': {'cls': cls}, 'case': {'lines': c['lines'][:li + 1], 'fresh': bool(c.get('fresh')), 'bad_bw': sorted(bad_bw)}, 'what': what}
        def new(rg, fl=True, like=None, dep=None, op=False):
            nonlocal ntens
            if op and rg: nonleaf.add(ntens)
            rg_of[ntens] = rg
            isfloat[ntens] = fl
            deps[ntens] = {ntens} if dep is None and like is None else (dep or set())      # a leaf stands for itself; nothing is claimed about copies
            if rg: ever.add(ntens)
            if like is not None:
                if like in ever: ever.add(ntens)
                if like in nonleaf: nonleaf.add(ntens)
                assigned.add(ntens)
            ntens += 1
            return ntens - 1
        if t[1] in ('mk', 'lp'):          # a constructor call: the leaf-creation rule
            dtn = t[3] if t[1] == 'mk' else 'f32'
            req = bool(int(t[5])) if t[1] == 'mk' else t[3] in ('weight', 'bias')
            what = f'{t[2]}(..., dtype={dtn}, requires_grad={req})' if t[1] == 'mk' else f'{t[2]} layer .{t[3]}'
            if o != 'rejected':
                k = new(req and grad, dtn in ('f64', 'f32'))
                if rg_of[k] and not isfloat[k]:
                    return fail('float-only', f'{what} made a tensor that is not floating point require grad')
            elif not (dtn not in ('f64', 'f32') and req and grad):
                return fail('leaf-rejected', f'{what} raised')
        elif t[1] == 'wrap':
            if o == 'rejected': return fail('copy-raised', f'nn.Parameter(t{t[2]}) raised')
            src = int(t[2])
            new(rg_of.get(src, False), isfloat.get(src, True), like=src)        # Parameter(tensor) is the copy constructor
        elif t[1] == 'bop':
            if o == 'rejected': return fail('operator-raised', f'{l} raised')
            ins = [int(t[4])] + ([int(t[5][1:])] if t[5][0] == 't' else [])
            want = grad and any(rg_of.get(i, False) for i in ins)
            for _ in range(bop_hidden(t[2], t[5][0] == 't')): new(False, dep=set())
            k = new(want, dep=set().union(*[deps.get(i, set()) for i in ins if rg_of.get(i, False)]) if want else set(), op=True)
            if ' is-operand-t' in o:          # the result IS the operand (updated in place): one object under two names, and the rule speaks about it as the result
                src = int(o.split(' is-operand-t')[1])
                g = names(src) + [k]
                for j in g:
                    group[j] = g; rg_of[j] = want; deps[j] = deps[k]; isfloat[j] = isfloat.get(src, True)
                if any(j in ever for j in g): ever.update(g)
                if any(j in assigned for j in g): assigned.update(g)
                if any(j in nonleaf for j in g): nonleaf.update(g)
        elif t[1] == 'ctx' and t[2] == 'enter':
            kind = None
            # kind is known from the creation line
            k = int(t[3])
            newl = [x for x in c['lines'] if x.startswith('t ctx new')][k]
            kind = newl.split(' ')[3]
            stack.append((k, kind, grad if kind == 'ng' else retain))
            if kind == 'ng': grad = False
            else: retain = True
        elif t[1] == 'ctx' and t[2] in ('exit', 'exitexc'):
            k, kind, prev = stack.pop()
            if kind == 'ng': grad = prev
            else: retain = prev
        elif t[1] == 'modes':
            if o != f'{int(grad)}{int(retain)}':
                return fail('modes', f'global modes are {o}, a stack of contexts gives {int(grad)}{int(retain)}')
        elif t[1] == 'leaf':
            if o != 'rejected':
                k = new(bool(int(t[4])) and grad, t[2] in ('f64', 'f32'))
                if t[2] not in ('f64', 'f32') and rg_of[k]:
                    return fail('float-only', f'a tensor of dtype {t[2]} (not floating point) was made to require grad')
            elif not (t[2] not in ('f64', 'f32') and bool(int(t[4])) and grad):
                return fail('leaf-rejected', 'leaf creation raised')
        elif t[1] == 'op' and o != 'rejected':
            ins = common.parse_ints(t[3])
            want = grad and any(rg_of.get(i, False) for i in ins)
            dep = set().union(*[deps.get(i, set()) for i in ins if rg_of.get(i, False)]) if want else set()
            for _ in o.split(','):
                new(want, dep=dep, op=True)
        elif t[1] == 'loss' and o != 'rejected':
            want = grad and (rg_of.get(int(t[4]), False) or rg_of.get(int(t[5]), False))
            new(want, dep=set(), op=True)
            if t[3] != 'none': new(want, dep=set(), op=True)          # the reduction is a second op on the unreduced loss
        elif t[1] == 'detach':
            if o == 'rejected': return fail('detach-raised', f'detach() of t{t[2]} raised')
            new(False, isfloat.get(int(t[2]), True))
        elif t[1] == 'ctor' and t[2] == 'like':
            if o == 'rejected': return fail('like-raised', f'zeros_like / ones_like of t{t[4]} raised')
            new(False, isfloat.get(int(t[4]), True))
        elif t[1] == 'fromdata':
            src, want_rg = int(t[2]), bool(int(t[3]))
            if o != 'rejected':
                k = new(want_rg and grad, isfloat.get(src, True))
                if rg_of[k] and not isfloat[k]:
                    return fail('float-only', f'Tensor(t{src}.data, requires_grad=True) over data that is not floating point was accepted')
            elif not (want_rg and grad and not isfloat.get(src, True)):
                return fail('leaf-rejected', f'Tensor(t{src}.data, requires_grad={want_rg}) raised')
        elif t[1] == 'copy':
            if o == 'rejected': return fail('copy-raised', f'Tensor(t{t[2]}) raised')
            src = int(t[2])
            new(rg_of.get(src, False), isfloat.get(src, True), like=src)        # documented: every attribute of the source
        elif t[1] == 'gradt':
            if o not in ('none', 'rejected') and o != plain:
                return fail('no-history', f'the tensor handed out by t{t[2]}.grad is not a plain tensor: {o}')
        elif t[1] == 'dropout':
            if o == 'rejected': return fail('dropout-raised', 'Dropout forward raised')
            src = int(t[2])
            if int(t[4]):
                new(False); new(grad and rg_of.get(src, False), dep=set(), op=True)       # mask, product
            else:
                new(rg_of.get(src, False), like=src)                  # eval mode hands back its operand
        elif t[1] == 'zero' and o == 'ok':
            assigned.update(names(int(t[2])))
        elif t[1] == 'rgroute':
            v, ids = bool(int(t[3])), common.parse_ints(t[4])
            if o not in ('ok', 'rejected'): return fail('route-params', f'{l}: {o}')
            # the rules of the setter, tensor by tensor: leaves only, and only floating-point tensors can be switched on
            bad = next((j for j in ids if j in nonleaf or (v and not isfloat.get(j, True))), None)
            why = lambda j: 'is not a leaf' if j in nonleaf else 'is not floating point'
            if o == 'ok' and bad is not None:
                return fail('route-accepts', f'{l}: switching requires_grad to {v} through the route `{t[2]}` was accepted although t{bad} {why(bad)} (the requires_grad setter refuses it)')
            if o == 'rejected' and bad is None:
                return fail('route-raised', f'{l}: raised although every listed tensor is a leaf' + (' of floating-point dtype' if v else ''))
            for j in (ids if bad is None else ids[:ids.index(bad)]):
                for j2 in names(j):
                    rg_of[j2] = v
                    if v: ever.add(j2)
        elif t[1] == 'setrg' and o == 'ok':
            for j in names(int(t[2])):
                rg_of[j] = bool(int(t[3]))
                if rg_of[j]: ever.add(j)
        elif t[1] == 'flags':
            k = int(t[2])
            if '=' not in o: continue             # hidden / no such tensor
            f = dict(kv.split('=') for kv in o.split(' '))
            if f['rg'] == '1' and not isfloat.get(k, True):
                return fail('float-only', f't{k} is not floating point and requires grad')
            if bool(int(f['rg'])) != rg_of.get(k, False):
                return fail('requires_grad', f't{k}.requires_grad is {f["rg"]}, the rule (mode and any operand) gives {int(rg_of.get(k, False))}')
            if rg_of.get(k, False): ever.update(names(k))
            if f['rg'] == '0' and (f['fn'] == '1' or (f['grad'] == '1' and k not in ever and k not in assigned) or f['children'] != '0'):
                return fail('no-history', f't{k} does not require grad but has {o}')
        elif t[1] == 'bw':
            k = int(t[2])
            if li in bad_bw:
                if o != 'rejected': return fail('backward-accept', f'backward on t{k} accepted a gradient of another shape')
            elif (o == 'rejected') != (not rg_of.get(k, False)):
                return fail('backward-accept', f'backward on t{k} (requires_grad={rg_of.get(k)}) answered {o[:20]}')
            elif o != 'rejected':
                for j in deps.get(k, ()):
                    if rg_of.get(j, False): owed[j] = k
        elif t[1] == 'grad':
            k = int(t[2])
            if k in owed and o == '-':
                return fail('unreached', f'backward from t{owed[k]} left no gradient on the leaf t{k}, which requires grad and is an operand (through tracked results) of t{owed[k]}')
    return None


def search(rng, tier):
    for c in cases(rng, 'quick'):
        f = oracle(c)
        if f: yield f


def matches_known(k, fail): return k.get('key') == fail.get('key')
def rerun_known(k): return oracle(k['witness']) is not None
def replay(fail):
    f = oracle(fail['case'])
    return {'fails': f is not None, 'now': f}
