"""C14 — fused operations equal the compositions their documentation equates them with"""
import numpy as np
import common
from common import show_floats, show_ints, fbits
import tprog, gen_dag, gen_ops, views

tprog.ENTRIES = True        # function / Tensor method / operator / nn layer class
tprog.SPELLINGS = True      # int-or-tuple arguments in every documented spelling
tprog.LAYOUTS = True        # leaves are handed over in C / Fortran / strided / negative-stride / offset / transposed / broadcast layouts
tprog.LAYOUT_NAMES = tprog.LAYOUT_NAMES + ['F', 'broadcast']
_relayout0 = tprog.relayout


def _relayout(a, layout):
    """tprog.relayout plus `broadcast`: an array that is constant along an axis arrives as the zero-stride (read-only) view
    np.broadcast_to makes of one slice (anything else arrives Fortran-ordered instead)"""
    if layout not in ('broadcast', 'F', 'offset'): return _relayout0(a, layout)
    for ax in range(a.ndim):
        if a.shape[ax] > 1:
            first = np.take(a, [0], axis=ax)
            if np.array_equal(np.broadcast_to(first, a.shape), a, equal_nan=True):
                return np.broadcast_to(np.ascontiguousarray(first), a.shape)
    return _relayout0(a, 'F' if layout == 'broadcast' else layout)


tprog.relayout = _relayout

# `stride=None` / stride left out ("Defaults to kernel_size"): a pooling call whose stride equals its kernel is ALSO spelled the
# default way when the case says so (c['stride_default']); the model is told the stride in full either way
_STRIDE_DEFAULT = [0]
_call_nn0 = tprog.Impl._call_nn


def _call_nn(self, name, x, args, sp=0):
    mode = _STRIDE_DEFAULT[0]
    if mode and name in ('max_pool1d', 'avg_pool1d', 'max_pool2d', 'avg_pool2d') and args[0] == args[1]:
        one = name.endswith('1d')
        cv = (lambda a: int(a)) if one else (lambda a: (lambda v: v[0] if (sp == 1 and v[0] == v[1]) else v)(tuple(common.parse_ints(a))))
        k, p, d = cv(args[0]), cv(args[2]), cv(args[3])
        if mode in (1, 2):
            f = getattr(self.sg, name)
            return f(x[0], k, None, p, d) if mode == 1 else f(x[0], k, padding=p, dilation=d)
        cls = getattr(self.nn, {'max_pool1d': 'MaxPool1d', 'avg_pool1d': 'AvgPool1d', 'max_pool2d': 'MaxPool2d', 'avg_pool2d': 'AvgPool2d'}[name])
        return (cls(k, None, p, d) if mode == 3 else cls(k, padding=p, dilation=d))(x[0])
    return _call_nn0(self, name, x, args, sp)


tprog.Impl._call_nn = _call_nn


def _run_t(c, lines):
    _STRIDE_DEFAULT[0] = c.get('stride_default', 0)
    try:
        return tprog.run_program(lines)
    finally:
        _STRIDE_DEFAULT[0] = 0
VIEW_KINDS = views.VIEW_KINDS
PROP = 'C14'
LEAN_TARGETS = ['Props.C14']
REQUIRED_THEOREMS = ['Props.C14.linear_is_addmm', 'Props.C14.cross_entropy_is_nll_log_softmax', 'Props.C14.mean_is_sum_div_count',
                     'Props.C14.flatten_is_reshape', 'Props.C14.sub_is_add_neg', 'Props.C14.div_is_mul_pow', 'Props.C14.stack_is_concat_unsqueeze',
                     'Props.C14.unbind_inverts_stack', 'Props.C14.movedim_adjacent_is_transpose', 'Props.C14.conv2d_is_unfold_matmul', 'Props.C14.avgpool2d_is_unfold_mean', 'Props.C14.maxpool2d_is_unfold_max',
                     'Props.C14.log_softmax_is_log_softmax', 'Props.C14.log_softmax_entries', 'Props.C14.library_log_of_softmax',
                     'Props.C14.library_log_of_softmax_counterexample', 'Props.C14.bce_logits_vs_bce_sigmoid', 'Props.C14.bce_both_reject',
                     'Props.C14.bce_logits_vs_bce_sigmoid_unit_targets', 'Props.C14.bce_logits_ne_bce_sigmoid_counterexample',
                     'Props.C14.bce_sigmoid_no_eps', 'Props.C14.sequential_is_composition', 'Props.C14.sequentialForward_eq_fold',
                     'Props.C14.sequential_is_function_composition', 'Props.C14.sequential_nil_single', 'Props.C14.sequential_append',
                     'Props.C14.sequentialDict_is_composition', 'Props.C14.neuron_is_linear', 'Props.C14.grad_eq_of_forward_eq',
                     'Props.C14.vjp_grad_eq_of_forward_eq', 'Props.C14.vjp_comp_adjoint', 'Props.C14.cross_entropy_grad_is_nll_log_softmax_grad',
                     'Props.C14.linear_grads_are_matmul_grads', 'Props.C14.mean_grad_is_sum_div_grad',
                     'Props.C14.conv1d_is_conv2d_row', 'Props.C14.avgpool1d_is_avgpool2d_row', 'Props.C14.maxpool1d_is_maxpool2d_row',
                     'Props.C14.conv1d_is_unfold_matmul', 'Props.C14.avgpool1d_is_unfold_mean', 'Props.C14.maxpool1d_is_unfold_max']
REQUIRED_THEOREMS += ['Props.C14.' + t for t in ['src_bce_logits_scalars', 'src_bce_scalars', 'src_sigmoid_scalars', 'src_bce_logits_backward_at_zero']]   # ties to cpu_ops.py as read on this run
RULE = ('one program per identity and operand set, both sides built over the same leaves: cross-entropy | NLL of log_softmax; '
        'BCE-with-logits | BCE of sigmoid (moderate logits); log_softmax | log of softmax; linear | x @ W.T + b; addmm | a + b @ c; '
        'conv2d | unfold, matmul, reshape; max/avg pool | unfold, max/mean; a - b | a + (-b); a / b | a * b**-1; mean | sum / count; '
        'stack | concat of unsqueezed; unbind of stack | the inputs; flatten | reshape; movedim adjacent | transpose. Values and, after '
        'backward with the same non-uniform upstream gradient, the gradients of every leaf are compared between the two sides (on the '
        'implementation and on the model) and between model and implementation line by line. Identities through the 1e-12 guard use '
        'the tolerance 1e-6. Module level (seq, neuronmod): the real nn.Sequential / nn.Neuron / nn.Linear objects (members repeated, '
        'nested, Flatten / BatchNorm1d / Dropout members, ~8 % malformed feature counts) against the model\'s sequentialForward / '
        'Linear.forward / Neuron.forward run by the driver (`mf` lines): outputs, rejections, batch-norm state and draws consumed. '
        'NON-CONTIGUOUS OPERANDS: in two thirds of the operand sets (and once per identity and view kind) the operands are interior tensors '
        'whose buffer is axis-permuted / strided: transpose / movedim views, elementwise results of those, stepped and reversed slices, '
        'slices of transposed tensors (harness/views.py); leaves arrive in C / Fortran / strided / reversed / offset / transposed / zero-stride '
        'broadcast layouts; flatten = reshape over (view kind) x (whole tensor / prefix / suffix / any range). '
        'GEOMETRY GRID (enumerated, identical under every seed; operand values drawn): max / avg pool 1-d over kernel 1-3 x dilation 1-3 x {stride = kernel with lengths made of whole windows / '
        'with a remainder / of exactly one window, padding 0 and 1; stride 1; stride kernel + 1}; max / avg pool 2-d and conv2d over kernels (2,2) (3,3) (2,3) (1,2) x dilations '
        '(1,1) (2,2) (1,2) (2,1) (3,3) (3,1) x extents with / without remainder at stride = kernel, padding 0; wherever stride = kernel the call is ALSO made with '
        'the stride left to its default (stride=None, stride omitted; function and layer class). '
        'FALSY OPERAND VALUES: linear / conv2d / Neuron-vs-Linear(in, 1) with a bias of exactly 0.0 / -0.0 (one output feature / channel, and all-zero biases of 1-3 entries), '
        'all-zero weights, both: values and every gradient incl. the bias gradient. '
        'Non-trivial: every case (each has a differentiable leaf and > 1 element).')
EXHAUSTIVE = {'quick': False, 'thorough': False}
ASSUMPTIONS = ['float64; identities that pass through log(x + 1e-12) hold up to that guard (tolerance 1e-6 on moderate values)']
TRUSTED_BASE = ['harness/tprog.py', 'harness/views.py']


class B:
    """program builder.  `mask` decides which of the operand leaves require grad: None = all of them; otherwise a draw per leaf
    (`rg=None`), so that constants and tensors that require grad meet in every position of every identity (a leaf created with an
    explicit `rg` keeps it)"""
    def __init__(self, rng=None, mask=None, views=0.0, kinds=None):
        """`views`: probability that a floating-point operand of rank >= 1 is not the leaf itself but an INTERIOR tensor with the
        same values whose buffer is not C-contiguous: a transposed / moved-axis view of the leaf (optionally followed by elementwise
        ops, which keep the permuted layout), a stepped or reversed slice of a larger leaf, or both.  Both sides of the identity
        consume that tensor; gradients are compared at the leaf behind it."""
        self.views, self.kinds, self.base, self.viewed = views, kinds or VIEW_KINDS, {}, []
        self.lines, self.n = [], 0
        self.shape = []
        self.leaves = []          # leaves that require grad
        self.consts = []          # floating-point operand leaves that do not (their gradient must stay absent on both sides)
        self.rng, self.mask = rng, mask
        self.free = []            # leaves whose flag was drawn

    def leaf(self, sh, data, rg=None, dt='f64'):
        drawn = rg is None
        if drawn:
            if isinstance(self.mask, (list, tuple)):      # the flags of the successive operand leaves, given explicitly
                rg = bool(self.mask[len(self.free)]) if len(self.free) < len(self.mask) else True
            else:
                rg = True if self.mask is None else self.rng.chance(self.mask)
        sh = tuple(sh)
        plan = None
        if self.views and self.rng is not None and dt in ('f64', 'f32') and len(sh) >= 2 and max(sh) > 1 and self.rng.chance(.12):
            # values constant along one axis: such a leaf arrives as a zero-stride broadcast view (see _relayout) four times out of nine
            A = np.array(data, dtype=np.float64).reshape(sh)
            ax = self.rng.pick([k for k, n_ in enumerate(sh) if n_ > 1])
            data = [float(v) for v in np.broadcast_to(np.take(A, [0], axis=ax), sh).ravel()]
            self.viewed.append('constant along an axis (broadcast view when the leaf layout says so)')
        if self.views and self.rng is not None and dt in ('f64', 'f32') and len(sh) >= 1 and self.rng.chance(self.views):
            plan = views.view_plan(self.rng, sh, data, self.kinds)
        lsh, ldata = (plan[0], plan[1]) if plan else (sh, data)
        self.lines.append(gen_dag.leaf_line(lsh, ldata, rg, dt)); self.shape.append(tuple(lsh)); self.n += 1
        lid = self.n - 1
        if drawn: self.free.append(lid)
        if rg: self.leaves.append(lid)
        elif dt in ('f64', 'f32'): self.consts.append(lid)
        if not plan: return lid
        cur = lid
        for name, args in plan[2]:
            cur = self.op(name, [cur], *args)
        self.base[cur] = lid; self.viewed.append(plan[3])
        return cur

    def require(self, k):
        """leaf k requires grad after all (an identity whose two sides would otherwise differ in the flag of the root, or a
        program without any differentiable operand)"""
        k = self.base.get(k, k)
        if k in self.leaves: return
        t = self.lines[k].split(' ')
        assert t[1] == 'leaf'
        t[4] = '1'
        self.lines[k] = ' '.join(t)
        self.leaves = sorted(self.leaves + [k])
        if k in self.consts: self.consts.remove(k)

    def mask_str(self):
        return ''.join('g' if k in self.leaves else 'c' for k in sorted(self.leaves + self.consts))

    def op(self, name, ins, *args, nout=1):
        self.lines.append(' '.join(['t op', name, show_ints(ins)] + [str(a) for a in args]))
        self.n += nout
        return self.n - 1 if nout == 1 else list(range(self.n - nout, self.n))

    def sop(self, kind, a, b, hidden):
        self.lines.append(f't sop {kind} {a} {b}')
        self.n += hidden + 1
        return self.n - 1


class MB:
    """module-program builder: `mf` lines (lean/SynapModel/Drv/ModuleFwd.lean), one module object per creating line"""
    def __init__(self):
        self.lines, self.n, self.kids = [], 0, {}

    def new(self, line, kids=()):
        self.lines.append('mf ' + line); self.n += 1; self.kids[self.n - 1] = list(kids)
        return self.n - 1

    def step(self, line):
        self.lines.append('mf ' + line)
        return len(self.lines) - 1

    def linear(self, i, o, w, bias): return self.new(f"linear {i} {o} {int(bias is not None)} {show_floats(w)} {show_floats(bias or [])}")
    def neuron(self, i, w, bias): return self.new(f"neuron {i} {int(bias is not None)} {show_floats(w)} {show_floats(bias or [])}")
    def act(self, kind): return self.new(f'act {kind}')
    def flatten(self, s0, e0): return self.new(f'flatten {s0} {e0}')
    def bn(self, C, mo, eps, affine, track, g, bt):
        return self.new(f"bn {C} {common.show_opt(lambda v: str(fbits(v)), mo)} {fbits(eps)} {int(affine)} {int(track)} "
                        f"{common.show_opt(show_floats, g)} {common.show_opt(show_floats, bt)}")
    def dropout(self, p, draws): return self.new(f'dropout {fbits(p)} {show_floats(draws)}')
    def seq(self, ids, named=False):
        if named and ids:
            return self.new('seqd ' + ','.join(f'layer{j}:{k}' for j, k in enumerate(ids)), ids)
        return self.new('seq ' + show_ints(ids), ids)
    def fwd(self, m, sh, data): return self.step(f'fwd {m} {show_ints(sh)} {show_floats(data)}')

    def calls(self, m, leaf):
        """how often one forward of module m calls the leaf object"""
        return int(m == leaf) + sum(self.calls(k, leaf) for k in self.kids[m])


def gen_mf_seq(rng, mb, n, d, pool_ids):
    """a second Sequential over the pool of the composition program plus the members a composition program cannot spell: Flatten in
    front of a rank-3 batch, BatchNorm1d (training mode: running statistics and the batch counter are state every call advances),
    Dropout (consumes the next draws at every call), nested Sequentials — members repeated inside and across the nesting levels.
    ~8 % malformed: a feature count that does not fit (Linear asserts), a rank-1 batch, a single value per channel for BatchNorm."""
    V = lambda sh, kind='any': gen_ops.vals(rng, sh, kind)
    bad = rng.pick(['lin_in', 'x_feat', 'rank1', 'bn_single']) if rng.chance(.08) else None
    members = list(pool_ids)
    if rng.chance(.5) or not members or bad in ('x_feat', 'rank1'):
        members.append(mb.linear(d, d, V((d, d)), V((d,)) if rng.chance(.6) else None))
    first_lin = members[-1]
    stateful = []
    bn_args = lambda C: (C, rng.pick([None, .1, .5, 1.0]), rng.pick([1e-5, 1e-3]), *rng.pick([(True, True), (True, True), (False, True), (True, False)]))
    if rng.chance(.6) or bad == 'bn_single':
        C, mo, eps, aff, track = bn_args(d)
        k = mb.bn(C, mo, eps, aff, track, V((C,), 'pos') if aff and rng.chance(.7) else None, V((C,)) if aff and rng.chance(.7) else None)
        members.append(k); stateful.append(k)
    has_bn = bool(stateful)
    if bad == 'bn_single': n = 1
    elif has_bn: n = max(n, 2)
    drop = None
    if rng.chance(.5):
        drop = len(mb.lines)                      # the line is written once the number of draws is known
        mb.new('dropout ?')
        members.append(mb.n - 1); stateful.append(mb.n - 1)
        dropid = mb.n - 1
    if rng.chance(.5):                            # nested Sequential over members of the pool (shared with the outer one)
        inner = mb.seq([rng.pick(members) for _ in range(rng.randint(0, 3))], rng.chance(.3))
        members.append(inner)
        if rng.chance(.4):
            members.append(mb.seq([inner, rng.pick(members), inner][:rng.randint(2, 3)]))
    order = [rng.pick(members) for _ in range(rng.randint(1, 5))]
    if rng.chance(.6):                            # the same object at two positions
        order.insert(rng.randrange(len(order) + 1), rng.pick(order))
    for k in stateful:                            # a stateful member is (nearly always) reached by the forward pass
        if not any(mb.calls(m, k) for m in order) and rng.chance(.85): order.insert(rng.randrange(len(order) + 1), k)
    xs = (n, d)
    if bad in ('x_feat', 'rank1'):
        order.insert(0, first_lin)
        xs = (n, d + rng.pick([1, -1] if d > 1 else [1])) if bad == 'x_feat' else (d,)
    elif bad == 'lin_in':
        order.insert(rng.randrange(len(order) + 1), mb.linear(d + 1, d, V((d, d + 1)), V((d,)) if rng.chance(.5) else None))
    elif bad == 'bn_single':
        if stateful[0] not in order: order.insert(rng.randrange(len(order) + 1), stateful[0])
    elif rng.chance(.4):                          # rank-3 batch: (BatchNorm1d over (N, C, L),) Flatten, then the (N, d) members
        a = rng.pick([q for q in (1, 2, 3) if d % q == 0])
        xs = (n, a, d // a)
        fl = mb.flatten(*rng.pick([(1, -1), (1, 2), (-2, -1), (-2, 2)]))
        front = [fl]
        if rng.chance(.4) and n * (d // a) > 1:
            C, mo, eps, aff, track = bn_args(a)
            k = mb.bn(C, mo, eps, aff, track, V((C,), 'pos') if aff else None, V((C,)) if aff else None)
            front = [k, fl]; stateful.append(k)
        order = front + order
    outer = mb.seq(order, rng.chance(.3))
    nfwd = 1 if bad else rng.pick([1, 1, 2, 3])
    evalat = rng.randrange(1, nfwd) if nfwd > 1 and rng.chance(.6) else None
    if drop is not None:
        per = mb.calls(outer, dropid) * int(np.prod(xs))
        mb.lines[drop] = f"mf dropout {fbits(rng.pick([0.0, 0.25, 0.5, 0.5, 0.75, 1.0]))} {show_floats([rng.random() for _ in range(per * nfwd)])}"
    for j in range(nfwd):
        if j == evalat: mb.step(f'train {outer} 0')          # eval(): recursive over the nested members
        mb.fwd(outer, xs, V(xs))
        if not bad:
            for k in stateful: mb.step(f'state {k}')
    return bad


def finish(b, lhs, rhs, rng, tol=1e-9):
    """query both sides, backward from each with the same g, compare leaf gradients"""
    if not b.leaves and b.free:
        b.require(b.rng.pick(b.free) if b.rng else b.free[0])
    lines = list(b.lines)
    pairs = []
    lines += [f't val {lhs}', f't val {rhs}']
    pairs.append((len(lines) - 2, len(lines) - 1))
    io = tprog.run_program(lines)
    sh = tuple(common.parse_ints(io[-1].split('|')[0])) if '|' in io[-1] else ()
    g = gen_dag.rand_data(rng, sh, -2, 2)
    # each side is differentiated TWICE (leaves zeroed in between): whatever a fused kernel saved for its backward must survive
    # the first sweep, so the second sweep has to reproduce the same gradients on both sides
    for rep in range(2):
        sides = {}
        for side, root in (('l', lhs), ('r', rhs)):
            for lf in b.leaves: lines.append(f't zero {lf}')
            lines.append(f"t bw {root} {show_ints(sh)} {show_floats(g)}")
            idx = []
            for lf in b.leaves + b.consts:          # (a constant operand holds no gradient, on either side)
                lines.append(f't grad {lf}'); idx.append(len(lines) - 1)
            sides[side] = idx
        pairs += list(zip(sides['l'], sides['r']))
    # both sides inside ONE graph, summed in either order: every shared leaf (and every shared interior tensor) then receives
    # contributions from both sides in one sweep, in both orders of arrival; the two totals must leave the same gradients
    if lhs != rhs and io[-2] != 'rejected' and io[-1] != 'rejected':
        n = b.n
        tot = {}
        for side, (x0, x1) in (('l', (lhs, rhs)), ('r', (rhs, lhs))):
            lines.append(f't op add {x0},{x1}'); root = n; n += 1
            for lf in b.leaves: lines.append(f't zero {lf}')
            lines.append(f"t bw {root} {show_ints(sh)} {show_floats(g)}")
            idx = []
            for lf in b.leaves:
                lines.append(f't grad {lf}'); idx.append(len(lines) - 1)
            tot[side] = idx
        pairs += list(zip(tot['l'], tot['r']))
    return {'lines': lines, 'pairs': pairs, 'tol': tol, 'mask': b.mask_str(), 'views': list(b.viewed)}


_BIG_BUDGET = [1]


def gen_identity(rng, which, big=False, mask=None, views=0.0, kinds=None, force=None, nobig=False, geom=None, falsy=None):
    """`mask`: None = every operand requires grad; p = every operand leaf requires grad with probability p (at least one does);
    a list = the flags of the operand leaves in order (stack / unbind then take that many operands, conv2d a bias when there are three)"""
    nmask = len(mask) if isinstance(mask, (list, tuple)) else None
    b = B(rng, None if which in ('seq', 'neuronmod') else mask, 0.0 if which in ('seq', 'neuronmod') else views, kinds)
    V = lambda sh, kind='any': gen_ops.vals(rng, sh, kind)
    if which == 'ce':
        n, c = rng.randint(1, 4), rng.randint(2, 4)
        far = rng.chance(.6); dt = 'f32' if far and rng.chance(.7) else 'f64'
        xv = V((n, c))
        if far:       # rows at very different levels: every row has to be shifted by ITS OWN maximum
            offs = [rng.pick([-60.0, 60.0, -40.0, 0.0, 75.0]) for _ in range(n)]
            xv = [round(v * 4) / 4 + offs[k // c] for k, v in enumerate(xv)]
        x = b.leaf((n, c), xv, True, dt)
        labels = [rng.randrange(c) for _ in range(n)]
        y = b.leaf((n,), [float(v) for v in labels], False, 'i64')
        l = b.op('cross_entropy', [x, y], show_ints(labels))
        ls = b.op('log_softmax', [x], 1)
        r = b.op('nll_loss', [ls, y], show_ints(labels))
        return finish(b, l, r, rng, 1e-9 if dt == 'f64' else 2e-5)
    if which == 'bcel':
        s = gen_ops.rshape(rng, 1, 2)
        x = b.leaf(s, V(s)); y = b.leaf(s, [float(rng.randint(0, 1)) for _ in range(int(np.prod(s)))], False)
        l = b.op('binary_cross_entropy_with_logits', [x, y])
        sg = b.op('sigmoid', [x]); r = b.op('binary_cross_entropy', [sg, y])
        return finish(b, l, r, rng, 1e-6)
    if which == 'logsoftmax':
        s = gen_ops.rshape(rng, 1, 3) if not rng.chance(.1) else ()      # 0-d operand with dim 0 / -1: accepted by both sides (0 | log(1 + 1e-12))
        d = rng.randrange(-len(s), len(s)) if s else rng.pick([0, -1])
        far = rng.chance(.6) and len(s) >= 2; dt = 'f32' if far and rng.chance(.7) else 'f64'
        xv = V(s)
        if far:       # fibres at very different levels (the level is constant along the softmax dim)
            X = np.array(xv).reshape(s)
            lev = np.array([rng.pick([-60.0, 60.0, -40.0, 0.0, 75.0]) for _ in range(X.size)]).reshape(s)
            lev = np.take(lev, [0], axis=d % len(s))
            xv = (np.round(X * 4) / 4 + lev).ravel().tolist()
        x = b.leaf(s, xv, True, dt)
        l = b.op('log_softmax', [x], d)
        sm = b.op('softmax', [x], d); r = b.op('log', [sm])
        return finish(b, l, r, rng, 1e-6 if dt == 'f64' else 2e-4)
    Z = lambda sh: [rng.pick([0.0, 0.0, -0.0]) for _ in range(int(np.prod(sh)))]      # an operand whose VALUE is falsy
    fz = falsy or ''
    if which == 'linear':
        n, i, o = rng.randint(1, 3), rng.randint(1, 4), rng.randint(1, 3)
        if fz: o = 1 if 'one' in fz else o
        x, w, bb = b.leaf((n, i), V((n, i))), b.leaf((o, i), Z((o, i)) if 'weight' in fz else V((o, i))), b.leaf((o,), Z((o,)) if 'bias' in fz else V((o,)))
        l = b.op('linear', [x, w, bb], 1)
        wt = b.op('transpose', [w], 0, 1); mm = b.op('matmul', [x, wt]); r = b.op('add', [mm, bb])
        return finish(b, l, r, rng)
    if which == 'neuron':
        n, i = rng.randint(1, 3), rng.randint(1, 4)
        x, w = b.leaf((n, i), V((n, i))), b.leaf((1, i), V((1, i)))
        l = b.op('linear', [x, w], 0)
        wt = b.op('transpose', [w], 0, 1); r = b.op('matmul', [x, wt])
        return finish(b, l, r, rng)
    if which == 'addmm':
        n, k, m = rng.randint(1, 3), rng.randint(1, 3), rng.randint(1, 3)
        a = gen_ops.bcast_operand(rng, (n, m))
        A, Bm, C = b.leaf(a, V(a)), b.leaf((n, k), V((n, k))), b.leaf((k, m), V((k, m)))
        l = b.op('addmm', [A, Bm, C])
        mm = b.op('matmul', [Bm, C]); r = b.op('add', [A, mm])
        return finish(b, l, r, rng)
    if which == 'conv2d':
        n, c, co = rng.randint(1, 2), rng.randint(1, 2), rng.randint(1, 2)
        if fz: co = 1 if 'one' in fz else rng.randint(1, 3)
        (H, kh, sh_, ph, dh), (W, kw, sw, pw, dw) = geom or gen_ops.geom2(rng)
        lh = (H + 2 * ph - dh * (kh - 1) - 1) // sh_ + 1; lw = (W + 2 * pw - dw * (kw - 1) - 1) // sw + 1
        x, w = b.leaf((n, c, H, W), V((n, c, H, W))), b.leaf((co, c, kh, kw), Z((co, c, kh, kw)) if 'weight' in fz else V((co, c, kh, kw)))
        bias = b.leaf((co,), Z((co,)) if 'bias' in fz else V((co,))) if (fz or nmask == 3 or (nmask is None and rng.chance(.5))) else None          # with a bias: ... + b per output channel
        l = b.op('conv2d', [x, w] + ([bias] if bias is not None else []), int(bias is not None), show_ints((sh_, sw)), show_ints((ph, pw)), show_ints((dh, dw)))
        u = b.op('unfold', [x], show_ints((kh, kw)), show_ints((dh, dw)), show_ints((sh_, sw)), show_ints((ph, pw)), fbits(0.0))
        wm = b.op('reshape', [w], show_ints((co, c * kh * kw)))
        mm = b.op('matmul', [wm, u])                      # (co, ckk) @ (N, ckk, L) -> (N, co, L)
        r = b.op('reshape', [mm], show_ints((n, co, lh, lw)))
        if bias is not None:
            bb = b.op('reshape', [bias], show_ints((1, co, 1, 1))); r = b.op('add', [r, bb])
        return finish(b, l, r, rng)
    if which in ('maxpool', 'avgpool'):
        n, c = rng.randint(1, 2), rng.randint(1, 2)
        while True:
            (H, kh, sh_, ph, dh), (W, kw, sw, pw, dw) = geom or gen_ops.geom2(rng)
            if ph <= kh // 2 and pw <= kw // 2: break
        if geom: nobig = True
        elif rng.chance(.4): kw, sw, pw, dw = kh, sh_, min(ph, pw), dh if W + 2 * min(ph, pw) >= dh * (kh - 1) + 1 else dw      # square arguments: the documented bare-int spelling becomes possible
        if pw > kw // 2 or W + 2 * pw < dw * (kw - 1) + 1: kw, sw, pw, dw = 1, 1, 0, 1
        bigwin = big
        if not big and rng.chance(.1) and not nobig and _BIG_BUDGET[0] > 0:      # (slow in the model: a budget per run, none in the per-view-kind sweep)
            bigwin = True; _BIG_BUDGET[0] -= 1
        if bigwin:        # a window of more than 256 elements
            n, c = 1, 1
            H, W = rng.randint(17, 20), rng.randint(17, 20); kh, kw = rng.pick([(17, 17), (16, 17), (H, W)])
            sh_, sw, ph, pw, dh, dw = rng.randint(1, 3), rng.randint(1, 3), 0, 0, 1, 1
        lh = (H + 2 * ph - dh * (kh - 1) - 1) // sh_ + 1; lw = (W + 2 * pw - dw * (kw - 1) - 1) // sw + 1
        xv = V((n, c, H, W), 'distinct' if big or rng.chance(.6) else 'ties')      # ties: both sides must give the whole window gradient to the same (first) maximum
        if big: xv = sorted(xv)          # ascending in row-major order: the maximum of every window is its LAST element (position kh*kw - 1 >= 256)
        x = b.leaf((n, c, H, W), xv)
        name = 'max_pool2d' if which == 'maxpool' else 'avg_pool2d'
        l = b.op(name, [x], show_ints((kh, kw)), show_ints((sh_, sw)), show_ints((ph, pw)), show_ints((dh, dw)))
        pad = float('-inf') if which == 'maxpool' else 0.0
        u = b.op('unfold', [x], show_ints((kh, kw)), show_ints((dh, dw)), show_ints((sh_, sw)), show_ints((ph, pw)), fbits(pad))
        u4 = b.op('reshape', [u], show_ints((n, c, kh * kw, lh * lw)))
        red = b.op('max', [u4], 2, 0) if which == 'maxpool' else b.op('mean', [u4], 'i:2', 0)
        r = b.op('reshape', [red], show_ints((n, c, lh, lw)))
        return finish(b, l, r, rng)
    if which == 'sub':
        s = gen_ops.rshape(rng); s2 = gen_ops.bcast_operand(rng, s)
        a, c = b.leaf(s, V(s)), b.leaf(s2, V(s2))
        l = b.sop('sub', a, f't{c}', 2)
        ng = b.op('neg', [c]); r = b.op('add', [a, ng])
        return finish(b, l, r, rng)
    if which == 'div':
        s = gen_ops.rshape(rng); s2 = gen_ops.bcast_operand(rng, s)
        a, c = b.leaf(s, V(s)), b.leaf(s2, V(s2, 'pos'))
        l = b.sop('div', a, f't{c}', 1)
        p = b.op('pow', [c], fbits(-1.0)); r = b.op('mul', [a, p])
        return finish(b, l, r, rng)
    if which == 'mean':
        s = gen_ops.rshape(rng, 1, 4)
        ax = gen_ops.axes_arg(rng, len(s)); keep = int(rng.chance(.5))
        x = b.leaf(s, V(s))
        l = b.op('mean', [x], ax, keep)
        sm = b.op('sum', [x], ax, keep)
        axes = list(range(len(s))) if ax == 'all' else [int(ax[2:]) % len(s)] if ax[0] == 'i' else [a % len(s) for a in common.parse_ints(ax[2:])]
        cnt = int(np.prod([s[a] for a in axes]))
        r = b.sop('div', sm, f's{fbits(float(cnt))}', 1)
        return finish(b, l, r, rng)
    if which == 'stack':
        s = gen_ops.rshape(rng, 0, 3); k = nmask or rng.randint(1, 4)
        ax = rng.randrange(-(len(s) + 1), len(s) + 1)
        xs = [b.leaf(s, V(s)) for _ in range(k)]
        l = b.op('stack', xs, ax)
        us = [b.op('unsqueeze', [x], show_ints([ax])) for x in xs]
        r = b.op('concat', us, ax)
        return finish(b, l, r, rng)
    if which == 'unbind':
        s = gen_ops.rshape(rng, 0, 3); k = nmask or rng.randint(1, 4)
        ax = rng.randrange(-(len(s) + 1), len(s) + 1)
        xs = [b.leaf(s, V(s)) for _ in range(k)]
        st = b.op('stack', xs, ax)
        outs = b.op('unbind', [st], ax, nout=k)
        outs = outs if isinstance(outs, list) else [outs]
        j = rng.randrange(k)
        b.require(xs[j])      # (slice j of a stack with any differentiable operand requires grad; the clone of a constant would not)
        c0 = b.op('clone', [xs[j]])
        return finish(b, outs[j], c0, rng)
    if which in ('maxpool1d', 'avgpool1d'):
        # the 1-d kernels through the one-row lift x[:, :, None, :]: unfold with kernel (1, k), then max / mean over the kernel axis
        n, c = rng.randint(1, 2), rng.randint(1, 2)
        while True:
            Ln, k, s_, p, d = geom or gen_ops.geom1(rng)
            if p <= k // 2: break
        lo = (Ln + 2 * p - d * (k - 1) - 1) // s_ + 1
        x = b.leaf((n, c, Ln), V((n, c, Ln), rng.pick(['distinct', 'ties', 'ties'])))
        l = b.op('max_pool1d' if which == 'maxpool1d' else 'avg_pool1d', [x], k, s_, p, d)
        x4 = b.op('unsqueeze', [x], show_ints([2]))
        pad = float('-inf') if which == 'maxpool1d' else 0.0
        u = b.op('unfold', [x4], show_ints((1, k)), show_ints((1, d)), show_ints((1, s_)), show_ints((0, p)), fbits(pad))
        u4 = b.op('reshape', [u], show_ints((n, c, k, lo)))
        red = b.op('max', [u4], 2, 0) if which == 'maxpool1d' else b.op('mean', [u4], 'i:2', 0)
        return finish(b, l, red, rng)
    if which == 'unbind2':      # the round trip the other way: stack(unbind(x)) = x, on a tensor that is consumed by both sides
        s = gen_ops.rshape(rng, 1, 3)
        ax = rng.randrange(-len(s), len(s))
        x = b.leaf(s, V(s))
        outs = b.op('unbind', [x], ax, nout=s[ax % len(s)])
        outs = outs if isinstance(outs, list) else [outs]
        l = b.op('stack', outs, ax)
        r = b.op('clone', [x])
        return finish(b, l, r, rng)
    if which == 'flatten':
        s = gen_ops.rshape(rng, 1, 4)
        if force or rng.chance(.5): s = tuple(rng.randint(2, 3) for _ in range(rng.randint(2, 4)))      # several axes of extent > 1: a permuted buffer differs from the C-ordered one
        s0 = rng.randrange(len(s)); e0 = rng.randrange(s0, len(s))
        rk = force or rng.pick(['full', 'full', 'left', 'right', 'any', 'any'])      # the whole tensor, a prefix, a suffix, any range
        if rk == 'full': s0, e0 = 0, len(s) - 1
        elif rk == 'left': s0, e0 = 0, rng.randrange(0, len(s))
        elif rk == 'right': e0 = len(s) - 1
        x = b.leaf(s, V(s, 'distinct'))
        l = b.op('flatten', [x], s0 if rng.chance(.5) else s0 - len(s), e0 if rng.chance(.5) else e0 - len(s))
        tgt = s[:s0] + (int(np.prod(s[s0:e0 + 1])),) + s[e0 + 1:]
        r = b.op('reshape', [x], show_ints(tgt))
        return finish(b, l, r, rng)
    if which == 'movedim':
        s = gen_ops.rshape(rng, 2, 4)
        a = rng.randrange(len(s) - 1)
        src, dst = (a, a + 1) if rng.chance(.5) else (a + 1, a)
        x = b.leaf(s, V(s))
        l = b.op('movedim', [x], src if rng.chance(.5) else src - len(s), dst)
        r = b.op('transpose', [x], src, dst)
        return finish(b, l, r, rng)
    if which in ('seq', 'neuronmod'):
        # module level: the composition is the program (run on model and implementation); the fused side is the real
        # nn.Sequential / nn.Neuron built from the same parameter values, run on the implementation only (impl-side relation)
        n = rng.randint(1, 3)
        if which == 'neuronmod':
            i = rng.randint(1, 4); hb = rng.chance(.6) or bool(fz)
            x, w = b.leaf((n, i), V((n, i))), b.leaf((1, i), Z((1, i)) if 'weight' in fz else V((1, i)))
            bb = b.leaf((1,), (Z((1,)) if 'bias' in fz else V((1,)))) if hb else None
            r = b.op('linear', [x, w] + ([bb] if hb else []), int(hb))
            spec = {'kind': 'neuron', 'x': x, 'w': w, 'b': bb, 'in': i}
            # the same objects for the model: Neuron(in) and Linear(in, 1) with the same values, their attributes and outputs
            mb = MB()
            data = lambda k: common.parse_floats(b.lines[k].split(' ')[5])
            bv = data(bb) if hb else None
            ne = mb.neuron(i, data(w), bv); li = mb.linear(i, 1, data(w), bv)
            rel = {'same': [(mb.step(f'attrs {ne}'), mb.step(f'attrs {li}')), (mb.fwd(ne, (n, i), data(x)), mb.fwd(li, (n, i), data(x)))]}
            rel['val'] = rel['same'][1][0]
            for _ in range(rng.randint(0, 2)):            # further batches through the same two objects
                n2 = rng.randint(1, 4); xv = V((n2, i))
                rel['same'].append((mb.fwd(ne, (n2, i), xv), mb.fwd(li, (n2, i), xv)))
            rel['bad'] = None
            if rng.chance(.08):                           # malformed: feature count / rank of the batch
                rel['bad'] = rng.pick(['x_feat', 'rank1'])
                sh_ = (n, i + rng.pick([1, -1] if i > 1 else [1])) if rel['bad'] == 'x_feat' else (i,)
                xv = V(sh_)
                rel['same'].append((mb.fwd(ne, sh_, xv), mb.fwd(li, sh_, xv)))
        else:
            d = rng.randint(1, 3)
            x = b.leaf((n, d), V((n, d)))
            pool = []
            for _ in range(rng.randint(1, 3)):
                kind = rng.pick(['linear', 'linear', 'relu', 'tanh', 'sigmoid'])
                if kind == 'linear':
                    hb = rng.chance(.6)
                    pool.append({'kind': 'linear', 'w': b.leaf((d, d), V((d, d))), 'b': b.leaf((d,), V((d,))) if hb else None})
                else:
                    pool.append({'kind': kind})
            # positions with repetition: the same module OBJECT may sit at several positions (shared activation, tied weights)
            order = [rng.randrange(len(pool)) for _ in range(rng.randint(0, 5))]
            cur = x
            for k in order:
                m = pool[k]
                if m['kind'] == 'linear':
                    cur = b.op('linear', [cur, m['w']] + ([m['b']] if m['b'] is not None else []), int(m['b'] is not None))
                else:
                    cur = b.op(m['kind'], [cur])
            r = cur if order else b.op('clone', [x])
            spec = {'kind': 'seq', 'x': x, 'pool': pool, 'order': order, 'dict': rng.chance(.3), 'd': d}
            # the same Sequential for the model (`sequentialForward` over the same member objects) ...
            mb = MB()
            data = lambda k: common.parse_floats(b.lines[k].split(' ')[5])
            ids = [mb.linear(d, d, data(m['w']), data(m['b']) if m['b'] is not None else None) if m['kind'] == 'linear' else mb.act(m['kind'])
                   for m in pool]
            sq = mb.seq([ids[k] for k in order], spec['dict'])
            rel = {'same': [], 'val': mb.fwd(sq, (n, d), data(x))}
            # ... and a second one with stateful / shape-changing / nested members
            rel['bad'] = gen_mf_seq(rng, mb, n, d, ids)
        c = finish(b, r, r, rng)
        c['module'] = spec
        c['leaves'] = list(b.leaves)
        c['nt'] = len(c['lines'])                 # the tensor program; the module program follows
        c['mfrel'] = rel
        c['lines'] = c['lines'] + mb.lines
        return c
    raise KeyError(which)


def _module_side(c, io):
    """build the real module from the leaf values, run forward / backward with the same upstream gradient, and compare with the
    composition's results in `io`; returns a difference or None"""
    sg = common.impl()
    from synapgrad import nn
    from collections import OrderedDict
    spec = c['module']
    leafdata = {}
    k = 0
    for line in c['lines']:
        t = line.split(' ')
        if t[1] == 'leaf':
            leafdata[k] = np.array(common.parse_floats(t[5]), dtype=np.float64).reshape(tuple(common.parse_ints(t[3])))
            k += 1
        elif t[1] == 'op':
            k += 1
        else:
            break
    def par(i): return nn.Parameter(leafdata[i].copy(), requires_grad=True)
    owners = {}
    def mk_linear(i_, o_, w, bidx):
        m = nn.Linear(i_, o_, bias=bidx is not None)
        m.weight = par(w); owners[w] = m.weight
        if bidx is not None:
            m.bias = par(bidx); owners[bidx] = m.bias
        return m
    x = sg.Tensor(leafdata[spec['x']].copy(), requires_grad=True); owners[spec['x']] = x
    if spec['kind'] == 'neuron':
        m = nn.Neuron(spec['in'], bias=spec['b'] is not None)
        m.weight = par(spec['w']); owners[spec['w']] = m.weight
        if spec['b'] is not None:
            m.bias = par(spec['b']); owners[spec['b']] = m.bias
        model = m
    else:
        d = spec['d']
        mods = [mk_linear(d, d, p_['w'], p_['b']) if p_['kind'] == 'linear' else {'relu': nn.ReLU, 'tanh': nn.Tanh, 'sigmoid': nn.Sigmoid}[p_['kind']]()
                for p_ in spec['pool']]
        seq = [mods[k_] for k_ in spec['order']]
        model = nn.Sequential(OrderedDict((f'layer{j}', m_) for j, m_ in enumerate(seq))) if spec['dict'] else nn.Sequential(*seq)
    out = model(x)
    vline = [j for j, l in enumerate(c['lines']) if l.startswith('t val')][0]
    if not tprog.close_line(tprog.show_arr(out.data), io[vline], 1e-9):
        return ('module forward vs composition', tprog.show_arr(out.data)[:200], io[vline][:200])
    bw = [l for l in c['lines'] if l.startswith('t bw')][0].split(' ')
    g = np.array(common.parse_floats(bw[4]), dtype=np.float64).reshape(tuple(common.parse_ints(bw[3])))
    if out.requires_grad:
        out.backward(sg.Tensor(g))
    glines = [j for j, l in enumerate(c['lines']) if l.startswith('t grad')][:len(c['leaves'])]
    for j, lf in zip(glines, c['leaves']):
        t = owners.get(lf)
        if t is None: continue          # a pool module that sits at no position
        got = '-' if t._grad is None else tprog.show_arr(t._grad)
        want = io[j]
        if want == '-' and (t._grad is None or not np.any(t._grad)): continue
        if got == '-' and want != '-' and not np.any(tprog.parse_arr(want)): continue
        if not tprog.close_line(got, want, 1e-9):
            return (f'module gradient of leaf {lf} vs composition', got[:200], want[:200])
    return None


SUBSETS = {'stack': 3, 'unbind': 3, 'linear': 3, 'addmm': 3, 'conv2d': 3, 'sub': 2, 'div': 2}
IDS = ['ce', 'bcel', 'logsoftmax', 'linear', 'neuron', 'addmm', 'conv2d', 'maxpool', 'avgpool', 'maxpool1d', 'avgpool1d', 'sub', 'div', 'mean', 'stack', 'unbind', 'unbind2',
       'flatten', 'movedim', 'seq', 'seq', 'neuronmod']


FALSY_IDS = ['linear', 'conv2d', 'neuronmod']
FALSY_KINDS = ['zero bias, one output', 'zero bias', 'zero weight', 'zero weight and bias, one output']


def geometry_grid(tier):
    """the small geometry grid, ENUMERATED (not drawn): stride = kernel (the default configuration: non-overlapping windows) x
    padding 0 / 1 x dilation 1, 2, 3 x input lengths that consist of whole windows / leave a remainder / hold exactly one window,
    plus stride = 1 and stride = kernel + 1 as neighbours.  Entries: (identity, geometry, stride spelling 0..4)"""
    g1, g2 = [], []
    for k in (1, 2, 3):
        for d in (1, 2, 3):
            if k == 1 and d > 1 and tier == 'quick': continue
            span = d * (k - 1) + 1
            tile = k * (-(-(span + k) // k))          # a multiple of the kernel holding at least two windows
            for L, s_, p in [(tile, k, 0), (tile + 1, k, 0), (span, k, 0), (tile + k, k, 0), (tile, k, 1 if k > 1 else 0), (tile, 1, 0), (tile + 1, k + 1, 0)]:
                if p > k // 2 or L + 2 * p < span or (L, k, s_, p, d) in g1: continue
                g1.append((L, k, s_, p, d))
    for kh, kw in ((2, 2), (3, 3), (2, 3), (1, 2)):
        for dh, dw in ((1, 1), (2, 2), (1, 2), (2, 1), (3, 3), (3, 1)):
            for rem in (0, 1):
                H = kh * (-(-(dh * (kh - 1) + 1 + kh) // kh)) + rem; W = kw * (-(-(dw * (kw - 1) + 1 + kw) // kw)) + (rem if (kh + dh) % 2 else 1 - rem)
                g2.append(((H, kh, kh, 0, dh), (W, kw, kw, 0, dw)))
    out = []
    for j, g in enumerate(g1):
        for w in ('maxpool1d', 'avgpool1d'):
            out.append((w, g, 0))
            if g[1] == g[2]: out.append((w, g, 1 + (j + (w == 'avgpool1d')) % 4))
    for j, g in enumerate(g2):
        for w in ('maxpool', 'avgpool', 'conv2d'):
            if tier == 'quick' and (j + len(w)) % 2: continue          # (quick: every second point per identity, alternating)
            out.append((w, g, 0 if w == 'conv2d' else (j // 2) % 5))
    return out



def extract():
    """the scalar formulas behind the fused losses are re-read from cpu_ops.py (Generated/KernelFormulas.lean); the src_* theorems are re-checked by the build"""
    import formulas
    return formulas.write()[0]

def cases(rng, tier):
    out = []
    for w, g, sd in geometry_grid(tier):
        c = gen_identity(rng, w, geom=g, nobig=True)
        c['id'] = w; c['grid'] = True
        if sd: c['stride_default'] = sd
        gs = f'L={g[0]} kernel={g[1]} stride={g[2]} padding={g[3]} dilation={g[4]}' if w.endswith('1d') else f'H,W={g[0][0]},{g[1][0]} kernel={g[0][1]},{g[1][1]} stride={g[0][2]},{g[1][2]} padding=0 dilation={g[0][4]},{g[1][4]}'
        c['geom'] = gs + ('' if not sd else ', stride spelled ' + ['', 'None', 'by omission', 'None (layer)', 'by omission (layer)'][sd])
        c['desc'] = f'{w} (geometry grid: {c["geom"]}): ' + ' ; '.join(c['lines'])[:400]
        out.append(c)
    reps = 8 if tier == 'quick' else 300
    _BIG_BUDGET[0] = 1 if tier == 'quick' else 10 ** 6      # randomly drawn > 256-element pooling windows (next to the two forced ones)
    for w in IDS:
        for _ in range(reps * (3 if w in ('ce', 'logsoftmax', 'bcel', 'seq', 'neuronmod') else 1)):      # the numerically delicate identities and the module programs get more operand sets
            # which operands require grad: all of them (a third of the operand sets), or a draw per operand — constants and
            # differentiable tensors in every position of every identity with several operands
            mask = None if _ % 3 == 0 else rng.pick([.5, .5, .3, .7])
            # operands that are interior tensors with a non-contiguous / axis-permuted buffer (two thirds of the operand sets)
            views = 0.0 if _ % 3 == 1 else rng.pick([.5, .5, 1.0])
            c = gen_identity(rng, w, big=True) if (w in ('maxpool', 'avgpool') and _ == 0) else gen_identity(rng, w, mask=mask, views=views)
            c['id'] = w
            c['desc'] = w + ': ' + ' ; '.join(c['lines'])[:500]
            out.append(c)
    # EVERY non-empty subset of the operands requiring grad, for the identities with several operands (list-valued stack / unbind,
    # linear and conv2d with bias, addmm, a - b, a / b): one operand set per subset (quick), several (thorough)
    import itertools
    for w, n in SUBSETS.items():
        for flags in itertools.product((0, 1), repeat=n):
            if not any(flags): continue
            for _ in range(1 if tier == 'quick' else 12):
                c = gen_identity(rng, w, mask=list(flags))
                c['id'] = w; c['subset'] = True
                c['desc'] = w + ' (operands requiring grad: ' + c['mask'] + '): ' + ' ; '.join(c['lines'])[:500]
                out.append(c)
    # OPTIONAL / PARAMETER operands whose VALUE is falsy: a bias of exactly 0.0 / -0.0 (one output: Neuron, Linear(in, 1), one output channel; and
    # all-zero biases of 1-3 entries), all-zero weights, both — the operand is still an operand: values and EVERY gradient incl. the bias gradient
    for w in FALSY_IDS:
        for fz in FALSY_KINDS:
            for _ in range(2 if tier == 'quick' else 30):
                c = gen_identity(rng, w, mask=None if _ % 2 == 0 else [rng.randint(0, 1), rng.randint(0, 1), 1], falsy=fz)
                c['id'] = w; c['falsy'] = fz
                c['desc'] = w + f' (falsy operand values: {fz}): ' + ' ; '.join(c['lines'])[:500]
                out.append(c)
    # EVERY identity with all its operands behind each kind of non-contiguous view; flatten = reshape additionally over
    # (view kind) x (whole tensor / prefix / suffix) — a fast path for one range and one memory layout shows up here
    for w in IDS:
        if w in ('seq', 'neuronmod'): continue
        for kind in sorted(set(VIEW_KINDS)):
            for _ in range(1 if tier == 'quick' else 10):
                c = gen_identity(rng, w, views=1.0, kinds=[kind], nobig=True)
                c['id'] = w; c['desc'] = w + f' (operands behind {kind} views): ' + ' ; '.join(c['lines'])[:500]
                out.append(c)
    for kind in sorted(set(VIEW_KINDS)) + [None]:
        for rk in ('full', 'left', 'right'):
            for _ in range(1 if tier == 'quick' else 10):
                c = gen_identity(rng, 'flatten', views=1.0 if kind else 0.0, kinds=[kind] if kind else None, force=rk)
                c['id'] = 'flatten'; c['desc'] = f'flatten {rk} range, operand behind a {kind} view: ' + ' ; '.join(c['lines'])[:500]
                out.append(c)
    return out


def _split(c):
    nt = c.get('nt', len(c['lines']))
    return c['lines'][:nt], c['lines'][nt:]


def impl(c):
    tl, ml = _split(c)
    return _run_t(c, tl) + (tprog.run_mf(ml) if ml else [])


class _Manual:
    """what the documentation says a Sequential is: its members applied left to right, each to the previous output"""
    def __init__(self, ms): self.ms = ms
    def __call__(self, x):
        for m in self.ms: x = m(x)
        return x
    def train(self):
        for m in self.ms: m.train()
        return self
    def eval(self):
        for m in self.ms: m.eval()
        return self


class ManualImpl(tprog.ModImpl):
    """the right-hand sides on the real code: `seq` = manual left-to-right application of the member objects, `neuron` = Linear(in, 1)"""
    def run(self, line):
        t = line.split(' ')
        if t[1] == 'seq': return self._new(_Manual([self.ms[k] for k in common.parse_ints(t[2])]))
        if t[1] == 'seqd': return self._new(_Manual([self.ms[int(e.split(':')[1])] for e in t[2].split(',')]))
        if t[1] == 'neuron': return super().run(f'mf linear {t[2]} 1 {t[3]} {t[4]} {t[5]}')
        return super().run(line)


def _mf_relations(c, out, tout, name):
    """within ONE side (model or implementation): Neuron vs Linear(in, 1) answers, module output vs the composition program's value"""
    rel, nt = c['mfrel'], c['nt']
    for a, b_ in rel['same']:
        if not tprog.close_tokens(out[a], out[b_], 1e-12):
            return (f"{name}: {c['lines'][nt + a][:60]} vs {c['lines'][nt + b_][:60]}", out[a][:200], out[b_][:200])
    vline = [j for j, l in enumerate(c['lines'][:nt]) if l.startswith('t val')][0]
    if not tprog.close_arr(out[rel['val']], tout[vline], 1e-9):
        return (f"{name}: module forward {c['lines'][nt + rel['val']][:60]} vs composition program", out[rel['val']][:200], tout[vline][:200])
    return None


def _mf_oracle(c):
    """real code only: the Sequential / Neuron objects against manual application / Linear(in, 1) over the same lines"""
    tl, ml = _split(c)
    real = tprog.run_mf(ml)
    im = ManualImpl()
    man = [im.exec(l) for l in ml]
    for l, r, m in zip(ml, real, man):
        if not tprog.close_tokens(r, m, 1e-12):
            return (f"{l[:80]}: {'nn.Neuron vs nn.Linear(in, 1)' if c['id'] == 'neuronmod' else 'nn.Sequential vs its members applied left to right'}", r[:200], m[:200])
    return _mf_relations(c, real, tprog.run_program(tl), 'implementation')


def _pairs_ok(c, out):
    for a, b_ in c['pairs']:
        if not tprog.close_line(out[a], out[b_], c['tol']):
            return (c['lines'][a] + ' vs ' + c['lines'][b_], out[a][:200], out[b_][:200])
    return None


def compare(c, mo, io):
    nt = c.get('nt', len(c['lines']))
    diffs = tprog.diff_program(c['lines'][:nt], mo[:nt], io[:nt], max(c['tol'], 1e-9))
    # the module program: real nn objects vs the model's `Linear.forward` / `Neuron.forward` / `sequentialForward`, line by line
    diffs += [(c['lines'][k][:120], mo[k][:300], str(io[k])[:300]) for k in range(nt, len(c['lines']))
              if not tprog.close_tokens(mo[k], str(io[k]), 1e-9)][:3]
    if not diffs and 'mfrel' in c:
        for name, out in (('implementation', io), ('model', mo)):
            bad = _mf_relations(c, out[nt:], out[:nt], name)
            if bad: diffs.append(bad)
        if c['mfrel']['bad'] and not any(o == 'rejected' for o in io[nt:]):
            diffs.append(('malformed module program ' + c['mfrel']['bad'], 'rejected', 'accepted'))
    if not diffs:
        for name, out in (('implementation', io), ('model', mo)):
            bad = _pairs_ok(c, out)
            if bad:
                diffs.append((f'{name}: fused vs composition ' + bad[0][:100], bad[1], bad[2]))
        if 'module' in c:
            bad = common.outcome(lambda: _module_side(c, io)) if hasattr(common, 'outcome') else _module_side(c, io)
            if bad == 'rejected': bad = ('module side', 'runs', 'raised')
            if bad:
                diffs.append(bad)
    return diffs[:3]


def nontrivial(c):
    return True


def distribution(cases):
    d = {}
    for c in cases:
        d[c['id']] = d.get(c['id'], 0) + 1
        if c.get('grid'):
            k = f"{c['id']} on the enumerated geometry grid" + (' with the stride left to its default' if c.get('stride_default') else '')
            d[k] = d.get(k, 0) + 1
            if 'stride=' in c['geom']:
                import re as _re
                m = _re.search(r'kernel=(\S+) stride=(\S+) padding=(\S+) dilation=(\S+?),? ', c['geom'] + ' ')
                k = 'grid: stride = kernel, padding 0, dilation > 1' if m and m.group(1) == m.group(2) and m.group(3) == '0' and set(m.group(4).split(',')) != {'1'} else None
                if k: d[k] = d.get(k, 0) + 1
        for v in c.get('views', []): d[f'operand behind a non-contiguous view: {v}'] = d.get(f'operand behind a non-contiguous view: {v}', 0) + 1
        if c.get('views'): d[f"{c['id']} on non-contiguous operands"] = d.get(f"{c['id']} on non-contiguous operands", 0) + 1
        if c.get('falsy'):
            k = f"{c['id']} with falsy operand values: {c['falsy']}"
            d[k] = d.get(k, 0) + 1
        m = c.get('mask', '')
        if len(m) > 1:          # which operand leaves require grad (g) / are constants (c), in operand order
            k = 'operands requiring grad: ' + ('all' if 'c' not in m else 'mixed, a constant before a differentiable one' if m.find('c') < m.rfind('g') else 'mixed, constants last')
            d[k] = d.get(k, 0) + 1
            if c.get('subset'):
                d[f"{c['id']} mask {m}"] = d.get(f"{c['id']} mask {m}", 0) + 1
    return d


def oracle(c):
    io = _run_t(c, _split(c)[0])
    bad = _pairs_ok(c, io)
    if 'rejected' in [o for l, o in zip(c['lines'], io) if l.startswith(('t op', 't sop', 't bw'))]:
        return {'key': {'id': c['id'], 'cls': 'rejected'}, 'case': {k: v for k, v in c.items() if k != 'desc'}, 'what': f"identity {c['id']}: one side raised"}
    if not bad and 'mfrel' in c:
        bad = _mf_oracle(c)
    if not bad and 'module' in c:
        try:
            bad = _module_side(c, io)
        except Exception as e:
            return {'key': {'id': c['id'], 'cls': 'rejected'}, 'case': {k: v for k, v in c.items() if k != 'desc'}, 'what': f"identity {c['id']}: the module raised {type(e).__name__}: {e}"}
    if bad:
        return {'key': {'id': c['id'], 'cls': 'differs'}, 'case': {k: v for k, v in c.items() if k != 'desc'},
                'what': f"identity {c['id']}: fused form and documented composition differ at {bad[0][:160]}: {bad[1][:120]} vs {bad[2][:120]}"}
    return None


def search(rng, tier):
    for c in cases(rng, 'quick'):
        f = oracle(c)
        if f: yield f


def _fix(c):
    c['pairs'] = [tuple(p) for p in c['pairs']]
    return c
def matches_known(k, fail): return k.get('key') == fail.get('key')
def rerun_known(k): return oracle(_fix(k['witness'])) is not None
def replay(fail):
    f = oracle(_fix(fail['case']))
    return {'fails': f is not None, 'now': f}
