"""C20 — Trainer.fit / Evaluator (synapgrad/nn/utils/train.py) against Synap.Train"""
import numpy as np
import common
from common import show_ints, outcome, tmod

PROP = 'C20'
LEAN_TARGETS = ['Props.C20']
REQUIRED_THEOREMS = ['Props.C20.fit_trace', 'Props.C20.steps_count', 'Props.C20.step_discipline_block',
                     'Props.C20.validation_pure', 'Props.C20.test_trace', 'Props.C20.history_shape', 'Props.C20.accuracy_spec']
RULE = ('grid epochs 0..3 x train batches 0..3 x validation (none, 0, 1, 2 batches) x both callbacks x evaluator '
        '(off / 3 label modes) x initial training flag x initial grad mode x initial module tree consistent / with submodules switched on their own, run on the real Trainer with a model holding '
        'BatchNorm and Dropout, recording wrappers around model / optimizer / engine / Tensor.backward; quick samples the '
        'grid, thorough enumerates it. Non-trivial: at least one epoch and one batch. loaders partly iterated before fit or peeked at inside the callbacks; Trainer.test under both gradient modes, with the Trainer constructed under either mode. Plus accuracy cases in 3 modes.')
EXHAUSTIVE = {'quick': False, 'thorough': True}
ASSUMPTIONS = ['pkbar progress bar is stubbed (harness/stubs/pkbar.py)']
TRUSTED_BASE = ['harness/props/c20.py (recording wrappers, canonicalisation)']

MODES = [None, 'binary', 'multi-class', 'categorical']


def cases(rng, tier):
    grid = []
    for e in range(4):
        for nt in range(4):
            for nv in (None, 0, 1, 2):
                for ct in (0, 1):
                    for cv in (0, 1):
                        for ev in MODES:
                            for tr0 in (0, 1):
                                for g0 in (0, 1):
                                    grid.append({'kind': 'fit', 'e': e, 'nt': nt, 'nv': nv, 'ct': ct, 'cv': cv, 'ev': ev, 'tr0': tr0, 'g0': g0})
    # inconsistent initial module tree: some submodules were switched on their own before the model was handed to the
    # Trainer (root flag tr0, marked children the opposite); train()/eval() must still reach every descendant
    for c in list(grid):
        if c['e'] >= 1 and (c['ct'], c['cv']) == (0, 0):
            grid.append(dict(c, mix=1 + (c['nt'] + (c['nv'] or 0)) % 3))
    # loaders that were partly iterated before fit (a peek at the first batch), or are peeked at inside the callbacks
    for c in list(grid):
        if c['e'] >= 1 and c['nt'] >= 2 and c['g0'] == 1 and c['ev'] is None and 'mix' not in c:
            if (c['ct'], c['cv']) == (1, 1): grid.append(dict(c, peek=2))
            if (c['ct'], c['cv']) == (0, 0): grid.append(dict(c, peek=1))
    # parameters frozen when the optimizer is built and unfrozen by the training callback in the second epoch
    for c in list(grid):
        if c['e'] >= 2 and c['nt'] >= 2 and c['g0'] == 1 and c['ct'] == 1 and c['ev'] is None and 'mix' not in c and 'peek' not in c:
            grid.append(dict(c, frz=1))
    # the Trainer object constructed under another gradient mode than the one it is used in
    for c in list(grid):
        if c['e'] >= 1 and c['nv'] and (c['ct'], c['cv'], c['ev']) == (0, 0, None) and 'mix' not in c:
            grid.append(dict(c, gc=0))
    tests = []
    for nb in range(4):
        for tr0 in (0, 1):
            for g0 in (0, 1):
                for gc in (0, 1):
                    for mix in (0, 1, 2):
                        tests.append({'kind': 'test', 'e': 0, 'nt': nb, 'nv': None, 'ct': 0, 'cv': 0, 'ev': None, 'tr0': tr0, 'g0': g0, 'gc': gc, 'mix': mix})
    if tier == 'quick':
        tests = rng.sample(tests, 40)
    if tier == 'quick':
        must = [c for c in grid if c['e'] == 2 and c['nt'] == 2 and c['ct'] == 1 and c['cv'] == 1 and c['tr0'] == 0 and c['g0'] == 1]
        grid = must + rng.sample(grid, 220)
    out = grid + tests
    for _ in range(30 if tier == 'quick' else 300):
        n = rng.randint(1, 9)
        mode = rng.pick(MODES[1:])
        k = rng.randint(2, 4)
        out.append({'kind': 'acc', 'mode': mode, 'k': k,
                    'labels': [rng.randrange(2 if mode == 'binary' else k) for _ in range(n)],
                    'scores': [[rng.randint(-8, 8) / 4 for _ in range(k)] for _ in range(n)]})
    for c in out:
        c['lines'] = _lines(c)
        c['desc'] = ' ; '.join(c['lines'])
    return out


def _pred(c):
    if c['mode'] == 'binary':
        return [1 if s[0] > 0.5 else 0 for s in c['scores']]
    return [int(np.argmax(s)) for s in c['scores']]


def _lines(c):
    if c['kind'] == 'test':
        return [f"train test {c['nt']} {c['tr0']} {c['g0']}"]
    if c['kind'] == 'fit':
        nv = '-' if c['nv'] is None else c['nv']
        return [f"train fit {c['e']} {c['nt']} {nv} {c['ct']} {c['cv']} {0 if c['ev'] is None else 1} {c['tr0']} {c['g0']}"]
    # the model is asked for argmax of every score row (as exact integers) and for the accuracy of labels vs predictions
    rows = [f"train argmax {show_ints([int(round(v * 4)) for v in s])}" for s in c['scores']] if c['mode'] != 'binary' else []
    return rows + [f"train acc {show_ints(c['labels'])} {show_ints(_pred(c))}"]


# ------------------------------------------------------------------------------------------------
def _run_fit(c):
    sg = common.impl()
    from synapgrad import nn, optim
    from synapgrad.nn.utils.train import Trainer, Evaluator
    from synapgrad.nn.utils.data import DataLoader
    tm = tmod()
    trace = []
    B, F, K = 4, 3, 3

    class Model(nn.Sequential):
        def train(self):
            trace.append('T'); return super().train()
        def eval(self):
            trace.append('E'); return super().eval()
        def forward(self, x):
            flags = {m.training for m in [self] + self.submodules()}
            tr = '?' if len(flags) != 1 else str(int(flags.pop()))
            trace.append(f'f{tr}{int(tm.gradient__)}')
            return super().forward(x)

    model = Model(nn.Linear(F, 4), nn.BatchNorm1d(4), nn.Dropout(0.25), nn.Linear(4, 1 if c['ev'] == 'binary' else K))
    if c.get('frz'):                      # the first layer is frozen when the optimizer is built and unfrozen by a callback later
        for p_ in model.submodules()[0].parameters(): p_.requires_grad = False
    inner = optim.SGD(model.parameters(), lr=0.05, momentum=0.5)
    cleared = [True]

    class Opt:
        def zero_grad(self):
            trace.append('z'); inner.zero_grad()
            for p_ in model.parameters():     # "each update is preceded by clearing the gradients": of every trainable parameter
                if p_.requires_grad and p_._grad is not None and np.any(p_._grad):
                    cleared[0] = False
        def step(self):
            trace.append('s'); inner.step()

    class NG:
        def __init__(self): self.c = sg.no_grad()
        def __enter__(self):
            trace.append('n+'); return self.c.__enter__()
        def __exit__(self, *a):
            trace.append('n-'); return self.c.__exit__(*a)

    class Engine:
        no_grad = NG

    losses = []
    if c['ev'] == 'binary':
        base = nn.BCEWithLogitsLoss()
    elif c['ev'] == 'categorical':
        base = nn.MSELoss()
    else:
        base = nn.CrossEntropyLoss()

    def criterion(out, lab):
        l = base(out, lab)
        losses.append((trace.count('n+') > trace.count('n-'), float(l.data)))
        return l

    class TF:
        def __call__(self, dl, X, y):
            if c['ev'] == 'binary':
                return sg.Tensor(X), sg.Tensor(y.astype(np.float32))
            if c['ev'] == 'categorical':
                return sg.Tensor(X), sg.Tensor(np.eye(K, dtype=np.float32)[y])
            return sg.Tensor(X), sg.Tensor(y, dtype=np.int8)

    rs = np.random.RandomState(c['e'] * 100 + c['nt'] * 10 + (c['nv'] or 0))
    def loader(nb):
        n = nb * B + (1 if nb else 0)   # one leftover sample that must never be seen
        X = rs.rand(n, F).astype(np.float32)
        y = rs.randint(0, 2 if c['ev'] == 'binary' else K, n)
        return DataLoader(X, y, B, TF())
    tl = loader(c['nt'])
    vl = None if c['nv'] is None else loader(c['nv'])

    snaps = []
    def snap():
        bn = model.submodules()[1]
        return [p.data.copy() for p in model.parameters()] + [bn.running_mean.data.copy(), bn.running_var.data.copy(), np.array(bn.num_batches_tracked)]
    ncb = [0]
    def cbT(m, l):
        trace.append('ct')
        ncb[0] += 1
        if c.get('frz') and ncb[0] == 2: model.unfreeze()
        if c.get('peek') == 2: next(iter(l), None)          # the callback looks at a batch of the loader it is handed
    def cbV_peek(l):
        if c.get('peek') == 2: next(iter(l), None)
    def cbV(m, l):
        trace.append('cv'); cbV_peek(l)
    orig_bw = sg.Tensor.backward
    def bw(self, grad=None):
        trace.append('b'); return orig_bw(self, grad)
    ev = None if c['ev'] is None else Evaluator(mode=c['ev'])
    g_before = tm.gradient__
    tm.gradient__ = bool(c.get('gc', 1))          # the gradient mode in force while the Trainer object is constructed
    try:
        tr = Trainer(model, Engine)
        tr.compile(criterion, Opt(), ev)
    finally:
        tm.gradient__ = g_before
    # validation purity: snapshot before/after every __validate
    vname = '_Trainer__validate'
    orig_val = getattr(tr, vname)
    pure = [True]
    def val(loader_):
        before = snap()
        try:
            return orig_val(loader_)
        finally:
            after = snap()
            if any(not np.array_equal(a, b) for a, b in zip(before, after)):
                pure[0] = False
    setattr(tr, vname, val)
    model.training = bool(c['tr0'])
    for m in model.submodules(): m.training = bool(c['tr0'])
    mix = c.get('mix', 0)
    if mix:
        for j in ([1, 2], [0, 3], [2])[mix - 1]:
            model.submodules()[j].training = not bool(c['tr0'])
    if c.get('peek') == 1:                                   # the caller looked at the first batches before handing the loaders over
        next(iter(tl), None)
        if vl is not None:
            it_ = iter(vl); next(it_, None); next(it_, None)
    g_before = tm.gradient__
    tm.gradient__ = bool(c['g0'])
    sg.Tensor.backward = bw
    try:
        if c['kind'] == 'test':
            before = snap()
            tr.test(tl)
            g_after = tm.gradient__
            pure[0] = all(np.array_equal(a, b) for a, b in zip(before, snap()))
            hist = {}
        else:
            hist = tr.fit(tl, c['e'], validation_loader=vl, on_train_epoch=cbT if c['ct'] else None,
                          on_validation_epoch=cbV if c['cv'] else None)
            g_after = tm.gradient__
    finally:
        sg.Tensor.backward = orig_bw
        tm.gradient__ = g_before
    keys = ','.join(f'{k}:{len(v)}' for k, v in hist.items()) or '_'
    # epoch loss = mean of the per-batch losses
    tl_losses = [v for isval, v in losses if not isval]
    vl_losses = [v for isval, v in losses if isval]
    ok_mean = True
    for name, ls, nb in (('loss', tl_losses, c['nt']), ('val_loss', vl_losses, c['nv'] or 0)):
        if name in hist:
            for e_i, v in enumerate(hist[name]):
                chunk = ls[e_i * nb:(e_i + 1) * nb]
                if not chunk or abs(float(v) - sum(chunk) / len(chunk)) > 1e-5 * (1 + abs(float(v))):
                    ok_mean = False
    flags = {m.training for m in [model] + model.submodules()}
    training = '?' if len(flags) != 1 else str(int(flags.pop()))
    if c['kind'] == 'test':
        return (f"trace={','.join(trace) or '_'} steps={trace.count('s')} training={training} grad={int(g_after)}", {'valpure': pure[0], 'lossmean': True})
    return (f"trace={','.join(trace) or '_'} steps={trace.count('s')} training={training} grad={int(g_after)} keys={keys}",
            {'valpure': pure[0], 'lossmean': ok_mean, 'cleared': cleared[0]})


def _run_acc(c):
    sg = common.impl()
    from synapgrad.nn.utils.train import Evaluator
    ev = Evaluator(mode=c['mode'])
    n, k = len(c['labels']), c['k']
    if c['mode'] == 'binary':
        out = sg.Tensor(np.array([[s[0]] for s in c['scores']], dtype=np.float32))
        lab = sg.Tensor(np.array(c['labels'], dtype=np.float32))
    elif c['mode'] == 'multi-class':
        out = sg.Tensor(np.array(c['scores'], dtype=np.float32))
        lab = sg.Tensor(np.array(c['labels']), dtype=np.int8)
    else:
        out = sg.Tensor(np.array(c['scores'], dtype=np.float32))
        lab = sg.Tensor(np.eye(k, dtype=np.float32)[c['labels']])
    if n == 1:   # squeeze() would drop the batch axis: outside the documented use
        out = sg.Tensor(np.concatenate([out.data, out.data])); lab = sg.Tensor(np.concatenate([lab.data, lab.data]), dtype=lab.dtype)
    m = ev.step(lab, out)
    acc = float(dict(m)['accuracy'])
    preds = [int(v) for v in ev.y_pred][:n]
    return acc, preds


def impl(c):
    if c['kind'] in ('fit', 'test'):
        r = outcome(lambda: _run_fit(c))
        if r == 'rejected':
            c['_flags'] = {}
            return ['rejected']
        c['_flags'] = r[1]
        return [r[0]]
    r = outcome(lambda: _run_acc(c))
    if r == 'rejected':
        return ['rejected'] * len(c['lines'])
    acc, preds = r
    correct = sum(1 for a, b in zip(c['labels'], preds) if a == b)
    rows = [str(p) for p in preds] if c['mode'] != 'binary' else []
    # the implementation reports a float; it is mapped back to the exact count it must equal
    num = round(acc * len(c['labels']))
    if abs(acc - num / len(c['labels'])) > 1e-9:
        return rows + [f'{acc}']
    return rows + [f"{num}/{len(c['labels'])}"] if correct == num else rows + [f'{num}/{len(c["labels"])}!={correct}']


def compare(c, mo, io):
    diffs = [(k, m, i) for k, (m, i) in enumerate(zip(mo, io)) if m != i]
    if c['kind'] in ('fit', 'test'):
        fl = c.get('_flags', {})
        if fl.get('valpure') is False:
            diffs.append(('valpure', 'validation changes no parameter / statistic', 'changed'))
        if fl.get('lossmean') is False:
            diffs.append(('lossmean', 'epoch loss = mean of batch losses', 'differs'))
        if fl.get('cleared') is False:
            diffs.append(('cleared', 'zero_grad clears the gradient of every trainable parameter', 'a gradient survived'))
    return diffs


def nontrivial(c):
    return (c['kind'] == 'fit' and c['e'] > 0 and c['nt'] > 0 and c['g0'] == 1) or (c['kind'] == 'acc' and len(c['labels']) > 1) or (c['kind'] == 'test' and c['nt'] > 0)


def distribution(cases):
    d = {}
    for c in cases:
        k = c['kind'] + ('/val' if c.get('nv') is not None else '') + ('/ev' if c.get('ev') else '')
        d[k] = d.get(k, 0) + 1
    return d


# ---- property predicate on the implementation alone -------------------------------------------
def oracle(c):
    if c['kind'] == 'acc':
        r = outcome(lambda: _run_acc(c))
        if r == 'rejected':
            return {'key': {'kind': 'acc', 'class': 'rejected', 'mode': c['mode']}, 'case': c, 'what': 'Evaluator.step raised'}
        acc, preds = r
        want = sum(1 for a, b in zip(c['labels'], _pred(c)) if a == b) / len(c['labels'])
        if abs(acc - want) > 1e-9:
            return {'key': {'kind': 'acc', 'class': 'value', 'mode': c['mode']}, 'case': c, 'what': f'accuracy {acc}, fraction of correct predictions {want}'}
        return None
    if c['kind'] == 'test':
        r = outcome(lambda: _run_fit(c))
        if r == 'rejected':
            return {'key': {'kind': 'test', 'class': 'rejected'}, 'case': c, 'what': 'Trainer.test raised'}
        line, fl = r
        f = dict(kv.split('=', 1) for kv in line.split(' '))
        tr = [] if f['trace'] == '_' else f['trace'].split(',')
        bad = [e for e in tr if e in ('s', 'b', 'z') or (e.startswith('f') and e != 'f00')]
        if bad:
            return {'key': {'kind': 'test', 'class': 'mode'}, 'case': c, 'what': f'test ran {bad[:3]} (needs eval-mode forwards with gradients off, no update)'}
        if int(f['grad']) != c['g0']:
            return {'key': {'kind': 'test', 'class': 'gradmode'}, 'case': c, 'what': f"test left the global gradient mode at {f['grad']}, it found {c['g0']} (Trainer constructed under mode {c.get('gc', 1)})"}
        if not fl['valpure']:
            return {'key': {'kind': 'test', 'class': 'valpure'}, 'case': c, 'what': 'test changed a parameter or running statistic'}
        return None
    r = outcome(lambda: _run_fit(c))
    legal = c['g0'] == 1 and c['nt'] > 0 and (c['nv'] is None or c['nv'] > 0)
    if r == 'rejected':
        if legal or c['e'] == 0:
            return {'key': {'kind': 'fit', 'class': 'rejected'}, 'case': c, 'what': 'fit raised on a legal configuration'}
        return None
    line, fl = r
    f = dict(kv.split('=', 1) for kv in line.split(' '))
    tr = [] if f['trace'] == '_' else f['trace'].split(',')
    def fail(cls, what):
        return {'key': {'kind': 'fit', 'class': cls}, 'case': c, 'what': what}
    if tr.count('s') != c['e'] * c['nt']:
        return fail('steps', f"{tr.count('s')} optimizer steps for {c['e']} epochs x {c['nt']} batches")
    for i, e in enumerate(tr):
        if e == 's':
            if i < 3 or tr[i - 1] != 'b' or tr[i - 2] != 'z' or tr[i - 3] != 'f11':
                return fail('discipline', f'step at {i} preceded by {tr[max(0, i - 3):i]} (needs training-mode forward, zero_grad, backward)')
    depth = 0
    for i, e in enumerate(tr):
        if e == 'n+': depth += 1
        elif e == 'n-': depth -= 1
        elif depth > 0 and e in ('s', 'b', 'z'):
            return fail('validation', f'{e} inside validation at {i}')
        elif depth > 0 and e.startswith('f') and e != 'f00':
            return fail('validation', f'validation forward ran as {e} (needs eval mode, gradients off)')
        elif depth == 0 and e.startswith('f') and e != 'f11' and c['g0'] == 1:
            return fail('training', f'training forward ran as {e}')
    if int(f['grad']) != c['g0']:
        return fail('gradmode', 'global gradient mode not restored')
    if not fl['valpure']:
        return fail('valpure', 'validation changed a parameter or running statistic')
    if not fl['lossmean']:
        return fail('lossmean', 'reported epoch loss is not the mean of the batch losses')
    if fl.get('cleared') is False:
        return fail('cleared', 'an update was not preceded by clearing the gradients: after optimizer.zero_grad() a trainable parameter still held a non-zero gradient')
    keys = {} if f['keys'] == '_' else dict((k, int(v)) for k, v in (kv.split(':') for kv in f['keys'].split(',')))
    want = {}
    if c['e'] > 0:
        want['loss'] = c['e']
        if c['ev']: want['accuracy'] = c['e']
        if c['nv'] is not None:
            want['val_loss'] = c['e']
            if c['ev']: want['val_accuracy'] = c['e']
    if keys != want:
        return fail('history', f'history {keys}, expected {want}')
    return None


def search(rng, tier):
    for c in cases(rng, 'quick'):
        f = oracle(c)
        if f:
            yield f


def matches_known(k, fail):
    return k.get('key') == fail.get('key')


def rerun_known(k):
    return oracle(k['witness']) is not None


def replay(fail):
    f = oracle(fail['case'])
    return {'fails': f is not None, 'now': f}
