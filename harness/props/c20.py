"""C20 — Trainer.fit / Evaluator (synapgrad/nn/utils/train.py) against Synap.Train"""
import os, math
from fractions import Fraction
import numpy as np
import common
from common import show_ints, outcome, tmod

PROP = 'C20'
LEAN_TARGETS = ['Props.C20']
REQUIRED_THEOREMS = ['Props.C20.fit_trace', 'Props.C20.steps_count', 'Props.C20.step_discipline_block',
                     'Props.C20.validation_pure', 'Props.C20.test_trace', 'Props.C20.history_shape', 'Props.C20.accuracy_spec',
                     'Props.C20.evaluator_accumulates', 'Props.C20.evaluator_rejects', 'Props.C20.evaluator_rejects_single_column', 'Props.C20.evaluator_accepts_one_sample',
                     'Props.C20.stepOk_iff', 'Props.C20.stepOk_singleton', 'Props.C20.wellShaped_iff', 'Props.C20.grouping_admissible', 'Props.C20.accuracy_regroup_singletons', 'Props.C20.accuracy_batching_invariant',
                     'Props.C20.accuracy_batching_invariant_fit', 'Props.C20.epoch_loss_is_mean', 'Props.C20.accuracy_is_fraction_correct',
                     'Props.C20.history_one_entry_per_epoch', 'Props.C20.decode_binary', 'Props.C20.decode_argmax', 'Props.C20.decode_label',
                     'Props.C20.wrap16_id', 'Props.C20.correct_of_int16_range', 'Props.C20.test_returns_all_samples',
                     'Props.C20.refit_history_one_entry_per_epoch', 'Props.C20.session_fit_fresh', 'Props.C20.session_test_transparent']
RULE = ('grid epochs 0..3 x train batches 0..3 x validation (none, 0, 1, 2 batches) x both callbacks x evaluator '
        '(off / 3 label modes) x initial training flag x initial grad mode x initial module tree consistent / with submodules switched on their own, run on the real Trainer with a model holding '
        'BatchNorm and Dropout, recording wrappers around model / optimizer / engine / Tensor.backward; quick samples the '
        'grid, thorough enumerates it. Non-trivial: at least one epoch and one batch. loaders partly iterated before fit or peeked at inside the callbacks; Trainer.test under both gradient modes, with the Trainer constructed under either mode. Plus accuracy cases in 3 modes. '
        'RE-ASSIGNMENTS (surg): fit / test cases whose model holds its layers in named attributes and on which 1-4 identity-preserving registry operations are done before the optimizer is built / before fit / inside the training callback '
        '(the same child assigned to the name that holds it via setattr and __setattr__, register_module / add_module again, a second name for the same child, two attributes swapped and swapped back, a child replaced and restored, '
        'the same Parameter re-assigned / register_parameter again / under a second name, a converter walking all children); modes, parameters and statistics are read from the layer objects themselves, the expected trace is the one of the untouched model, '
        'and parameters() / submodules() must afterwards list exactly the objects held. '
        'VALUES: (ev) the real Evaluator driven through random step/compute/reset/state sequences (3 modes, accuracy on/off, epoch and step callbacks, prefix None/val, '
        'batches of 0, 1 and 2..6 samples of different sizes, scores on scales 4 / 1024 / 2^24 crowded around the 0.5 threshold and full of ties, (B,) and (B,1) layouts) against evStep/evCompute/evReset; '
        '(hist) the real Trainer.fit on an identity model with a criterion returning planned dyadic losses, loaders whose batches differ in size, with/without validation/evaluator/callbacks, '
        'colliding callback metric names, non-float callback values, an evaluator handed over with leftovers, against fitHist: keys, entry counts, accuracy counts exactly, loss means within float rounding; '
        'one epoch of 40 batches x 1000 samples (counters beyond int16); '
        '(sess) OBJECTS USED AGAIN: sessions of 4-12 calls on one or two Trainer objects and up to two Evaluator objects (shared between trainers, or none) over one model — fit again with the same / another number of epochs, with / without '
        'the validation loader, fit -> test -> fit, compile again (same / other / no evaluator) in between, evaluator.step / compute / reset / state by the user between the calls (leftovers), the same loader objects handed to every call or new ones, '
        'a fit that raises (no batches, non-float metric) followed by reset and another fit — against Call.run / session (driver: train ev sel, train sfit): every returned history is compared with the model, the dictionaries returned EARLIER must keep their '
        'contents, every fit makes epochs x batches optimizer steps; (fit/again) the event-trace cases with a first call (fit with / without validation, test) made on the same Trainer before the recorded one; (histreal) real training (Linear + BCE/CE/MSE + SGD) with the per-batch losses, labels and outputs recorded by a wrapper and sent '
        'to the model as exact rationals / integers; (testret) what Trainer.test returns. Batches of ONE sample are part of every generator (finding F-C20-1, Evaluator.step raised on them, was repaired by fix a611d24), incl. Trainer.fit over the real DataLoader with batch_size=1 and an evaluator; ev sequences may end in a step the code still rejects (one score column in an arg-max mode, several output / label columns where one is needed).')
EXHAUSTIVE = {'quick': False, 'thorough': True}
ASSUMPTIONS = ['pkbar progress bar is stubbed (harness/stubs/pkbar.py)']
TRUSTED_BASE = ['harness/props/c20.py (recording wrappers, canonicalisation, exact float -> integer scaling of recorded outputs and losses)']

MODES = [None, 'binary', 'multi-class', 'categorical']


def cases(rng, tier):
    grid = []
    for e in range(4):
        for nt in range(4):
            for nv in (None, 0, 1, 2):
                for ct in (0, 1):
                    for cv in (0, 1):
                        for ev in MODES:
                            for tr0 in (0, 1):
                                for g0 in (0, 1):
                                    grid.append({'kind': 'fit', 'e': e, 'nt': nt, 'nv': nv, 'ct': ct, 'cv': cv, 'ev': ev, 'tr0': tr0, 'g0': g0})
    # inconsistent initial module tree: some submodules were switched on their own before the model was handed to the
    # Trainer (root flag tr0, marked children the opposite); train()/eval() must still reach every descendant
    for c in list(grid):
        if c['e'] >= 1 and (c['ct'], c['cv']) == (0, 0):
            grid.append(dict(c, mix=1 + (c['nt'] + (c['nv'] or 0)) % 3))
    # loaders that were partly iterated before fit (a peek at the first batch), or are peeked at inside the callbacks
    for c in list(grid):
        if c['e'] >= 1 and c['nt'] >= 2 and c['g0'] == 1 and c['ev'] is None and 'mix' not in c:
            if (c['ct'], c['cv']) == (1, 1): grid.append(dict(c, peek=2))
            if (c['ct'], c['cv']) == (0, 0): grid.append(dict(c, peek=1))
    # parameters frozen when the optimizer is built and unfrozen by the training callback in the second epoch
    for c in list(grid):
        if c['e'] >= 2 and c['nt'] >= 2 and c['g0'] == 1 and c['ct'] == 1 and c['ev'] is None and 'mix' not in c and 'peek' not in c:
            grid.append(dict(c, frz=1))
    # the Trainer object constructed under another gradient mode than the one it is used in
    for c in list(grid):
        if c['e'] >= 1 and c['nv'] and (c['ct'], c['cv'], c['ev']) == (0, 0, None) and 'mix' not in c:
            grid.append(dict(c, gc=0))
    # the Trainer object has been used before: one earlier call (fit without / with validation, test) on the SAME object
    for c in list(grid):
        if c['e'] >= 1 and c['nt'] >= 1 and c['g0'] == 1 and (c['ct'], c['cv']) == (0, 0) and not any(k_ in c for k_ in ('mix', 'peek', 'frz', 'gc')):
            grid.append(dict(c, again=('fit', 'fitval', 'test')[(c['e'] + c['nt'] + (c['nv'] or 0) + c['tr0']) % 3]))
    # RE-ASSIGNMENTS / RE-REGISTRATIONS that leave the module tree what it was (the same child / parameter object assigned to the name that
    # holds it, registered again, bound to a second name, two attributes swapped and swapped back, a child replaced and restored, a
    # converter walking all children), done before the optimizer is built / before fit / inside the training callback
    surg_pool = [c for c in grid if c['e'] >= 1 and c['nt'] >= 1 and c['g0'] == 1 and not any(k_ in c for k_ in ('mix', 'peek', 'frz', 'gc', 'again'))]
    surg = [dict(c, surg=_gen_surgery(rng, c)) for c in rng.sample(surg_pool, 40 if tier == 'quick' else 600)]
    tests = []
    for nb in range(4):
        for tr0 in (0, 1):
            for g0 in (0, 1):
                for gc in (0, 1):
                    for mix in (0, 1, 2):
                        tests.append({'kind': 'test', 'e': 0, 'nt': nb, 'nv': None, 'ct': 0, 'cv': 0, 'ev': None, 'tr0': tr0, 'g0': g0, 'gc': gc, 'mix': mix})
    if tier == 'quick':
        tests = rng.sample(tests, 40)
    tests += [dict(c, surg=_gen_surgery(rng, c)) for c in rng.sample([t for t in tests if t['nt'] >= 1], 8 if tier == 'quick' else 40)]
    if tier == 'quick':
        must = [c for c in grid if c['e'] == 2 and c['nt'] == 2 and c['ct'] == 1 and c['cv'] == 1 and c['tr0'] == 0 and c['g0'] == 1]
        grid = must + rng.sample(grid, 220) + rng.sample([c for c in grid if c.get('again')], 24)
    out = grid + surg + tests
    for _ in range(30 if tier == 'quick' else 300):
        n = rng.randint(1, 9)
        mode = rng.pick(MODES[1:])
        k = rng.randint(2, 4)
        out.append({'kind': 'acc', 'mode': mode, 'k': k,
                    'labels': [rng.randrange(2 if mode == 'binary' else k) for _ in range(n)],
                    'scores': [[rng.randint(-8, 8) / 4 for _ in range(k)] for _ in range(n)]})
    out += _value_cases(rng, tier)
    for c in out:
        c['lines'] = _lines(c)
        c['desc'] = ' ; '.join(c['lines'])[:600]
    return out


SURGERY_OPS = ('same-child', 'same-child/__setattr__', 'register_module-again', 'add_module-again', 'second-name', 'swap-and-back', 'replace-and-restore',
               'same-parameter', 'register_parameter-again', 'parameter-second-name', 'converter-walk')
SURGERY_AT = ('before-optimizer', 'before-fit', 'in-training-callback')


def _gen_surgery(rng, c):
    ops = [[rng.pick(SURGERY_OPS), rng.randrange(4), rng.randrange(4)] for _ in range(rng.randint(1, 4))]
    at = rng.pick(SURGERY_AT if c.get('ct') and c['kind'] == 'fit' else SURGERY_AT[:2])
    return {'at': at, 'ops': ops}


def _surgery(nn, model, names, ops):
    """every operation leaves each name bound to the object it was bound to (and adds at most further names for the same objects)"""
    for op, i, j in ops:
        n, n2 = names[i], names[j]
        child = getattr(model, n)
        pnames = [k for k in ('weight', 'bias') if isinstance(getattr(child, k, None), nn.Parameter)]
        if op == 'same-child': setattr(model, n, child)
        elif op == 'same-child/__setattr__': model.__setattr__(n, getattr(model, n))
        elif op == 'register_module-again': model.register_module(n, child)
        elif op == 'add_module-again': (getattr(model, 'add_module', None) or model.register_module)(n, child)
        elif op == 'second-name': setattr(model, n + '_too', child)
        elif op == 'swap-and-back':
            for _ in range(2):
                x, y = getattr(model, n), getattr(model, n2)
                setattr(model, n, y); setattr(model, n2, x)
        elif op == 'replace-and-restore':
            setattr(model, n, nn.ReLU()); setattr(model, n, child)
        elif op == 'same-parameter':
            for k in pnames: setattr(child, k, getattr(child, k))
        elif op == 'register_parameter-again':
            for k in pnames: child.register_parameter(k, getattr(child, k))
        elif op == 'parameter-second-name':
            for k in pnames: setattr(child, k + '_too', getattr(child, k))
        elif op == 'converter-walk':
            for k, v in list(vars(model).items()):
                if isinstance(v, nn.Module): setattr(model, k, v)


def _pred(c):
    if c['mode'] == 'binary':
        return [1 if s[0] > 0.5 else 0 for s in c['scores']]
    return [int(np.argmax(s)) for s in c['scores']]


def _lines(c):
    if c['kind'] in VALUE_KINDS:
        return _vlines(c)
    if c['kind'] == 'test':
        return [f"train test {c['nt']} {c['tr0']} {c['g0']}"]
    if c['kind'] == 'fit':
        nv = '-' if c['nv'] is None else c['nv']
        return [f"train fit {c['e']} {c['nt']} {nv} {c['ct']} {c['cv']} {0 if c['ev'] is None else 1} {c['tr0']} {c['g0']}"]
    # the model is asked for argmax of every score row (as exact integers) and for the accuracy of labels vs predictions
    rows = [f"train argmax {show_ints([int(round(v * 4)) for v in s])}" for s in c['scores']] if c['mode'] != 'binary' else []
    return rows + [f"train acc {show_ints(c['labels'])} {show_ints(_pred(c))}"]


# ------------------------------------------------------------------------------------------------
def _run_fit(c):
    sg = common.impl()
    from synapgrad import nn, optim
    from synapgrad.nn.utils.train import Trainer, Evaluator
    from synapgrad.nn.utils.data import DataLoader
    tm = tmod()
    trace = []
    B, F, K = 4, 3, 3

    class Model(nn.Sequential):
        def train(self):
            trace.append('T'); return super().train()
        def eval(self):
            trace.append('E'); return super().eval()
        def forward(self, x):
            flags = {m.training for m in [self] + self.submodules()}
            tr = '?' if len(flags) != 1 else str(int(flags.pop()))
            trace.append(f'f{tr}{int(tm.gradient__)}')
            return super().forward(x)

    layers = [nn.Linear(F, 4), nn.BatchNorm1d(4), nn.Dropout(0.25), nn.Linear(4, 1 if c['ev'] == 'binary' else K)]
    surg = c.get('surg')
    NAMES = ['first', 'norm', 'drop', 'last']

    class Net(nn.Module):
        # children held in named attributes; what is OBSERVED (modes, parameters, statistics) is read from the layer objects
        # themselves, never through the module's own registry
        def __init__(self):
            super().__init__()
            for n_, l_ in zip(NAMES, layers): setattr(self, n_, l_)
        def train(self, *a, **k):
            trace.append('T'); return super().train(*a, **k)
        def eval(self):
            trace.append('E'); return super().eval()
        def forward(self, x):
            flags = {m.training for m in [self] + layers}
            tr = '?' if len(flags) != 1 else str(int(flags.pop()))
            trace.append(f'f{tr}{int(tm.gradient__)}')
            return layers[3](layers[2](layers[1](layers[0](x))))

    class _View:        # the model as the rest of this function reads it
        def __init__(self, m): self.__dict__['m'] = m
        def submodules(self): return list(layers)
        def parameters(self): return list(params0)
        def __getattr__(self, k): return getattr(self.__dict__['m'], k)
        def __setattr__(self, k, v): setattr(self.__dict__['m'], k, v)

    real_model = Net() if surg else Model(*layers)
    params0 = [p_ for l_ in layers for p_ in l_.parameters()]
    model = _View(real_model) if surg else real_model
    if c.get('frz'):                      # the first layer is frozen when the optimizer is built and unfrozen by a callback later
        for p_ in model.submodules()[0].parameters(): p_.requires_grad = False
    if surg and surg['at'] == 'before-optimizer': _surgery(nn, real_model, NAMES, surg['ops'])
    inner = optim.SGD(real_model.parameters(), lr=0.05, momentum=0.5)
    n_opt_params = len(real_model.parameters())
    cleared = [True]

    class Opt:
        def zero_grad(self):
            trace.append('z'); inner.zero_grad()
            for p_ in model.parameters():     # "each update is preceded by clearing the gradients": of every trainable parameter
                if p_.requires_grad and p_._grad is not None and np.any(p_._grad):
                    cleared[0] = False
        def step(self):
            trace.append('s'); inner.step()

    class NG:
        def __init__(self): self.c = sg.no_grad()
        def __enter__(self):
            trace.append('n+'); return self.c.__enter__()
        def __exit__(self, *a):
            trace.append('n-'); return self.c.__exit__(*a)

    class Engine:
        no_grad = NG

    losses = []
    if c['ev'] == 'binary':
        base = nn.BCEWithLogitsLoss()
    elif c['ev'] == 'categorical':
        base = nn.MSELoss()
    else:
        base = nn.CrossEntropyLoss()

    def criterion(out, lab):
        l = base(out, lab)
        losses.append((trace.count('n+') > trace.count('n-'), float(l.data)))
        return l

    class TF:
        def __call__(self, dl, X, y):
            if c['ev'] == 'binary':
                return sg.Tensor(X), sg.Tensor(y.astype(np.float32))
            if c['ev'] == 'categorical':
                return sg.Tensor(X), sg.Tensor(np.eye(K, dtype=np.float32)[y])
            return sg.Tensor(X), sg.Tensor(y, dtype=np.int8)

    rs = np.random.RandomState(c['e'] * 100 + c['nt'] * 10 + (c['nv'] or 0))
    def loader(nb):
        n = nb * B + (1 if nb else 0)   # one leftover sample that must never be seen
        X = rs.rand(n, F).astype(np.float32)
        y = rs.randint(0, 2 if c['ev'] == 'binary' else K, n)
        return DataLoader(X, y, B, TF())
    tl = loader(c['nt'])
    vl = None if c['nv'] is None else loader(c['nv'])

    snaps = []
    def snap():
        bn = model.submodules()[1]
        return [p.data.copy() for p in model.parameters()] + [bn.running_mean.data.copy(), bn.running_var.data.copy(), np.array(bn.num_batches_tracked)]
    ncb = [0]
    def cbT(m, l):
        trace.append('ct')
        ncb[0] += 1
        if c.get('frz') and ncb[0] == 2: model.unfreeze()
        if surg and surg['at'] == 'in-training-callback' and ncb[0] == 1: _surgery(nn, real_model, NAMES, surg['ops'])
        if c.get('peek') == 2: next(iter(l), None)          # the callback looks at a batch of the loader it is handed
    def cbV_peek(l):
        if c.get('peek') == 2: next(iter(l), None)
    def cbV(m, l):
        trace.append('cv'); cbV_peek(l)
    orig_bw = sg.Tensor.backward
    def bw(self, grad=None):
        trace.append('b'); return orig_bw(self, grad)
    ev = None if c['ev'] is None else Evaluator(mode=c['ev'])
    g_before = tm.gradient__
    tm.gradient__ = bool(c.get('gc', 1))          # the gradient mode in force while the Trainer object is constructed
    try:
        tr = Trainer(real_model, Engine)
        tr.compile(criterion, Opt(), ev)
    finally:
        tm.gradient__ = g_before
    # validation purity: snapshot before/after every __validate
    vname = '_Trainer__validate'
    orig_val = getattr(tr, vname)
    pure = [True]
    def val(loader_):
        before = snap()
        try:
            return orig_val(loader_)
        finally:
            after = snap()
            if any(not np.array_equal(a, b) for a, b in zip(before, after)):
                pure[0] = False
    setattr(tr, vname, val)
    if c.get('again'):
        if c['again'] == 'test': tr.test(loader(1))
        else: tr.fit(loader(2), 1, validation_loader=loader(1) if c['again'] == 'fitval' else None)
        trace.clear(); losses.clear(); cleared[0] = True; pure[0] = True; ncb[0] = 0
    model.training = bool(c['tr0'])
    for m in model.submodules(): m.training = bool(c['tr0'])
    mix = c.get('mix', 0)
    if mix:
        for j in ([1, 2], [0, 3], [2])[mix - 1]:
            model.submodules()[j].training = not bool(c['tr0'])
    if surg and surg['at'] == 'before-fit': _surgery(nn, real_model, NAMES, surg['ops'])
    if c.get('peek') == 1:                                   # the caller looked at the first batches before handing the loaders over
        next(iter(tl), None)
        if vl is not None:
            it_ = iter(vl); next(it_, None); next(it_, None)
    g_before = tm.gradient__
    tm.gradient__ = bool(c['g0'])
    sg.Tensor.backward = bw
    try:
        if c['kind'] == 'test':
            before = snap()
            tr.test(tl)
            g_after = tm.gradient__
            pure[0] = all(np.array_equal(a, b) for a, b in zip(before, snap()))
            hist = {}
        else:
            hist = tr.fit(tl, c['e'], validation_loader=vl, on_train_epoch=cbT if c['ct'] else None,
                          on_validation_epoch=cbV if c['cv'] else None)
            g_after = tm.gradient__
    finally:
        sg.Tensor.backward = orig_bw
        tm.gradient__ = g_before
    keys = ','.join(f'{k}:{len(v)}' for k, v in hist.items()) or '_'
    # epoch loss = mean of the per-batch losses
    tl_losses = [v for isval, v in losses if not isval]
    vl_losses = [v for isval, v in losses if isval]
    ok_mean = True
    for name, ls, nb in (('loss', tl_losses, c['nt']), ('val_loss', vl_losses, c['nv'] or 0)):
        if name in hist:
            for e_i, v in enumerate(hist[name]):
                chunk = ls[e_i * nb:(e_i + 1) * nb]
                if not chunk or abs(float(v) - sum(chunk) / len(chunk)) > 1e-5 * (1 + abs(float(v))):
                    ok_mean = False
    flags = {m.training for m in [real_model] + model.submodules()}
    training = '?' if len(flags) != 1 else str(int(flags.pop()))
    listing = True
    if surg:      # what the module lists afterwards: exactly the layer / parameter objects it holds
        listing = ({id(m) for m in real_model.submodules()} == {id(l_) for l_ in layers} and {id(p_) for p_ in real_model.parameters()} == {id(p_) for p_ in params0}
                   and len(real_model.parameters()) == len(params0) and n_opt_params == len(params0))
    if c['kind'] == 'test':
        return (f"trace={','.join(trace) or '_'} steps={trace.count('s')} training={training} grad={int(g_after)}", {'valpure': pure[0], 'lossmean': True, 'listing': listing})
    return (f"trace={','.join(trace) or '_'} steps={trace.count('s')} training={training} grad={int(g_after)} keys={keys}",
            {'valpure': pure[0], 'lossmean': ok_mean, 'cleared': cleared[0], 'listing': listing})


def _run_acc(c):
    sg = common.impl()
    from synapgrad.nn.utils.train import Evaluator
    ev = Evaluator(mode=c['mode'])
    n, k = len(c['labels']), c['k']
    if c['mode'] == 'binary':
        out = sg.Tensor(np.array([[s[0]] for s in c['scores']], dtype=np.float32))
        lab = sg.Tensor(np.array(c['labels'], dtype=np.float32))
    elif c['mode'] == 'multi-class':
        out = sg.Tensor(np.array(c['scores'], dtype=np.float32))
        lab = sg.Tensor(np.array(c['labels']), dtype=np.int8)
    else:
        out = sg.Tensor(np.array(c['scores'], dtype=np.float32))
        lab = sg.Tensor(np.eye(k, dtype=np.float32)[c['labels']])
    m = ev.step(lab, out)
    acc = float(dict(m)['accuracy'])
    preds = [int(v) for v in ev.y_pred][:n]
    return acc, preds


def impl(c):
    if c['kind'] in VALUE_KINDS:
        return _vimpl(c)
    if c['kind'] in ('fit', 'test'):
        r = outcome(lambda: _run_fit(c))
        if r == 'rejected':
            c['_flags'] = {}
            return ['rejected']
        c['_flags'] = r[1]
        return [r[0]]
    r = outcome(lambda: _run_acc(c))
    if r == 'rejected':
        return ['rejected'] * len(c['lines'])
    acc, preds = r
    correct = sum(1 for a, b in zip(c['labels'], preds) if a == b)
    rows = [str(p) for p in preds] if c['mode'] != 'binary' else []
    # the implementation reports a float; it is mapped back to the exact count it must equal
    num = round(acc * len(c['labels']))
    if abs(acc - num / len(c['labels'])) > 1e-9:
        return rows + [f'{acc}']
    return rows + [f"{num}/{len(c['labels'])}"] if correct == num else rows + [f'{num}/{len(c["labels"])}!={correct}']


def compare(c, mo, io):
    if c['kind'] in VALUE_KINDS:
        return _vcompare(c, mo, io)
    diffs = [(k, m, i) for k, (m, i) in enumerate(zip(mo, io)) if m != i]
    if c['kind'] in ('fit', 'test'):
        fl = c.get('_flags', {})
        if fl.get('valpure') is False:
            diffs.append(('valpure', 'validation changes no parameter / statistic', 'changed'))
        if fl.get('lossmean') is False:
            diffs.append(('lossmean', 'epoch loss = mean of batch losses', 'differs'))
        if fl.get('listing') is False:
            diffs.append(('listing', 'after re-assigning / re-registering the objects it holds the model lists exactly its layers and their parameters', 'differs'))
        if fl.get('cleared') is False:
            diffs.append(('cleared', 'zero_grad clears the gradient of every trainable parameter', 'a gradient survived'))
    return diffs


def nontrivial(c):
    if c['kind'] in VALUE_KINDS:
        return _vnontrivial(c)
    return (c['kind'] == 'fit' and c['e'] > 0 and c['nt'] > 0 and c['g0'] == 1) or (c['kind'] == 'acc' and len(c['labels']) > 1) or (c['kind'] == 'test' and c['nt'] > 0)


def distribution(cases):
    d = {}
    for c in cases:
        if c['kind'] in VALUE_KINDS:
            k = c['kind'] + '/' + str(c.get('mode')) + ('/large' if c.get('large') else '') + ('/DataLoader' if c.get('dl') else '')
            d[k] = d.get(k, 0) + 1
            continue
        k = c['kind'] + ('/val' if c.get('nv') is not None else '') + ('/ev' if c.get('ev') else '')
        d[k] = d.get(k, 0) + 1
        if c.get('surg'):
            for k in [f"re-assignment {c['surg']['at']}"] + [f're-assignment op: {o[0]}' for o in c['surg']['ops']]:
                d[k] = d.get(k, 0) + 1
        if c.get('again'):
            d[f"fit on a Trainer used before ({c['again']})"] = d.get(f"fit on a Trainer used before ({c['again']})", 0) + 1
    return d


# ---- property predicate on the implementation alone -------------------------------------------
def oracle(c):
    if c['kind'] in VALUE_KINDS:
        return _voracle(c)
    if c['kind'] == 'acc':
        r = outcome(lambda: _run_acc(c))
        if r == 'rejected':
            return {'key': {'kind': 'acc', 'class': 'rejected', 'mode': c['mode']}, 'case': c, 'what': 'Evaluator.step raised'}
        acc, preds = r
        want = sum(1 for a, b in zip(c['labels'], _pred(c)) if a == b) / len(c['labels'])
        if abs(acc - want) > 1e-9:
            return {'key': {'kind': 'acc', 'class': 'value', 'mode': c['mode']}, 'case': c, 'what': f'accuracy {acc}, fraction of correct predictions {want}'}
        return None
    if c['kind'] == 'test':
        r = outcome(lambda: _run_fit(c))
        if r == 'rejected':
            return {'key': {'kind': 'test', 'class': 'rejected'}, 'case': c, 'what': 'Trainer.test raised'}
        line, fl = r
        f = dict(kv.split('=', 1) for kv in line.split(' '))
        tr = [] if f['trace'] == '_' else f['trace'].split(',')
        bad = [e for e in tr if e in ('s', 'b', 'z') or (e.startswith('f') and e != 'f00')]
        if bad:
            return {'key': {'kind': 'test', 'class': 'mode'}, 'case': c, 'what': f'test ran {bad[:3]} (needs eval-mode forwards with gradients off, no update)'}
        if int(f['grad']) != c['g0']:
            return {'key': {'kind': 'test', 'class': 'gradmode'}, 'case': c, 'what': f"test left the global gradient mode at {f['grad']}, it found {c['g0']} (Trainer constructed under mode {c.get('gc', 1)})"}
        if not fl['valpure']:
            return {'key': {'kind': 'test', 'class': 'valpure'}, 'case': c, 'what': 'test changed a parameter or running statistic'}
        if fl.get('listing') is False:
            return {'key': {'kind': 'test', 'class': 'listing'}, 'case': c, 'what': f"after {c['surg']} (every name still bound to the object it held) the model no longer lists exactly its layers / parameters"}
        return None
    r = outcome(lambda: _run_fit(c))
    legal = c['g0'] == 1 and c['nt'] > 0 and (c['nv'] is None or c['nv'] > 0)
    if r == 'rejected':
        if legal or c['e'] == 0:
            return {'key': {'kind': 'fit', 'class': 'rejected'}, 'case': c, 'what': 'fit raised on a legal configuration'}
        return None
    line, fl = r
    f = dict(kv.split('=', 1) for kv in line.split(' '))
    tr = [] if f['trace'] == '_' else f['trace'].split(',')
    def fail(cls, what):
        return {'key': {'kind': 'fit', 'class': cls}, 'case': c, 'what': what}
    if tr.count('s') != c['e'] * c['nt']:
        return fail('steps', f"{tr.count('s')} optimizer steps for {c['e']} epochs x {c['nt']} batches")
    for i, e in enumerate(tr):
        if e == 's':
            if i < 3 or tr[i - 1] != 'b' or tr[i - 2] != 'z' or tr[i - 3] != 'f11':
                return fail('discipline', f'step at {i} preceded by {tr[max(0, i - 3):i]} (needs training-mode forward, zero_grad, backward)')
    depth = 0
    for i, e in enumerate(tr):
        if e == 'n+': depth += 1
        elif e == 'n-': depth -= 1
        elif depth > 0 and e in ('s', 'b', 'z'):
            return fail('validation', f'{e} inside validation at {i}')
        elif depth > 0 and e.startswith('f') and e != 'f00':
            return fail('validation', f'validation forward ran as {e} (needs eval mode, gradients off)')
        elif depth == 0 and e.startswith('f') and e != 'f11' and c['g0'] == 1:
            return fail('training', f'training forward ran as {e}')
    if int(f['grad']) != c['g0']:
        return fail('gradmode', 'global gradient mode not restored')
    if not fl['valpure']:
        return fail('valpure', 'validation changed a parameter or running statistic')
    if not fl['lossmean']:
        return fail('lossmean', 'reported epoch loss is not the mean of the batch losses')
    if fl.get('cleared') is False:
        return fail('cleared', 'an update was not preceded by clearing the gradients: after optimizer.zero_grad() a trainable parameter still held a non-zero gradient')
    if fl.get('listing') is False:
        return fail('listing', f"after {c['surg']} (every name still bound to the object it held) the model / the optimizer built from it no longer lists exactly its layers / parameters")
    keys = {} if f['keys'] == '_' else dict((k, int(v)) for k, v in (kv.split(':') for kv in f['keys'].split(',')))
    want = {}
    if c['e'] > 0:
        want['loss'] = c['e']
        if c['ev']: want['accuracy'] = c['e']
        if c['nv'] is not None:
            want['val_loss'] = c['e']
            if c['ev']: want['val_accuracy'] = c['e']
    if keys != want:
        return fail('history', f'history {keys}, expected {want}')
    return None


# =================================================================================================
# VALUES: the Evaluator as a state machine, and what the history of fit contains
#   model: lean/SynapModel/TrainMetrics.lean, driver: `train ev …`, `train hist …`, `train testret …`
# -------------------------------------------------------------------------------------------------
VALUE_KINDS = ('ev', 'hist', 'histreal', 'testret', 'sess')
MODE_NAMES = ['binary', 'multi-class', 'categorical']
# Finding F-C20-1 (Evaluator.step raised on a batch of ONE sample in every mode: `.squeeze()` dropped the batch axis) was a
# genuine defect, repaired in /repo by fix a611d24 (every singleton axis except the batch axis is dropped).  One-sample batches
# are generated everywhere.  Still rejected by the code, and by the model (`wellShaped`): a single / no score column in the
# arg-max modes, a single / no label column in categorical mode, several output columns in binary mode, several label columns
# in binary / multi-class mode.


def _rows(rs):
    return ';'.join(','.join(str(int(v)) for v in r) for r in rs) if rs else '_'


def _frac(q):
    q = Fraction(q)
    return f'{q.numerator}:{q.denominator}'


def _py_pred(mode, scale, score):
    """the decoding rule of the property, in plain Python: output > 1/2 ; first index of the row maximum"""
    if mode == 'binary':
        return 1 if Fraction(int(score[0]), int(scale)) > Fraction(1, 2) else 0
    return list(score).index(max(score))


def _py_true(mode, label):
    if mode == 'categorical':
        return list(label).index(max(label))
    return int(label[0])


def _gen_batch(rng, mode, k, scale, n, agree=0.5):
    labels, scores = [], []
    for _ in range(n):
        if mode == 'binary':
            half = scale // 2
            v = rng.pick([half - 1, half, half + 1, half + rng.randint(-3, 3), rng.randint(-scale, 2 * scale), 0, scale])
            sc = [v]
        else:
            hi = rng.pick([1, 2, 8])
            sc = [rng.randint(-hi, hi) for _ in range(k)]
        want = _py_pred(mode, scale, sc) if rng.chance(agree) else rng.randrange(2 if mode == 'binary' else k)
        if mode == 'categorical':
            if rng.chance(0.8):
                lab = [1 if i == want else 0 for i in range(k)]
            else:
                lab = [rng.randint(0, 2) for _ in range(k)]          # soft / tied label rows: the first maximum counts
        else:
            lab = [want]
        labels.append(lab); scores.append(sc)
    return labels, scores


def _tensors(sg, mode, k, scale, labels, scores, layout=0, wide=False):
    """the batch as tensors; every score / scale is exactly representable in float32"""
    n = len(labels)
    if mode == 'binary':
        out = (np.array([s[0] for s in scores], dtype=np.float64) / scale).astype(np.float32)
        out = out.reshape(n, 1) if layout & 1 else out.reshape(n)
        lab = np.array([l[0] for l in labels], dtype=np.float32)
        lab = lab.reshape(n, 1) if layout & 2 else lab.reshape(n)
        return sg.Tensor(lab), sg.Tensor(out)
    out = (np.array(scores, dtype=np.float64).reshape(n, k) / scale).astype(np.float32)
    if mode == 'multi-class':
        lab = np.array([l[0] for l in labels], dtype=np.int64).reshape(n)
        if wide:
            return sg.Tensor(lab, dtype=np.int32), sg.Tensor(out)
        if layout & 2:
            return sg.Tensor(lab.astype(np.float32)), sg.Tensor(out)
        return sg.Tensor(lab, dtype=np.int8), sg.Tensor(out)
    return sg.Tensor(np.array(labels, dtype=np.float32).reshape(n, k)), sg.Tensor(out)


def _mk_cb(spec):
    """the callbacks the driver knows (lean/SynapModel/Drv/Train.lean cbValue): name:kind,…"""
    if spec is None:
        return None
    items = [p_.split(':') for p_ in spec.split(',')]
    def cb(y_true, y_pred):
        out = []
        a, b = np.asarray(y_true).astype(np.int64), np.asarray(y_pred).astype(np.int64)
        for n_, kind in items:
            if kind == 'len': v = np.float64(len(a))
            elif kind == 'wsum': v = np.float64((3 * a + b).sum())
            elif kind == 'dis': v = np.float64((a != b).sum())
            else: v = int(len(a))                 # 'ilen': a Python int
            out.append((n_, v))
        return out
    return cb


def _cb_names(spec):
    return [] if spec is None else [p_.split(':')[0] for p_ in spec.split(',')]


def _tag(v):
    if isinstance(v, np.float32): return 's' + repr(float(v))
    if isinstance(v, np.float64): return 'd' + repr(float(v))
    if isinstance(v, float): return 'p' + repr(v)
    if isinstance(v, (int, np.integer)) and not isinstance(v, (bool, np.bool_)): return 'i' + str(int(v))
    return 'x' + type(v).__name__


def _show_metrics(ms):
    return ','.join(f'{k}={_tag(v)}' for k, v in ms) or '_'


def _show_hist(h):
    return ','.join(f"{k}={'|'.join(_tag(v) for v in vs)}" for k, vs in h.items()) or '_'


# ---- generation ---------------------------------------------------------------------------------
def _gen_ev(rng):
    mode = rng.pick(MODE_NAMES)
    c = {'kind': 'ev', 'mode': mode, 'k': rng.randint(2, 5), 'scale': rng.pick([4, 1024, 1 << 24]), 'acc': int(rng.chance(0.75)),
         'ecb': rng.pick([None, None, 'm1:len', 'm1:len,m2:wsum', 'd:dis,accuracy:len', 'i:ilen']),
         'scb': rng.pick([None, None, 's:dis', 's1:wsum,s2:len']), 'layout': rng.randrange(4), 'ops': []}
    for _ in range(rng.randint(3, 10)):
        r = rng.random()
        if r < 0.62:
            n = rng.pick([1, 1, 2, 2, 3, 4, 5, 6, 0])
            labels, scores = _gen_batch(rng, mode, c['k'], c['scale'], n)
            c['ops'].append(['step', rng.pick([None, None, 'val', 'tst']), labels, scores])
        elif r < 0.86:
            c['ops'].append(['compute', rng.pick([None, 'val'])])
        elif r < 0.93:
            c['ops'].append(['reset'])
        else:
            c['ops'].append(['state'])
    c['ops'] += [['state'], ['compute', rng.pick([None, 'val'])], ['compute', None]]     # a second compute right after the first
    if rng.chance(0.25):
        # the last call has a shape the code still rejects (what the buffers hold after the exception is not modelled: nothing follows)
        n = rng.pick([1, 2, 3])
        k = c['k']
        if mode == 'binary':
            lw, sw = rng.pick([(1, 2), (2, 1), (1, 3)])
        elif mode == 'multi-class':
            lw, sw = rng.pick([(1, 1), (2, k), (1, 1)])
        else:
            lw, sw = rng.pick([(k, 1), (1, k), (1, 1)])
        c['ops'].append(['badstep', None, [[rng.randrange(2) for _ in range(lw)] for _ in range(n)], [[rng.randint(-3, 3) for _ in range(sw)] for _ in range(n)]])
    return c


def _gen_hist(rng, large=False):
    mode = rng.pick([None] + MODE_NAMES * 2)
    if large:
        mode = rng.pick(['binary', 'multi-class'])
    c = {'kind': 'hist', 'mode': mode, 'k': rng.randint(2, 4), 'scale': rng.pick([4, 1024]), 'large': int(large),
         'acc': 1 if (mode is None or large) else int(rng.chance(0.8)), 'scb': None if mode is None else rng.pick([None, None, 's:dis']),
         'ecb': None if (mode is None or large) else rng.pick([None, None, None, 'm1:len', 'm1:dis,m2:wsum', 'loss:len', 'val_loss:len', 'accuracy:dis', 'i:ilen']),
         'hasVal': int(rng.chance(0.6)), 'pre': None, 'epochs': []}
    if mode is not None and not large and rng.chance(0.15):          # the evaluator is handed over with leftovers
        m = rng.randint(1, 4)
        c['pre'] = [[rng.randrange(3) for _ in range(m)], [rng.randrange(3) for _ in range(m)]]
    def batches(nb, sizes):
        out = []
        for j in range(nb):
            n = sizes() if mode is not None else 2
            # the large epoch: more than 32767 correct predictions, so that a 16-bit tally would wrap
            labels, scores = _gen_batch(rng, mode or 'multi-class', c['k'], c['scale'], n, 0.9 if large else 0.5)
            out.append([[rng.randint(0, 4096), 1024], labels, scores])
        return out
    if large:
        c['epochs'].append({'train': batches(40, lambda: 1000), 'val': batches(2, lambda: 1000) if c['hasVal'] else []})
        return c
    sizes = lambda: rng.pick([1, 1, 2, 2, 3, 4, 5, 7])
    for e in range(rng.randint(1, 3)):
        nt = 0 if rng.chance(0.03) else rng.randint(1, 4)
        nv = 0 if rng.chance(0.03) else rng.randint(1, 3)
        c['epochs'].append({'train': batches(nt, sizes), 'val': batches(nv, sizes) if c['hasVal'] else []})
    return c


def _gen_histreal(rng):
    mode = rng.pick([None] + MODE_NAMES * 2)
    return {'kind': 'histreal', 'mode': mode, 'k': rng.randint(2, 4), 'acc': int(rng.chance(0.85)), 'ecb': rng.pick([None, None, 'm1:len,m2:wsum']),
            'scb': None, 'hasVal': int(rng.chance(0.6)), 'E': rng.randint(1, 3), 'seed': rng.randrange(1 << 30),
            'train_sizes': [rng.pick([1, 2, 3, 4, 6]) for _ in range(rng.randint(1, 4))], 'val_sizes': [rng.pick([1, 2, 3, 5]) for _ in range(rng.randint(1, 3))]}


def _gen_histreal_dl(rng):
    """Trainer.fit over the library's own DataLoader, batch_size 1 (mostly) or 2, with an evaluator"""
    bs = rng.pick([1, 1, 1, 2])
    return {'kind': 'histreal', 'mode': rng.pick(MODE_NAMES), 'k': rng.randint(2, 4), 'acc': 1, 'ecb': rng.pick([None, 'm1:len,m2:wsum']),
            'scb': None, 'hasVal': int(rng.chance(0.6)), 'E': rng.randint(1, 3), 'seed': rng.randrange(1 << 30), 'dl': bs,
            'train_sizes': [bs] * rng.randint(1, 5), 'val_sizes': [bs] * rng.randint(1, 3)}


def _gen_testret(rng):
    mode = rng.pick(['binary', 'multi-class'])
    k = rng.randint(2, 4)
    bs = []
    for _ in range(rng.randint(0, 4)):
        labels, scores = _gen_batch(rng, mode, k, 1, rng.randint(1, 4))
        bs.append([labels, scores])
    return {'kind': 'testret', 'mode': mode, 'k': k, 'batches': bs}


def _value_cases(rng, tier):
    q = tier == 'quick'
    out = [_gen_ev(rng) for _ in range(60 if q else 600)]
    # labels beyond the int16 range of the evaluator's buffers (train.py l.64: .astype(np.int16)): 40000 is stored as -25536, and
    # label 65539 is stored as 3 and so COUNTS AS EQUAL to prediction 3 — mirrored by wrap16 in the model; outside the property (oracle: None)
    out.append({'kind': 'ev', 'mode': 'multi-class', 'k': 4, 'scale': 1, 'acc': 1, 'ecb': 'm1:wsum', 'scb': None, 'layout': 0, 'wide': 1,
                'ops': [['step', None, [[40000], [65539], [3], [-1], [32767], [32768]], [[0, 0, 0, 1], [0, 1, 2, 3], [5, 5, 5, 9], [1, 0, 0, 0], [0, 0, 0, 0], [2, 1, 0, 0]]],
                        ['state'], ['compute', None]]})
    out += [_gen_hist(rng) for _ in range(50 if q else 500)]
    out += [_gen_hist(rng, large=True) for _ in range(1 if q else 3)]      # 40 x 1000 samples in one epoch
    out += [_gen_histreal(rng) for _ in range(24 if q else 240)]
    out += [_gen_histreal_dl(rng) for _ in range(12 if q else 80)]
    out += [_gen_testret(rng) for _ in range(8 if q else 40)]
    out += [_gen_sess(rng, j) for j in range(40 if q else 400)]
    return out


# ---- sessions: Trainer / Evaluator objects used again ----------------------------------------------------
NO_EV_SLOT = 9          # a slot of the driver that is never filled: "compiled without an evaluator"


def _gen_sess(rng, j=0):
    """calls on one or two Trainers (one identity model, planned losses) and up to two Evaluators; one protocol line per op"""
    mode = rng.pick(MODE_NAMES)
    c = {'kind': 'sess', 'mode': mode, 'k': rng.randint(2, 4), 'scale': rng.pick([4, 1024]), 'shared_loaders': int(rng.chance(.5)), 'evs': [], 'ops': []}
    for _ in range(rng.pick([1, 1, 2])):
        c['evs'].append({'acc': int(rng.chance(.8)), 'ecb': rng.pick([None, None, None, 'm1:len', 'm1:dis,m2:wsum', 'loss:len']), 'scb': rng.pick([None, None, 's:dis'])})
    ops = c['ops']
    for ei in range(len(c['evs'])):
        ops += [['sel', ei], ['evnew', ei]]
    sizes = lambda: rng.pick([1, 1, 2, 2, 3, 4, 5])
    def batches(nb):
        out = []
        for _ in range(nb):
            labels, scores = _gen_batch(rng, mode, c['k'], c['scale'], sizes())
            out.append([[rng.randint(0, 4096), 1024], labels, scores])
        return out
    def slot(ei): return NO_EV_SLOT if ei is None else ei
    def pick_ev(): return rng.pick([None] + list(range(len(c['evs']))) * 3)
    trainers = [pick_ev() if j % 4 else 0]               # trainer index -> evaluator index (or None)
    ops.append(['trainer', 0, trainers[0]])
    dirty = set()                                        # evaluators whose state the model does not know (a fit raised while using them)
    nfit = 0
    for step in range(rng.randint(4, 12)):
        r = rng.random()
        ti = rng.randrange(len(trainers))
        ei = trainers[ti]
        if r < 0.5 or (step < 2 and j % 2 == 0):
            if ei in dirty:
                ops += [['sel', ei], ['ev', ei, 'reset']]; dirty.discard(ei)
            hv = int(rng.chance(.5))
            E = rng.pick([0, 1, 1, 2, 2, 3])
            eps = []
            for _ in range(E):
                nt = 0 if rng.chance(.04) else rng.randint(1, 3)
                nv = 0 if rng.chance(.04) else rng.randint(1, 2)
                eps.append({'train': batches(nt), 'val': batches(nv) if hv else []})
            ops += [['sel', slot(ei)], ['fit', ti, hv, eps]]
            nfit += 1
            if any(not e['train'] or (hv and not e['val']) for e in eps) and ei is not None:
                dirty.add(ei)
        elif r < 0.6:
            ops.append(['test', ti, [[x[1], x[2]] for x in batches(rng.randint(0, 3))]])
        elif r < 0.7:
            trainers[ti] = pick_ev()
            ops.append(['compile', ti, trainers[ti]])
        elif r < 0.76 and len(trainers) < 2:
            trainers.append(pick_ev() if rng.chance(.5) else trainers[0])      # another Trainer, often sharing the evaluator
            ops.append(['trainer', len(trainers) - 1, trainers[-1]])
        elif c['evs']:
            ei = rng.randrange(len(c['evs']))
            if ei in dirty:
                ops += [['sel', ei], ['ev', ei, 'reset']]; dirty.discard(ei)
                continue
            ops.append(['sel', ei])
            q = rng.random()
            if q < 0.45:
                labels, scores = _gen_batch(rng, mode, c['k'], c['scale'], rng.pick([1, 2, 3]))
                ops.append(['ev', ei, 'step', rng.pick([None, None, 'val']), labels, scores])
            elif q < 0.7: ops.append(['ev', ei, 'compute', rng.pick([None, 'val'])])
            elif q < 0.85: ops.append(['ev', ei, 'reset'])
            else: ops.append(['ev', ei, 'state'])
    # the session ends with one more fit on the first trainer (the "second stage")
    ei = trainers[0]
    if ei in dirty: ops += [['sel', ei], ['ev', ei, 'reset']]
    hv = int(rng.chance(.5))
    ops += [['sel', slot(ei)], ['fit', 0, hv, [{'train': batches(rng.randint(1, 3)), 'val': batches(rng.randint(1, 2)) if hv else []} for _ in range(rng.randint(1, 3))]]]
    for ei in range(len(c['evs'])):
        if ei not in dirty: ops += [['sel', ei], ['ev', ei, 'state']]
    return c


def _sess_lines(c):
    L = []
    for op in c['ops']:
        if op[0] == 'sel': L.append(f'train ev sel {op[1]}')
        elif op[0] == 'evnew':
            e = c['evs'][op[1]]
            L.append(f"train ev new {c['mode']} {c['scale']} {e['acc']} {e['ecb'] or '-'} {e['scb'] or '-'}")
        elif op[0] in ('trainer', 'compile'): L.append(f'train ev sel {NO_EV_SLOT if op[2] is None else op[2]}')
        elif op[0] == 'fit':
            b = lambda x: f'{x[0][0]}:{x[0][1]}@{_rows(x[1])}@{_rows(x[2])}'
            L.append(' '.join([f'train sfit {op[2]}'] + ['+'.join(b(x) for x in e['train']) + '|' + '+'.join(b(x) for x in e['val']) for e in op[3]]))
        elif op[0] == 'test':
            L.append('train testret ' + ('+'.join(f'{_rows(b[0])}@{_rows(b[1])}' for b in op[2]) or '_'))
        elif op[2] == 'step': L.append(f"train ev step {op[3] or '-'} {_rows(op[4])} {_rows(op[5])}")
        elif op[2] == 'compute': L.append(f"train ev compute {op[3] or '-'}")
        elif op[2] == 'reset': L.append('train ev reset')
        else: L.append('train ev state')
    return L


class _SetLoader:
    """ONE loader object handed to every fit call of a session; `set` gives it the batches of the epochs to come"""
    def __init__(self): self.per_epoch, self.i = [], -1
    def set(self, per_epoch): self.per_epoch, self.i = per_epoch, -1
    def __len__(self): return len(self.per_epoch[min(self.i + 1, len(self.per_epoch) - 1)]) if self.per_epoch else 0
    def __iter__(self):
        self.i += 1
        return iter(self.per_epoch[self.i])


def _run_sess(c):
    """the session on the real objects.  Returns (one output per op, facts): facts['fits'] holds per fit call what the property
    needs (returned history, snapshot, optimizer steps, whether it raised), facts['kept'] whether every dictionary returned
    earlier still has the contents it was returned with"""
    import copy
    sg = common.impl()
    from synapgrad import nn, optim
    from synapgrad.nn.utils.train import Trainer, Evaluator
    mode, k = c['mode'], c['k']
    width = 1 if mode == 'binary' else k
    lin = nn.Linear(width, width)
    lin.weight.data[...] = np.eye(width, dtype=np.float32); lin.bias.data[...] = 0
    queue, nsteps = [], [0]
    def crit(out, lab):
        v = np.float32(float(queue.pop(0)))
        return (out * 0.0).sum() + sg.Tensor(v)
    inner = optim.SGD(lin.parameters(), lr=0.1)
    class Opt:
        def zero_grad(self): inner.zero_grad()
        def step(self): nsteps[0] += 1; inner.step()
    def mk(bs):
        return [tuple(reversed(_tensors(sg, mode, k, c['scale'], x[1], x[2], 1))) for x in bs]
    evs = [Evaluator(epoch_callback=_mk_cb(e['ecb']), step_callback=_mk_cb(e['scb']), accuracy=bool(e['acc']), mode=mode) for e in c['evs']]
    trainers, tl_shared, vl_shared = {}, _SetLoader(), _SetLoader()
    returned = []          # (history object, deep copy at return time)
    outs, fits, kept = [], [], True
    for op in c['ops']:
        try:
            with common.quiet():
                if op[0] in ('sel',):
                    outs.append('ok')
                elif op[0] == 'evnew':
                    outs.append('ok')
                elif op[0] == 'trainer':
                    tr = Trainer(lin, sg)
                    tr.compile(crit, Opt(), None if op[2] is None else evs[op[2]])
                    trainers[op[1]] = tr; outs.append('ok')
                elif op[0] == 'compile':
                    trainers[op[1]].compile(crit, Opt(), None if op[2] is None else evs[op[2]]); outs.append('ok')
                elif op[0] == 'fit':
                    tr, hv, eps = trainers[op[1]], op[2], op[3]
                    queue[:] = [Fraction(x[0][0], x[0][1]) for e in eps for x in (e['train'] + e['val'])]
                    tl, vl = (tl_shared, vl_shared) if c['shared_loaders'] else (_SetLoader(), _SetLoader())
                    tl.set([mk(e['train']) for e in eps]); vl.set([mk(e['val']) for e in eps])
                    nsteps[0] = 0
                    rec = {'raised': True, 'steps': 0, 'hist': None, 'n': None}
                    fits.append(rec)
                    try:
                        hist = tr.fit(tl, len(eps), validation_loader=vl if hv else None)
                    finally:
                        rec['steps'] = nsteps[0]
                    ev = tr.evaluator
                    rec.update(raised=False, hist=copy.deepcopy(hist), n=len(ev.y_true) if ev is not None else 0)
                    returned.append((hist, copy.deepcopy(hist)))
                    outs.append(f"hist={_show_hist(hist)} n={rec['n']}")
                elif op[0] == 'test':
                    loader = [tuple(reversed(_tensors(sg, mode, k, 1, b[0], b[1], 1))) for b in op[2]]
                    yp, yt = trainers[op[1]].test(loader)
                    n = len(yt)
                    if n == 0: outs.append('n=0 pred=_ true=_')
                    else:
                        yp, yt = np.asarray(yp).reshape(n, -1), np.asarray(yt).reshape(n, -1)
                        outs.append(f'n={n} pred={_rows(yp.tolist())} true={_rows(yt.tolist())}')
                else:
                    ev = evs[op[1]]
                    if op[2] == 'step':
                        lab, o = _tensors(sg, mode, k, c['scale'], op[4], op[5], 0)
                        m = ev.step(lab, o) if op[3] is None else ev.step(lab, o, prefix=op[3])
                        outs.append(f'metrics={_show_metrics(m)} n={len(ev.y_true)}')
                    elif op[2] == 'compute':
                        m = ev.compute() if op[3] is None else ev.compute(prefix=op[3])
                        outs.append(f'metrics={_show_metrics(m)} n={len(ev.y_true)}')
                    elif op[2] == 'reset':
                        ev.reset(); outs.append('ok')
                    else:
                        outs.append(f'ytrue={show_ints(ev.y_true)} ypred={show_ints(ev.y_pred)}')
        except Exception:
            outs.append('rejected')
        for h_, snap in returned:          # a dictionary handed to the caller by an earlier call keeps its contents
            if _show_hist(h_) != _show_hist(snap) or any(len(h_[k_]) != len(snap[k_]) for k_ in snap):
                kept = False
    assert np.array_equal(lin.weight.data, np.eye(width, dtype=np.float32))
    return outs, {'fits': fits, 'kept': kept}


def _hist_line(mode, scale, acc, ecb, scb, hasVal, pre, epochs):
    def b(x):
        if mode is None:
            return f'{x[0][0]}:{x[0][1]}@_@_'
        return f'{x[0][0]}:{x[0][1]}@{_rows(x[1])}@{_rows(x[2])}'
    eps = ['+'.join(b(x) for x in e['train']) + '|' + '+'.join(b(x) for x in e['val']) for e in epochs]
    yt0, yp0 = (show_ints(pre[0]), show_ints(pre[1])) if pre else ('_', '_')
    return ' '.join([f"train hist {mode or '-'} {scale} {acc} {ecb or '-'} {scb or '-'} {hasVal} {yt0} {yp0}"] + eps)


def _vlines(c):
    if c['kind'] == 'ev':
        L = [f"train ev new {c['mode']} {c['scale']} {c['acc']} {c['ecb'] or '-'} {c['scb'] or '-'}"]
        for op in c['ops']:
            if op[0] in ('step', 'badstep'): L.append(f"train ev step {op[1] or '-'} {_rows(op[2])} {_rows(op[3])}")
            elif op[0] == 'compute': L.append(f"train ev compute {op[1] or '-'}")
            elif op[0] == 'reset': L.append('train ev reset')
            else: L.append('train ev state')
        return L
    if c['kind'] == 'hist':
        return [_hist_line(c['mode'], c['scale'], c['acc'], c['ecb'], c['scb'], c['hasVal'], c['pre'], c['epochs'])]
    if c['kind'] == 'sess':
        return _sess_lines(c)
    if c['kind'] == 'histreal':
        return ['train hist - 1 1 - - 0 _ _']          # replaced by impl(): the losses / outputs are those the run produced
    return ['train testret ' + ('+'.join(f'{_rows(b[0])}@{_rows(b[1])}' for b in c['batches']) or '_')]


# ---- execution on the implementation ----------------------------------------------------------------
def _run_ev(c):
    sg = common.impl()
    from synapgrad.nn.utils.train import Evaluator
    ev = Evaluator(epoch_callback=_mk_cb(c['ecb']), step_callback=_mk_cb(c['scb']), accuracy=bool(c['acc']), mode=c['mode'])
    out, raw = ['ok'], [None]
    for op in c['ops']:
        try:
            with common.quiet():
                if op[0] == 'badstep':
                    lab = sg.Tensor(np.array(op[2], dtype=np.float32))
                    o = sg.Tensor((np.array(op[3], dtype=np.float64) / c['scale']).astype(np.float32))
                    m = ev.step(lab, o)
                    out.append(f'metrics={_show_metrics(m)} n={len(ev.y_true)}'); raw.append(m)
                elif op[0] == 'step':
                    lab, o = _tensors(sg, c['mode'], c['k'], c['scale'], op[2], op[3], c['layout'], bool(c.get('wide')))
                    m = ev.step(lab, o) if op[1] is None else ev.step(lab, o, prefix=op[1])
                    out.append(f'metrics={_show_metrics(m)} n={len(ev.y_true)}'); raw.append(m)
                elif op[0] == 'compute':
                    m = ev.compute() if op[1] is None else ev.compute(prefix=op[1])
                    out.append(f'metrics={_show_metrics(m)} n={len(ev.y_true)}'); raw.append(m)
                elif op[0] == 'reset':
                    ev.reset(); out.append('ok'); raw.append(None)
                else:
                    out.append(f'ytrue={show_ints(ev.y_true)} ypred={show_ints(ev.y_pred)}'); raw.append(None)
        except Exception:
            out.append('rejected'); raw.append('rejected')
    return out, raw


class _EpochLoader:
    """a loader whose batches differ from epoch to epoch (as a shuffling loader's do)"""
    def __init__(self, per_epoch):
        self.per_epoch, self.i = per_epoch, -1
    def __len__(self):
        return len(self.per_epoch[min(self.i + 1, len(self.per_epoch) - 1)]) if self.per_epoch else 0
    def __iter__(self):
        self.i += 1
        return iter(self.per_epoch[self.i])


def _run_hist(c):
    """Trainer.fit on an identity model; the criterion returns the planned losses (zero gradient: the model stays the identity)"""
    sg = common.impl()
    from synapgrad import nn, optim
    from synapgrad.nn.utils.train import Trainer, Evaluator
    mode, k = c['mode'], c['k']
    m_ = mode or 'multi-class'
    width = 1 if m_ == 'binary' else k
    lin = nn.Linear(width, width)
    lin.weight.data[...] = np.eye(width, dtype=np.float32); lin.bias.data[...] = 0
    queue = [Fraction(x[0][0], x[0][1]) for e in c['epochs'] for x in (e['train'] + e['val'])]
    rec = []
    def crit(out, lab):
        v = np.float32(float(queue.pop(0)))
        rec.append((not lin.training, float(v), len(out.data)))
        return (out * 0.0).sum() + sg.Tensor(v)
    def mk(bs):
        res = []
        for x in bs:
            lab, o = _tensors(sg, m_, k, c['scale'], x[1], x[2], 1)       # inputs (B, width); labels (B,) / (B, k)
            res.append((o, lab))
        return res
    tl = _EpochLoader([mk(e['train']) for e in c['epochs']])
    vl = _EpochLoader([mk(e['val']) for e in c['epochs']]) if c['hasVal'] else None
    ev = None if mode is None else Evaluator(epoch_callback=_mk_cb(c['ecb']), step_callback=_mk_cb(c['scb']), accuracy=bool(c['acc']), mode=mode)
    if c['pre']:
        ev.y_true = np.array(c['pre'][0], dtype=np.int16); ev.y_pred = np.array(c['pre'][1], dtype=np.int16)
    tr = Trainer(lin, sg)
    tr.compile(crit, optim.SGD(lin.parameters(), lr=0.1), ev)
    hist = tr.fit(tl, len(c['epochs']), validation_loader=vl)
    assert np.array_equal(lin.weight.data, np.eye(width, dtype=np.float32))
    return hist, rec, (len(ev.y_true) if ev is not None else 0)


def _exact(arrs):
    """float arrays -> integer rows on one common power-of-two scale (exact)"""
    fr = [[[Fraction(float(v)) for v in row] for row in a] for a in arrs]
    den = max([f.denominator for a in fr for row in a for f in row] + [1])
    return den, [[[int(f * den) for f in row] for row in a] for a in fr]


def _run_histreal(c):
    """real training; a wrapper around the criterion records every batch's loss, labels and outputs"""
    sg = common.impl()
    from synapgrad import nn, optim
    from synapgrad.nn.utils.train import Trainer, Evaluator
    mode, k = c['mode'], c['k']
    m_ = mode or 'multi-class'
    width = 1 if m_ == 'binary' else k
    F = 3
    st = np.random.get_state()
    np.random.seed(c['seed'] % (1 << 31))
    try:
        model = nn.Sequential(nn.Linear(F, 4), nn.ReLU(), nn.Linear(4, width))
        rs = np.random.RandomState(c['seed'] % (1 << 31))
        def mk(sizes):
            res = []
            for n in sizes:
                X = rs.randn(n, F).astype(np.float32)
                y = rs.randint(0, 2 if m_ == 'binary' else k, n)
                if m_ == 'binary': lab = sg.Tensor(y.astype(np.float32))
                elif m_ == 'categorical': lab = sg.Tensor(np.eye(k, dtype=np.float32)[y])
                else: lab = sg.Tensor(y, dtype=np.int8)
                res.append((sg.Tensor(X), lab))
            return res
        if c.get('dl'):
            from synapgrad.nn.utils.data import DataLoader
            class TF:
                def __call__(self, dl, X, y):
                    if m_ == 'binary': return sg.Tensor(X), sg.Tensor(y.astype(np.float32))
                    if m_ == 'categorical': return sg.Tensor(X), sg.Tensor(np.eye(k, dtype=np.float32)[y])
                    return sg.Tensor(X), sg.Tensor(y, dtype=np.int8)
            def mkdl(sizes):
                n = sum(sizes) + (1 if c['dl'] > 1 else 0)           # a leftover sample that is never seen
                return DataLoader(rs.randn(n, F).astype(np.float32), rs.randint(0, 2 if m_ == 'binary' else k, n), c['dl'], TF())
            tl = mkdl(c['train_sizes'])
            vl = mkdl(c['val_sizes']) if c['hasVal'] else None
        else:
            tl = _EpochLoader([mk(c['train_sizes']) for _ in range(c['E'])])
            vl = _EpochLoader([mk(c['val_sizes']) for _ in range(c['E'])]) if c['hasVal'] else None
        base = nn.BCEWithLogitsLoss() if m_ == 'binary' else (nn.MSELoss() if m_ == 'categorical' else nn.CrossEntropyLoss())
        rec = []
        def crit(out, lab):
            l = base(out, lab)
            rec.append({'val': not model.training, 'loss': l.data.copy(), 'out': out.data.copy().reshape(len(lab.data), -1),
                        'lab': lab.data.copy().reshape(len(lab.data), -1)})
            return l
        ev = None if mode is None else Evaluator(epoch_callback=_mk_cb(c['ecb']), accuracy=bool(c['acc']), mode=mode)
        tr = Trainer(model, sg)
        tr.compile(crit, optim.SGD(model.parameters(), lr=0.1, momentum=0.5), ev)
        hist = tr.fit(tl, c['E'], validation_loader=vl)
    finally:
        np.random.set_state(st)
    return hist, rec, (len(ev.y_true) if ev is not None else 0)


def _real_epochs(c, rec):
    """the recorded batches, grouped per epoch as the loaders produced them"""
    nt, nv = len(c['train_sizes']), (len(c['val_sizes']) if c['hasVal'] else 0)
    tr_, va_ = [r for r in rec if not r['val']], [r for r in rec if r['val']]
    return [{'train': tr_[e * nt:(e + 1) * nt], 'val': va_[e * nv:(e + 1) * nv]} for e in range(c['E'])]


def _loss_tol(values, nmax):
    """rounding slack of a sequential float sum of nmax terms and one division, in the dtype the losses have"""
    if not values:
        return Fraction(0)
    eps = max(float(np.finfo(np.asarray(v).dtype).eps) if isinstance(v, (np.ndarray, np.floating)) else 2.0 ** -52 for v in values)
    return Fraction((nmax + 2) * eps * max([abs(float(v)) for v in values] + [1e-30]))


def _run_testret(c):
    sg = common.impl()
    from synapgrad import nn
    from synapgrad.nn.utils.train import Trainer
    width = 1 if c['mode'] == 'binary' else c['k']
    lin = nn.Linear(width, width)
    lin.weight.data[...] = np.eye(width, dtype=np.float32); lin.bias.data[...] = 0
    loader = []
    for labels, scores in c['batches']:
        lab, o = _tensors(sg, c['mode'], c['k'], 1, labels, scores, 1)
        loader.append((o, lab))
    yp, yt = Trainer(lin, sg).test(loader)
    n = len(yt)
    if n == 0:
        assert len(yp) == 0
        return 'n=0 pred=_ true=_'
    yp, yt = np.asarray(yp).reshape(n, -1), np.asarray(yt).reshape(n, -1)
    assert len(yp) == n and np.all(yp == np.round(yp)) and np.all(yt == np.round(yt))
    return f'n={n} pred={_rows(yp.tolist())} true={_rows(yt.tolist())}'


def _vimpl(c):
    c['_tol'] = Fraction(0)
    if c['kind'] == 'ev':
        out, raw = _run_ev(c)
        return out
    if c['kind'] == 'testret':
        r = outcome(lambda: _run_testret(c))
        return [r]
    if c['kind'] == 'sess':
        outs, facts = _run_sess(c)
        losses = [np.float32(x[0][0] / x[0][1]) for op in c['ops'] if op[0] == 'fit' for e in op[3] for x in e['train'] + e['val']]
        c['_tol'] = _loss_tol(losses, 8)
        c['_facts'] = {'kept': facts['kept'], 'steps': all(f['raised'] or f['steps'] == want for f, want in zip(facts['fits'], _sess_steps(c)))}
        return outs
    if c['kind'] == 'hist':
        r = outcome(lambda: _run_hist(c))
        if r == 'rejected':
            return ['rejected']
        hist, rec, n = r
        c['_tol'] = _loss_tol([np.float32(v) for _, v, _ in rec], max([len(e['train']) + len(e['val']) for e in c['epochs']] + [1]))
        return [f'hist={_show_hist(hist)} n={n}']
    r = outcome(lambda: _run_histreal(c))
    if r == 'rejected':
        return ['rejected']
    hist, rec, n = r
    eps = _real_epochs(c, rec)
    scale, ints = _exact([r_['out'] for r_ in rec])
    byid = {id(r_): i for i, r_ in enumerate(rec)}
    def conv(r_):
        lf = Fraction(float(r_['loss']))
        return [[lf.numerator, lf.denominator], [[int(v) for v in row] for row in r_['lab']], ints[byid[id(r_)]]]
    c['lines'] = [_hist_line(c['mode'], scale, c['acc'], c['ecb'], None, c['hasVal'], None,
                             [{'train': [conv(r_) for r_ in e['train']], 'val': [conv(r_) for r_ in e['val']]} for e in eps])]
    c['desc'] = c['lines'][0][:600]
    c['_tol'] = _loss_tol([r_['loss'] for r_ in rec], max(len(c['train_sizes']), len(c['val_sizes'])))
    return [f'hist={_show_hist(hist)} n={n}']


# ---- comparison -----------------------------------------------------------------------------------
def _match_val(mtok, itok, tol):
    """one value of the model (`c/t` counts, `q<num>/<den>` exact rational, `cb<int>` / `cbi<int>`) against the
    implementation's (s/d/p<float repr>: float32 / float64 / Python float, i<int>)"""
    try:
        if mtok.startswith('q'):
            num, den = mtok[1:].split('/')
            v = float(itok[1:])
            return itok[0] in 'sdp' and math.isfinite(v) and abs(Fraction(v) - Fraction(int(num), int(den))) <= tol
        if mtok.startswith('cbi'):
            return itok == 'i' + mtok[3:]
        if mtok.startswith('cb'):
            return itok[0] in 'dp' and float(itok[1:]) == int(mtok[2:])
        c_, t_ = mtok.split('/')
        if itok[0] != 'd':
            return False
        v = float(itok[1:])
        if int(t_) == 0:
            return math.isnan(v)                     # 0 / 0 : NumPy's nan
        return v == int(c_) / int(t_)                # counts compared exactly: the correctly rounded quotient
    except Exception:
        return False


def _match_metrics(m, i, tol, sep):
    """`k=v,k=v` (sep None) or `k=v|v|v,…` (sep '|') : same keys in the same order, same number of values, values match"""
    if m == '_' or i == '_':
        return m == i
    mp, ip = [x.split('=', 1) for x in m.split(',')], [x.split('=', 1) for x in i.split(',')]
    if [x[0] for x in mp] != [x[0] for x in ip]:
        return False
    for (_, mv), (_, iv) in zip(mp, ip):
        mvs, ivs = (mv.split(sep), iv.split(sep)) if sep else ([mv], [iv])
        if len(mvs) != len(ivs) or not all(_match_val(a, b, tol) for a, b in zip(mvs, ivs)):
            return False
    return True


def _match_line(m, i, tol):
    if m == i:
        return True
    mf, jf = m.split(' '), i.split(' ')
    if len(mf) != 2 or len(jf) != 2 or mf[1] != jf[1]:          # n=<accumulated samples> exactly
        return False
    for key, sep in (('metrics=', None), ('hist=', '|')):
        if mf[0].startswith(key) and jf[0].startswith(key):
            return _match_metrics(mf[0][len(key):], jf[0][len(key):], tol, sep)
    return False


def _sess_steps(c):
    return [sum(len(e['train']) for e in op[3]) for op in c['ops'] if op[0] == 'fit']


def _vcompare(c, mo, io):
    tol = c.get('_tol', Fraction(0))
    d = [(k, m[:300], i[:300]) for k, (m, i) in enumerate(zip(mo, io)) if not _match_line(m, i, tol)]
    if c['kind'] == 'sess':
        fl = c.get('_facts', {})
        if fl.get('kept') is False:
            d.append(('kept', 'a history returned by an earlier call keeps its contents', 'changed by a later call'))
        if fl.get('steps') is False:
            d.append(('steps', 'every fit call makes epochs x batches optimizer steps', 'differs'))
    return d


def _vnontrivial(c):
    if c['kind'] == 'ev':
        return any(op[0] == 'step' and len(op[2]) >= 1 for op in c['ops'])
    if c['kind'] == 'hist':
        return all(e['train'] and (e['val'] or not c['hasVal']) for e in c['epochs'])
    if c['kind'] == 'histreal':
        return True
    if c['kind'] == 'sess':
        return sum(1 for op in c['ops'] if op[0] == 'fit' and op[3]) >= 2
    return len(c['batches']) > 0


# ---- the property judged on the implementation alone ------------------------------------------------
def _vfail(c, cls, what):
    cc = {k: v for k, v in c.items() if not k.startswith('_') and k not in ('lines', 'desc')}
    if c.get('large'):
        cc['epochs'] = 'regenerate: large epoch'          # too big for a replay file; the class is what matters
    return {'key': {'kind': c['kind'], 'class': cls, 'mode': c.get('mode')}, 'case': dict(cc, lines=[], desc=c.get('desc', '')[:300]), 'what': what}


def _check_metric_list(c, m, prefix, yt, yp, cbspec, where):
    """metrics returned by one step / compute against the definition: accuracy = fraction of positions where the decoded
    label equals the decoded prediction, then the callback's metrics, all prefixed"""
    keys = (['accuracy'] if c['acc'] else []) + _cb_names(cbspec)
    keys = [f'{prefix}_{k_}' for k_ in keys] if prefix is not None else keys
    if [k_ for k_, _ in m] != keys:
        return _vfail(c, 'keys', f'{where}: metric names {[k_ for k_, _ in m]}, expected {keys}')
    if c['acc']:
        v = float(m[0][1])
        correct = sum(1 for a, b in zip(yt, yp) if a == b)
        if len(yt) == 0:
            if not math.isnan(v):
                return _vfail(c, 'empty', f'{where}: accuracy over no samples is {v}')
        elif v != correct / len(yt):
            return _vfail(c, 'accuracy', f'{where}: accuracy {v}, but {correct} of {len(yt)} predictions are correct ({correct / len(yt)})')
    return None


def _oracle_ev(c):
    if c.get('wide'):
        return None
    out, raw = _run_ev(c)
    yt, yp = [], []
    for op, r in zip(c['ops'], raw[1:]):
        if op[0] == 'badstep':
            continue                      # shapes outside the property (one score column in an arg-max mode, …)
        if op[0] == 'step':
            if r == 'rejected':
                return _vfail(c, 'rejected', f'Evaluator.step raised on a batch of {len(op[2])} sample(s)')
            bt = [_py_true(c['mode'], l) for l in op[2]]
            bp = [_py_pred(c['mode'], c['scale'], s_) for s_ in op[3]]
            yt += bt; yp += bp
            f = _check_metric_list(c, r, op[1], bt, bp, c['scb'], 'step')
            if f: return f
        elif op[0] == 'compute':
            if r == 'rejected':
                return _vfail(c, 'rejected', 'Evaluator.compute raised')
            f = _check_metric_list(c, r, op[1], yt, yp, c['ecb'], f'compute after {len(yt)} accumulated samples')
            if f: return f
            yt, yp = [], []
        elif op[0] == 'reset':
            yt, yp = [], []
    return None


def _oracle_hist(c):
    real = c['kind'] == 'histreal'
    r = outcome(lambda: (_run_histreal if real else _run_hist)(c))
    names = _cb_names(c['ecb']) if c['mode'] is not None else []
    evkeys = ((['accuracy'] if c['acc'] else []) + names) if c['mode'] is not None else []
    keys = ['loss'] + evkeys + ((['val_loss'] + ['val_' + k_ for k_ in evkeys]) if c['hasVal'] else [])
    if len(set(keys)) != len(keys) or 'ilen' in (c['ecb'] or ''):
        return None        # the property speaks about callbacks whose metric names are their own and whose values are floats
    if real:
        legal = True
    else:
        legal = all(e['train'] and (e['val'] or not c['hasVal']) for e in c['epochs'])
    if r == 'rejected':
        return _vfail(c, 'rejected', 'fit raised on a legal configuration') if legal else None
    hist, rec, n = r
    if real:
        eps = [{'train': [(float(x['loss']), x) for x in e['train']], 'val': [(float(x['loss']), x) for x in e['val']]} for e in _real_epochs(c, rec)]
        tol = _loss_tol([x['loss'] for x in rec], max(len(c['train_sizes']), len(c['val_sizes'])))
        def decode(x):
            o, l = x['out'], x['lab']
            if c['mode'] == 'binary':
                return [int(v[0]) for v in l], [1 if float(v[0]) > 0.5 else 0 for v in o]
            yp_ = [list(map(float, row)).index(max(map(float, row))) for row in o]
            if c['mode'] == 'categorical':
                return [list(map(float, row)).index(max(map(float, row))) for row in l], yp_
            return [int(v[0]) for v in l], yp_
    else:
        it = iter(rec)
        eps = []
        for e in c['epochs']:
            eps.append({'train': [(next(it)[1], x) for x in e['train']], 'val': [(next(it)[1], x) for x in e['val']]})
        tol = _loss_tol([np.float32(v) for _, v, _ in rec], max([len(e['train']) + len(e['val']) for e in c['epochs']] + [1]))
        def decode(x):
            return [_py_true(c['mode'], l) for l in x[1]], [_py_pred(c['mode'], c['scale'], s_) for s_ in x[2]]
    E = len(eps)
    got = {k_: len(v) for k_, v in hist.items()}
    if E and (list(hist.keys()) != keys or any(v != E for v in got.values())):
        return _vfail(c, 'history', f'history entries {got}, expected one per epoch ({E}) for exactly {keys}')
    for e_i, e in enumerate(eps):
        for part, pre in (('train', ''), ('val', 'val_')):
            if part == 'val' and not c['hasVal']:
                continue
            ls = [Fraction(l) for l, _ in e[part]]
            mean = sum(ls) / len(ls)
            v = float(hist[pre + 'loss'][e_i])
            if not math.isfinite(v) or abs(Fraction(v) - mean) > tol:
                return _vfail(c, 'lossmean', f'epoch {e_i}: {pre}loss {v}, mean of the {len(ls)} batch losses {float(mean)}')
            if c['mode'] is not None and c['acc']:
                yt, yp = [], []
                if e_i == 0 and part == 'train' and c.get('pre'):
                    yt, yp = list(c['pre'][0]), list(c['pre'][1])     # what the evaluator had accumulated since its last compute / reset
                for _, x in e[part]:
                    a, b = decode(x)
                    yt += a; yp += b
                correct = sum(1 for a, b in zip(yt, yp) if a == b)
                v = float(hist[pre + 'accuracy'][e_i])
                if len(yt) and v != correct / len(yt):
                    return _vfail(c, 'accuracy', f'epoch {e_i}: {pre}accuracy {v}, but {correct} of the {len(yt)} predictions of the epoch are correct ({correct / len(yt)})')
    return None


def _oracle_sess(c):
    """the property on the implementation alone: every legal fit call returns, with exactly its own keys, one entry per epoch of
    THAT call, the epoch losses being the means of that call's batch losses (accuracy: the fraction of correct predictions, checked
    when the evaluator was known to be empty when the call started); epochs x batches optimizer steps; dictionaries returned earlier
    keep their contents"""
    outs, facts = _run_sess(c)
    trainers, state = {}, {}           # trainer -> evaluator index ; evaluator -> 'empty' | 'unknown'
    for ei in range(len(c['evs'])): state[ei] = 'empty'
    fi = 0
    tol = _loss_tol([np.float32(x[0][0] / x[0][1]) for op in c['ops'] if op[0] == 'fit' for e in op[3] for x in e['train'] + e['val']], 8)
    for oi, (op, out) in enumerate(zip(c['ops'], outs)):
        if op[0] in ('trainer', 'compile'):
            trainers[op[1]] = op[2]
        elif op[0] == 'ev':
            if op[2] in ('compute', 'reset'): state[op[1]] = 'empty'
            elif op[2] == 'step': state[op[1]] = 'unknown'
        elif op[0] == 'fit':
            rec = facts['fits'][fi]; fi += 1
            ei, hv, eps = trainers[op[1]], op[2], op[3]
            e_ = c['evs'][ei] if ei is not None else None
            evkeys = ((['accuracy'] if e_['acc'] else []) + _cb_names(e_['ecb'])) if e_ else []
            keys = ['loss'] + evkeys + ((['val_loss'] + ['val_' + k_ for k_ in evkeys]) if hv else [])
            legal = all(e['train'] and (e['val'] or not hv) for e in eps)
            started_empty = ei is None or state[ei] == 'empty'
            if ei is not None and (eps or rec['raised']):      # (a fit over no epochs does not touch the evaluator)
                state[ei] = 'empty' if (legal and not rec['raised']) else 'unknown'
            if len(set(keys)) != len(keys):
                continue               # a callback metric named like another metric: outside the property
            nth = f'fit call no. {fi} of the session (op {oi}, {len(eps)} epoch(s), {"with" if hv else "without"} validation loader, trainer {op[1]})'
            if rec['raised']:
                if legal: return _vfail(c, 'rejected', f'{nth} raised on a legal configuration')
                continue
            hist, E = rec['hist'], len(eps)
            got = {k_: len(v) for k_, v in hist.items()}
            if (E and list(hist.keys()) != keys) or any(v != E for v in got.values()) or (E == 0 and got):
                return _vfail(c, 'history', f'{nth} returned a history with entries {got}; expected exactly one per epoch of THIS call ({E}) for the keys {keys if E else []}')
            if rec['steps'] != sum(len(e['train']) for e in eps):
                return _vfail(c, 'steps', f"{nth} made {rec['steps']} optimizer steps for {[len(e['train']) for e in eps]} training batches per epoch")
            for e_i, e in enumerate(eps):
                for part, pre in (('train', ''), ('val', 'val_')):
                    if part == 'val' and not hv: continue
                    ls = [Fraction(x[0][0], x[0][1]) for x in e[part]]
                    v = float(hist[pre + 'loss'][e_i])
                    if not math.isfinite(v) or abs(Fraction(v) - sum(ls) / len(ls)) > tol:
                        return _vfail(c, 'lossmean', f'{nth}, epoch {e_i}: {pre}loss {v}, mean of the {len(ls)} batch losses of that epoch {float(sum(ls) / len(ls))}')
                    if e_ and e_['acc'] and (started_empty or e_i > 0 or part == 'val'):
                        yt = [_py_true(c['mode'], l) for x in e[part] for l in x[1]]
                        yp = [_py_pred(c['mode'], c['scale'], s_) for x in e[part] for s_ in x[2]]
                        correct = sum(1 for a, b in zip(yt, yp) if a == b)
                        v = float(hist[pre + 'accuracy'][e_i])
                        if v != correct / len(yt):
                            return _vfail(c, 'accuracy', f'{nth}, epoch {e_i}: {pre}accuracy {v}, but {correct} of the {len(yt)} predictions of the epoch are correct')
    if not facts['kept']:
        return _vfail(c, 'kept', 'a history dictionary returned by an earlier fit call was changed by a later call on the same objects')
    return None


def _voracle(c):
    if c['kind'] == 'hist' and c.get('epochs') == 'regenerate: large epoch':
        return None
    if c['kind'] == 'ev':
        return _oracle_ev(c)
    if c['kind'] in ('hist', 'histreal'):
        return _oracle_hist(c)
    if c['kind'] == 'sess':
        return _oracle_sess(c)
    r = outcome(lambda: _run_testret(c))
    if r == 'rejected':
        return _vfail(c, 'rejected', 'Trainer.test raised')
    n = sum(len(b[0]) for b in c['batches'])
    if not r.startswith(f'n={n} '):
        return _vfail(c, 'testret', f'Trainer.test returned {r.split(" ")[0]} for {n} samples')
    return None


def search(rng, tier):
    for c in cases(rng, 'quick'):
        f = oracle(c)
        if f:
            yield f


def matches_known(k, fail):
    return k.get('key') == fail.get('key')


def rerun_known(k):
    return oracle(k['witness']) is not None


def replay(fail):
    f = oracle(fail['case'])
    return {'fails': f is not None, 'now': f}
