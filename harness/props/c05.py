"""C05 — forward semantics of tensor ops and constructors (NumPy / PyTorch definitions)"""
import numpy as np
import common
from common import show_floats, show_ints, fbits
import tprog, gen_dag, gen_ops, views

tprog.ENTRIES = True        # function / Tensor method / operator / nn layer class
tprog.SPELLINGS = True
tprog.LAYOUTS = True      # leaves are handed over in C / Fortran / strided / negative-stride / offset / transposed layouts
PROP = 'C05'
LEAN_TARGETS = ['Props.C05']
REQUIRED_THEOREMS = ['Props.C05.flatten_spec', 'Props.C05.unfold_dim_spec', 'Props.C05.sum_spec', 'Props.C05.matmul_spec',
                     'Props.C05.iteration_protocol', 'Props.C05.ctor_shape_forms', 'Props.C05.operator_forms', 'Props.C05.transpose_spec', 'Props.C05.movedim_spec', 'Props.C05.reshape_spec', 'Props.C05.concat_spec', 'Props.C05.stack_spec', 'Props.C05.unbind_spec', 'Props.C05.index_spec', 'Props.C05.mul_spec', 'Props.C05.mean_spec', 'Props.C05.max_spec', 'Props.C05.squeeze_many_spec', 'Props.C05.unsqueeze_spec']
REQUIRED_THEOREMS += ['Props.C05.' + t for t in ['src_calls_transpose', 'src_calls_movedim', 'src_calls_reshape', 'src_calls_unsqueeze', 'src_calls_matmul', 'src_calls_addmm_forward', 'src_calls_sum_forward', 'src_calls_concat_forward', 'src_calls_stack', 'src_calls_unbind_forward', 'src_calls_slice', 'src_forward_add', 'src_forward_mul', 'src_forward_neg', 'src_forward_exp', 'src_forward_log', 'src_forward_sqrt', 'src_forward_pow', 'src_forward_pow_formula', 'src_forward_rpow']]   # ties to the source read on this run
REQUIRED_THEOREMS += ['Props.C05.' + t for t in ['arange_forms', 'arange_explicit_end_zero', 'arange_negative_interval', 'arange_count_down', 'opt_given_is_kept', 'ctor_empty_shape_vs_zero_extent']]   # constructor calls (SynapModel/Ctors.lean)
RULE = ('forward of every tensor op on operand ranks 0-5 over the whole argument space (same generators as C01 with rank <= 5, plus '
        '~10 % malformed arguments: accept/reject must agree); operator and reflected-operator forms with Python scalars on float64 '
        'and float32 tensors; constructors in their three shape spellings, eye, arange, *_like; several simultaneous and nested '
        'iterations over one tensor. CONSTRUCTOR CALLS (`t mk`, SynapModel/Ctors.lean): zeros / ones / empty / rand / randn / eye / arange / normal / '
        'randint / zeros_like / ones_like / tensor() / Tensor() with every argument position taking falsy-but-meaningful values (0, 0.0, -0.0, '
        'False, (), [], zero extents, scale 0, end 0), one- / two- / three-argument arange over negative, reversed and float intervals '
        '(plus the complete small grid around zero), positional / keyword / mixed spellings, dtype= and requires_grad= omitted / None / '
        'given: value, shape, dtype, flags and accept / reject against the model; random constructors: shape, dtype and the range of the '
        'values. NON-CONTIGUOUS INTERIOR OPERANDS: every op (flatten most often, whole-tensor and partial ranges) applied to the result of '
        'transpose / movedim / stepped or reversed slices / elementwise ops on those (harness/views.py). The failing-input search compares with a direct NumPy evaluation. Non-trivial: accepted call '
        'with a result of > 1 element, or an iteration with >= 2 live iterators.')
EXHAUSTIVE = {'quick': False, 'thorough': False}
ASSUMPTIONS = ['float64 values except in the dtype-specific cases; rel 1e-9']
TRUSTED_BASE = ['harness/tprog.py, harness/gen_ops.py, harness/views.py']
TRUSTED_BASE = TRUSTED_BASE + ['harness/array_formulas.py + lean/SynapModel/NpCalls.lean (reading of the array kernels as compositions of NumPy calls, Generated/KernelCalls.lean; what each NumPy function does is the hand-written array model)']


def op_case(rng, op):
    malformed = rng.chance(0.1)
    save = gen_ops.rshape
    # ranks up to 5 for this property
    gen_ops.rshape = lambda r, rmin=0, rmax=4, smax=3: save(r, rmin, min(rmax + 1, 5), smax if rmax < 4 else 2)
    try:
        leaves, args = gen_ops.gen_basic(rng, op, malformed)
    finally:
        gen_ops.rshape = save
    c = {'kind': 'op', 'op': op, 'leaves': [(s, d, False) for s, d, _ in leaves], 'args': args, 'malformed': malformed}
    lines = gen_ops.program(c, rng)
    nl = len(leaves)
    c['lines'] = lines + [f't val {nl}', f't val {nl + 1}', f't val {nl + 2}']
    return c


def chain_case(rng, op, kinds=None):
    """the op applied to INTERIOR tensors whose buffer is not C-contiguous: one or all operands are the result of a transpose / movedim
    (optionally followed by elementwise ops), of a stepped / reversed slice, or of both (harness/views.py); the model sees arrays,
    the implementation strided views. `leaves` keeps the logical operand values (what the NumPy oracle evaluates)."""
    save = gen_ops.rshape
    gen_ops.rshape = lambda r, rmin=0, rmax=4, smax=3: save(r, rmin, min(rmax + 1, 5), smax if rmax < 4 else 2)
    try:
        for _ in range(20):
            leaves, args = gen_ops.gen_basic(rng, op, False)
            if op != 'flatten' or rng.chance(.5): break
            if len(leaves[0][0]) >= 2 and sum(n > 1 for n in leaves[0][0]) >= 2:       # flatten: mostly operands where a permuted buffer differs, the whole tensor half of the time
                if rng.chance(.5): args = [rng.pick([0, -len(leaves[0][0])]), rng.pick([-1, len(leaves[0][0]) - 1])]
                break
    finally:
        gen_ops.rshape = save
    lines, ids, kinds_used = [], [], []
    which = [k for k, lf in enumerate(leaves) if len(lf[0]) >= 1]
    chosen = set(which if rng.chance(.4) else rng.sample(which, 1) if which else [])
    n = 0
    for k, (sh, data, _) in enumerate(leaves):
        plan = views.view_plan(rng, sh, data, kinds) if k in chosen else None
        lsh, ldata = (plan[0], plan[1]) if plan else (sh, data)
        lines.append(gen_dag.leaf_line(lsh, ldata, False)); cur = n; n += 1
        for name, a in (plan[2] if plan else []):
            lines.append(' '.join(['t op', name, str(cur)] + [str(q) for q in a])); cur = n; n += 1
        if plan: kinds_used.append(plan[3])
        ids.append(cur)
    opline = len(lines)
    lines.append(' '.join(['t op', op, show_ints(ids)] + [str(a) for a in args]))
    c = {'kind': 'op', 'op': op, 'leaves': [(s_, d_, False) for s_, d_, _ in leaves], 'args': args, 'malformed': False, 'opline': opline, 'first_out': n,
         'chain': kinds_used, 'lines': lines + [f't val {n}', f't val {n + 1}', f't val {n + 2}']}
    return c


def sop_case(rng):
    dt = rng.pick(['f64', 'f64', 'f32'])
    sh = gen_ops.rshape(rng, 0, 3)
    data = gen_ops.vals(rng, sh, 'pos')
    kind = rng.pick(['add', 'mul', 'neg', 'sub', 'rsub', 'div', 'rdiv'])
    lines = [gen_dag.leaf_line(sh, data, True, dt)]
    if kind in ('sub', 'div') and rng.chance(.5):
        sh2 = gen_ops.bcast_operand(rng, sh)
        lines.append(gen_dag.leaf_line(sh2, gen_ops.vals(rng, sh2, 'pos'), True, dt))
        b = 't1'
    else:
        b = 's' + str(fbits(rng.pick([3.0, 0.1, -2.5, 7.0, 1.0 / 3, 2.0])))
    lines.append(f't sop {kind} 0 {b}')
    c = {'kind': 'sop', 'dt': dt, 'lines': lines, 'malformed': False}
    c['lines'] = lines + ['t val 2', 't val 3', 't val 4', 't val 5', 't dtype 2', 't dtype 3', 't dtype 4']
    return c


def iter_case(rng):
    n, m = rng.randint(1, 4), rng.randint(1, 3)
    sh = rng.pick([(n,), (n, m), (n, m, 2), ()])
    data = gen_dag.rand_data(rng, sh)
    lines = [gen_dag.leaf_line(sh, data, rng.chance(.5))]
    nit = rng.randint(1, 3)
    for _ in range(nit):
        lines.append('t iter new 0')
    created = 1
    for _ in range(rng.randint(3, 14)):
        lines.append(f't iter next {rng.randrange(nit)}')
    lines += [f't val {k}' for k in range(1, 10)]
    return {'kind': 'iter', 'nit': nit, 'lines': lines, 'malformed': False}


def ctor_case(rng):
    dims = [rng.randint(0, 3) for _ in range(rng.randint(0, 3))]
    r = rng.random()
    if r < .5:
        lines = [f"t ctor {rng.pick(['zeros', 'ones'])} {rng.pick(['v', 't', 'l'])} {show_ints(dims)}"]
    elif r < .65:
        lines = [f't eye {rng.randint(0, 4)}']
    elif r < .85:
        a = rng.randint(-3, 3)
        lines = [f"t arange {a} {a + rng.randint(-4, 6)} {rng.pick([1, 2, -1, 3])}"]
    else:
        lines = [gen_dag.leaf_line(tuple(dims) or (2,), gen_dag.rand_data(rng, tuple(dims) or (2,)), False, rng.pick(['f32', 'f64'])), f"t ctor like {rng.randint(0, 1)} 0"]
    k = len(lines) - 1
    return {'kind': 'ctor', 'lines': lines + [f't val {k}', f't dtype {k}', f't flags {k}'], 'malformed': False}


# ---- constructor CALLS: every argument position, falsy-but-meaningful values, every spelling ---------------------------
# `t mk <kind> <spelling> <A> <B> <dtype> <requires_grad>` (lean/SynapModel/Ctors.lean, Drv/Ctors.lean).  Numbers are `i<int>`
# (a Python int) or `f<bits>` (a Python float); <dtype> / <requires_grad> are `-` (omitted), `none` (dtype=None) or a value.
def _num(x):
    return f'i{x}' if isinstance(x, int) and not isinstance(x, bool) else f'f{fbits(x)}'


def _pynum(tok):
    return int(tok[1:]) if tok[0] == 'i' else common.bitsf(tok[1:])


_NUMS = [0, 0, 0.0, -0.0, 1, -1, 2, 3, -3, 5, -4, 0.5, -0.5, 1.5, 2.5, -2.5, 0.25, 0.1, 0.3, 0.7, 4]
_STEPS = [1, 1, -1, -1, 2, 3, -2, 0.5, -0.5, 0.25, 1.5, 0.1, -0.3, 0.7, 0, 0.0, -0.0]


def mk_line(kind, sp, A, B='_', dt='-', rg='-'):
    return f't mk {kind} {sp} {A} {B} {dt} {rg}'


def _mk_finish(lines, falsy, kind):
    k = len(lines) - 1
    return {'kind': 'mk', 'mk': kind, 'dt': 'f32', 'falsy': falsy, 'malformed': False,
            'lines': lines + [f't val {k}', f't dtype {k}', f't flags {k}']}


def _opt_kw(rng, dts=('-', '-', '-', 'none', 'f32', 'f64'), rgs=('-', '-', '-', '0', '0', '1')):
    return rng.pick(list(dts)), rng.pick(list(rgs))


def mk_arange(rng, args=None, sp=None):
    if args is None:
        n = rng.pick([1, 2, 2, 3, 3, 3])
        z = lambda pool: 0 if rng.chance(.3) else rng.pick(pool)       # a zero in every position, often
        if n == 1: args = [z(_NUMS)]
        else:
            a, b = z(_NUMS), z(_NUMS)
            if rng.chance(.3): b = rng.pick([0, 0.0, -0.0])             # an explicit end of zero: negative interval, count-down, empty range
            args = [a, b] + ([rng.pick(_STEPS)] if n == 3 else [])
            if n == 3 and rng.chance(.5) and args[2] not in (0, 0.0) and (b - a) * args[2] < 0: args[2] = -args[2]      # mostly non-empty
    sp = sp or rng.pick(['p', 'p', 'k', 'm'])
    dt, rg = _opt_kw(rng)
    falsy = any(v == 0 for v in args)
    c = _mk_finish([mk_line('arange', sp, ','.join(_num(v) for v in args), '_', dt, rg)], falsy, 'arange')
    # NumPy fills a float32 arange as first + k * (second - first) in float32: the rounding of the step is carried k times
    st = args[2] if len(args) == 3 else 1
    n = abs((args[1] - args[0]) / st) if len(args) > 1 and st else abs(args[0])
    c['rtol'] = 1e-6 + 3e-7 * n
    return c


def mk_shape(rng):
    kind = rng.pick(['zeros', 'ones', 'empty', 'rand', 'randn', 'rand', 'randn'])
    dims = [rng.pick([0, 0, 1, 2, 3]) for _ in range(rng.pick([0, 0, 1, 1, 2, 3]))]
    if rng.chance(.06) and dims: dims[rng.randrange(len(dims))] = -1          # rejected by NumPy
    dt, rg = _opt_kw(rng, dts=('-', '-', 'none', 'f32', 'f64', 'i32') if kind in ('zeros', 'ones') else ('-', '-', 'none', 'f64'))
    return _mk_finish([mk_line(kind, rng.pick(['v', 't', 'l']), show_ints(dims), '_', dt, rg)], not dims or 0 in dims, kind)


def mk_eye(rng):
    n = rng.pick([0, 0, 1, 2, 3, -1])
    dt, rg = _opt_kw(rng, dts=('-', '-', 'none', 'f64', 'i64'))
    return _mk_finish([mk_line('eye', rng.pick(['p', 'k', 'pd']), str(n), '_', dt, rg)], n == 0, 'eye')


def mk_normal(rng):
    loc = rng.pick([0, 0.0, -0.0, 1.5, 2, -2.5, 0.25])
    scale = rng.pick([0, 0, 0.0, 0.0, -0.0, 1, 0.5, 2.0, -1, -0.5])       # scale 0: a point mass at loc; a set sign bit is rejected
    dims = [rng.pick([0, 1, 2, 3]) for _ in range(rng.pick([0, 1, 1, 2]))]
    if rng.chance(.05) and dims: dims[0] = -1
    dt, rg = _opt_kw(rng, dts=('-', '-', 'none', 'f64'))
    return _mk_finish([mk_line('normal', 'p', show_ints(dims), f'{_num(loc)},{_num(scale)}', dt, rg)], True, 'normal')


def mk_randint(rng):
    low, high = rng.pick([(0, 1), (-3, 0), (0, 3), (-1, 0), (0, 0), (2, 1), (-2, -1), (-2, 2), (0, 2), (1, 0), (-4, 0)])
    dims = [rng.pick([0, 1, 2, 3]) for _ in range(rng.pick([0, 0, 1, 1, 2]))]
    dt, rg = _opt_kw(rng, dts=('-', '-', 'none', 'i64', 'f32'), rgs=('-', '-', '0', '1'))
    return _mk_finish([mk_line('randint', rng.pick(['t', 'l', 'tk', 'lk']), show_ints(dims), f'{low},{high}', dt, rg)], True, 'randint')


def mk_like(rng):
    sh = rng.pick([(), (), (1,), (2,), (0,), (2, 0), (0, 3), (2, 3), (1, 1, 2)])
    sdt = rng.pick(['f32', 'f64', 'f64', 'i64', 'i32'])
    n = int(np.prod(sh)) if sh else 1
    data = [float(rng.randint(-3, 3)) for _ in range(n)]
    dt, rg = _opt_kw(rng, dts=('-', '-', 'none', 'f32', 'f64', 'i64'))
    lines = [gen_dag.leaf_line(sh, data, sdt in ('f32', 'f64') and rng.chance(.3), sdt), mk_line(rng.pick(['like0', 'like1']), rng.pick(['p', 'k', 'pd']), '0', '_', dt, rg)]
    return _mk_finish(lines, sh == () or 0 in sh, 'like')


def mk_data(rng):
    entry = rng.pick(['f', 'T'])
    pk = rng.pick(['int', 'float', 'bool', 'list', 'tuple', 'ilist', 'blist', 'ndf64', 'ndf32', 'ndi64', 'npf64', 'npf32', 'npi64'])
    scalar = pk in ('int', 'float', 'bool', 'npf64', 'npf32', 'npi64')
    integral = pk in ('int', 'bool', 'ilist', 'blist', 'ndi64', 'npi64')
    if scalar: sh = ()
    elif pk.startswith('nd'): sh = rng.pick([(), (0,), (1,), (2,), (0, 2), (2, 0), (2, 2)])
    else: sh = rng.pick([(0,), (0,), (1,), (2,), (1, 0), (2, 0), (2, 2), (1, 2, 0)])        # a nested list / tuple spells a zero extent only in last place
    n = int(np.prod(sh)) if sh else 1
    if pk in ('bool', 'blist'): vals = [float(rng.randint(0, 1)) for _ in range(n)]
    elif integral: vals = [float(rng.pick([0, 0, 1, -2, 3])) for _ in range(n)]
    else: vals = [rng.pick([0.0, 0.0, -0.0, 2.75, -2.75, 0.5, 1.0, -1.0]) for _ in range(n)]
    dt, rg = _opt_kw(rng, dts=('-', '-', 'none', 'f32', 'f64', 'i32', 'i64'))
    sp = f'{entry}:{pk}' + (':k' if rng.chance(.25) else '')
    return _mk_finish([mk_line('data', sp, show_ints(sh), show_floats(vals), dt, rg)], all(v == 0 for v in vals), 'data')


def mk_case(rng):
    return rng.pick([mk_arange, mk_arange, mk_arange, mk_shape, mk_shape, mk_eye, mk_normal, mk_randint, mk_like, mk_data, mk_data])(rng)


def mk_enumerated(rng, tier):
    """the complete small grid of arange calls around zero, in every spelling"""
    pts = [-2, 0, 3] if tier == 'quick' else [-2, -1, 0, 0.0, 1.5, 3]
    steps = [1, -1, 2] if tier == 'quick' else [1, -1, 2, 0.5, -0.5, 0]
    out = []
    for k, a in enumerate(pts):
        out.append(mk_arange(rng, [a], 'pk'[k % 2]))
        for j, b in enumerate(pts):
            out.append(mk_arange(rng, [a, b], 'pkm'[(k + j) % 3]))
            for i, st in enumerate(steps):
                out.append(mk_arange(rng, [a, b, st], 'pkm'[(k + j + i) % 3]))
    for c in out: c['enumerated_mk'] = True
    return out


class CtorImpl(tprog.Impl):
    """tprog.Impl plus the `t mk` line: the call is WRITTEN as its spelling says (keywords, positional dtype, varargs / tuple / list,
    Python int / float / bool, nested lists, NumPy arrays and scalars).  A spelling the constructor rejects is not part of its
    documented argument space: the call is then judged on the plain positional spelling."""
    def run(self, line):
        t = line.split(' ')
        if t[1] == 'mk':
            return self.mk(*t[2:])
        return super().run(line)

    def mk(self, kind, sp, A, B, dt, rg):
        sg = self.sg
        kw = {}
        if dt != '-': kw['dtype'] = None if dt == 'none' else tprog.DT[dt]
        if rg != '-': kw['requires_grad'] = bool(int(rg))
        pred = None
        determined = True
        if kind in ('zeros', 'ones', 'empty', 'rand', 'randn'):
            dims = common.parse_ints(A)
            f = getattr(sg, kind)
            args = tuple(dims) if sp == 'v' else (tuple(dims),) if sp == 't' else (list(dims),)
            calls = [lambda: f(*args, **kw)]
            determined = kind in ('zeros', 'ones')
            pred = {'rand': lambda a: bool(np.all((a >= 0) & (a < 1))), 'randn': lambda a: bool(np.all(np.isfinite(a)))}.get(kind)
        elif kind == 'eye':
            n = int(A)
            kwd = dict(kw); d = kwd.pop('dtype', None)
            calls = [lambda: sg.eye(n, **kw)]
            if sp == 'k': calls.insert(0, lambda: sg.eye(dim=n, **kw))
            if sp == 'pd' and 'dtype' in kw: calls.insert(0, lambda: sg.eye(n, d, **kwd))
        elif kind == 'arange':
            a = [_pynum(x) for x in A.split(',')]
            calls = [lambda: sg.arange(*a, **kw)]
            names = ['start', 'end', 'step']
            if sp == 'k':
                ka = {'end': a[0]} if len(a) == 1 else dict(zip(names, a))
                calls.insert(0, lambda: sg.arange(**ka, **kw))
            if sp == 'm' and len(a) > 1:
                ka = dict(zip(names[1:], a[1:])) if len(a) == 2 else {'step': a[2]}
                pa = a[:1] if len(a) == 2 else a[:2]
                calls.insert(0, lambda: sg.arange(*pa, **ka, **kw))
        elif kind == 'normal':
            dims = common.parse_ints(A)
            loc, scale = [_pynum(x) for x in B.split(',')]
            calls = [lambda: sg.normal(loc, scale, *dims, **kw)]
            determined = scale == 0
            pred = lambda a: bool(np.all(np.isfinite(a)))
        elif kind == 'randint':
            dims = common.parse_ints(A)
            low, high = common.parse_ints(B)
            shp = tuple(dims) if sp[0] == 't' else list(dims)
            calls = [lambda: sg.randint(low, high, shp, **kw)]
            if sp.endswith('k'): calls.insert(0, lambda: sg.randint(low=low, high=high, shape=shp, **kw))
            determined = high == low + 1
            pred = lambda a: bool(np.all((a >= low) & (a < high)))
        elif kind in ('like0', 'like1'):
            x = self.ts[int(A)]
            f = sg.ones_like if kind == 'like1' else sg.zeros_like
            kwd = dict(kw); d = kwd.pop('dtype', None)
            calls = [lambda: f(x, **kw)]
            if sp == 'k': calls.insert(0, lambda: f(tensor=x, **kw))
            if sp == 'pd' and 'dtype' in kw: calls.insert(0, lambda: f(x, d, **kwd))
        elif kind == 'data':
            parts = sp.split(':')
            entry, pk = parts[0], parts[1]
            shape = tuple(common.parse_ints(A))
            arr = np.array(common.parse_floats(B), dtype=np.float64).reshape(shape)
            def tup(v): return tuple(tup(q) for q in v) if isinstance(v, list) else v
            obj = {'int': lambda: int(arr), 'float': lambda: float(arr), 'bool': lambda: bool(arr), 'list': lambda: arr.tolist(), 'tuple': lambda: tup(arr.tolist()),
                   'ilist': lambda: arr.astype(np.int64).tolist(), 'blist': lambda: arr.astype(bool).tolist(),
                   'ndf64': lambda: arr.copy(), 'ndf32': lambda: arr.astype(np.float32), 'ndi64': lambda: arr.astype(np.int64),
                   'npf64': lambda: np.float64(arr), 'npf32': lambda: np.float32(arr), 'npi64': lambda: np.int64(arr)}[pk]()
            f = sg.tensor if entry == 'f' else sg.Tensor
            calls = [lambda: f(obj, **kw)]
            if len(parts) > 2: calls.insert(0, lambda: f(data=obj, **kw))
        else:
            raise KeyError(kind)
        r = None
        for k, call in enumerate(calls):
            try:
                r = call(); break
            except Exception:
                if k == len(calls) - 1: raise
        if determined:
            self.ts.append(r); return f't{len(self.ts) - 1}'
        ans = f'r {show_ints(r.shape)} {tprog.DTN.get(r.data.dtype, str(r.data.dtype))} rg={int(bool(r.requires_grad))}'
        if pred is not None and not pred(r.data): ans += ' values-outside-the-distribution'
        return ans


def _mk_reference(c):
    """what the call must answer, from NumPy directly (no model): ('rejected',) or (shape, values-or-None, dtype, requires_grad)"""
    ln = [l for l in c['lines'] if l.startswith('t mk')][0].split(' ')
    kind, sp, A, B, dt, rg = ln[2:]
    own, vals = np.float32, None
    if kind in ('zeros', 'ones', 'empty', 'rand', 'randn'):
        dims = common.parse_ints(A)
        if kind in ('rand', 'randn') and not dims: return ('rejected',)       # np.random.rand() is a Python float
        vals = np.zeros(dims) if kind != 'ones' else np.ones(dims)
        if kind not in ('zeros', 'ones'): vals = (vals.shape,)
    elif kind == 'eye': vals = np.eye(int(A))
    elif kind == 'arange': vals = np.arange(*[_pynum(x) for x in A.split(',')], dtype=np.float64)
    elif kind == 'normal':
        loc, scale = [_pynum(x) for x in B.split(',')]
        if np.signbit(scale): return ('rejected',)
        vals = np.full(common.parse_ints(A), float(loc))
        if scale != 0: vals = (vals.shape,)
    elif kind == 'randint':
        low, high = common.parse_ints(B)
        vals = np.full(common.parse_ints(A), float(low)); own = np.int32
        if low >= high and vals.size: return ('rejected',)       # (NumPy checks the bounds only when a value is drawn)
        if high != low + 1: vals = (vals.shape,)
    elif kind in ('like0', 'like1'):
        l0 = c['lines'][0].split(' ')
        vals = np.full(tuple(common.parse_ints(l0[3])), float(kind == 'like1')); own = tprog.DT[l0[2]]
    elif kind == 'data':
        pk = sp.split(':')[1]
        vals = np.array(common.parse_floats(B), dtype=np.float64).reshape(tuple(common.parse_ints(A)))
        if sp[0] == 'T' and pk[:2] in ('nd', 'np'): own = tprog.DT[pk[2:]]
    d = np.dtype(own if dt in ('-', 'none') else tprog.DT[dt])
    want_rg = rg == '1'
    if want_rg and d.kind != 'f': return ('rejected',)
    if isinstance(vals, tuple): return (vals[0], None, d, want_rg)
    return (vals.shape, vals.astype(d).astype(np.float64), d, want_rg)


def _oracle_mk(c):
    io = tprog.run_program(c['lines'], CtorImpl)
    k = [i for i, l in enumerate(c['lines']) if l.startswith('t mk')][0]
    call = c['lines'][k]
    key = {'kind': 'mk', 'ctor': c['mk']}
    try:
        with np.errstate(all='ignore'):
            ref = _mk_reference(c)
    except Exception:
        ref = ('rejected',)
    got = io[k]
    if ref == ('rejected',):
        if got != 'rejected':
            return {'key': dict(key, cls='accepted-illegal'), 'case': c, 'what': f'`{call}` was answered ({got}, {io[k + 1:]}) although NumPy rejects these arguments'}
        return None
    shape, vals, d, want_rg = ref
    if got == 'rejected':
        return {'key': dict(key, cls='spurious-rejection'), 'case': c, 'what': f'`{call}` raised; the arguments are legal (expected shape {tuple(shape)}, dtype {d})'}
    if got.startswith('r '):
        if vals is not None or got != f'r {show_ints(shape)} {tprog.DTN.get(d, str(d))} rg={int(want_rg)}':
            return {'key': dict(key, cls='random-result'), 'case': c, 'what': f'`{call}` answered {got}; expected shape {tuple(shape)}, dtype {d}, requires_grad {want_rg}, values inside the distribution'}
        return None
    v, dts, fl = io[k + 1], io[k + 2], io[k + 3]
    arr = tprog.parse_arr(v) if '|' in v else None
    if vals is None or arr is None or arr.shape != tuple(shape) or not np.allclose(arr, vals, rtol=c.get('rtol', 1e-6), atol=c.get('rtol', 1e-6) * max(1.0, float(np.max(np.abs(vals))) if vals.size else 1.0), equal_nan=True):
        return {'key': dict(key, cls='value'), 'case': c, 'what': f'`{call}`: result {None if arr is None else arr.tolist()} (shape {None if arr is None else arr.shape}); the definition gives {None if vals is None else vals.tolist()} (shape {tuple(shape)})'}
    if dts != tprog.DTN.get(d, str(d)):
        return {'key': dict(key, cls='dtype'), 'case': c, 'what': f'`{call}`: dtype {dts}, expected {d}'}
    if f'rg={int(want_rg)} ' not in fl:
        return {'key': dict(key, cls='flags'), 'case': c, 'what': f'`{call}`: flags {fl}, expected requires_grad={want_rg}'}
    return None


def extract():
    """which NumPy calls the array kernels make is re-read from cpu_ops.py (Generated/KernelCalls.lean); the src_calls_* theorems are re-checked by the build"""
    import array_formulas, formulas
    return array_formulas.write()[0] + formulas.write()[0]


def cases(rng, tier):
    out = []
    per = 40 if tier == 'quick' else 400
    for op in gen_ops.OPS_BASIC:
        for _ in range(per):
            out.append(op_case(rng, op))
    # EXHAUSTIVE sub-family: the complete discrete argument space of the reducing / shape ops on small operands
    for op, leaves, args in gen_ops.enumerate_basic(rng, tier):
        c = {'kind': 'op', 'op': op, 'leaves': [(s_, d_, False) for s_, d_, _ in leaves], 'args': args, 'malformed': False, 'enumerated': True}
        nl = len(leaves)
        c['lines'] = gen_ops.program(c, rng) + [f't val {nl}', f't val {nl + 1}', f't val {nl + 2}']
        out.append(c)
    # every op on operands that are non-contiguous interior results (transpose / movedim / stepped or reversed slice / elementwise on those)
    for op in gen_ops.OPS_BASIC:
        for _ in range((40 if op == 'flatten' else 10 if op in ('reshape', 'sum', 'mean', 'max', 'min', 'unbind', 'stack', 'concat', 'slice', 'unfold_dim', 'matmul', 'addmm', 'clone') else 4) if tier == 'quick' else 200):
            out.append(chain_case(rng, op))
    for kind in sorted(set(views.VIEW_KINDS)):
        for _ in range(3 if tier == 'quick' else 30):
            out.append(chain_case(rng, 'flatten', [kind]))
    for _ in range(60 if tier == 'quick' else 1500):
        out.append(sop_case(rng))
    for _ in range(40 if tier == 'quick' else 1000):
        out.append(iter_case(rng))
    for _ in range(40 if tier == 'quick' else 1000):
        out.append(ctor_case(rng))
    # constructor CALLS with every argument position: falsy-but-meaningful values (0, 0.0, -0.0, False, (), []), zero extents,
    # negative / reversed / float intervals, keyword / positional spellings, dtype= / requires_grad= omitted, None or given
    for _ in range(260 if tier == 'quick' else 6000):
        out.append(mk_case(rng))
    out += mk_enumerated(rng, tier)
    # corpus: nested loops over one tensor; x64 / 3
    out.append({'kind': 'iter', 'nit': 2, 'malformed': False, 'lines': [gen_dag.leaf_line((3, 2), [1., 2, 3, 4, 5, 6], False), 't iter new 0', 't iter next 0', 't iter new 0',
                't iter next 1', 't iter next 1', 't iter next 1', 't iter next 1', 't iter next 0', 't iter next 0', 't iter next 0'] + [f't val {k}' for k in range(1, 7)]})
    out.append({'kind': 'sop', 'dt': 'f64', 'malformed': False, 'lines': [gen_dag.leaf_line((2,), [1., 2.], False), f't sop div 0 s{fbits(3.0)}', 't val 2', 't dtype 2']})
    for c in out:
        c['desc'] = ' ; '.join(c['lines'])[:600]
    return out


def impl(c):
    io = tprog.run_program(c['lines'], CtorImpl if c['kind'] == 'mk' else tprog.Impl)
    return io


def compare(c, mo, io):
    # queries beyond the created tensors answer bad-op (model) / rejected (impl): both mean "no such tensor"
    diffs = []
    for k, (m, i) in enumerate(zip(mo, io)):
        if m == 'bad-op' and i == 'rejected' and c['lines'][k].startswith(tprog.QUERIES + ('t iter next',)): continue   # no such tensor / iterator
        if not tprog.close_line(m, i, c.get('rtol', 1e-6 if c.get('dt') == 'f32' else 1e-9)):
            diffs.append((c['lines'][k], m[:200], str(i)[:200]))
    return diffs[:3]


def nontrivial(c):
    return not c['malformed']


def distribution(cases):
    d = {}
    for c in cases:
        k = c['kind'] + (':' + c['op'] if 'op' in c else '') + (':' + c['mk'] if 'mk' in c else '')
        d[k] = d.get(k, 0) + 1
        if c.get('falsy'): d['mk: a falsy-but-meaningful argument value (0, 0.0, -0.0, False, (), [], zero extent)'] = d.get('mk: a falsy-but-meaningful argument value (0, 0.0, -0.0, False, (), [], zero extent)', 0) + 1
        if c.get('enumerated_mk'): d['mk: arange grid around zero, every spelling'] = d.get('mk: arange grid around zero, every spelling', 0) + 1
        if c['kind'] == 'mk':
            sp = 'mk spelling: ' + [l for l in c['lines'] if l.startswith('t mk')][0].split(' ')[3].split(':')[0]
            d[sp] = d.get(sp, 0) + 1
        for v in c.get('chain', []): d[f'op on a non-contiguous interior operand: {v}'] = d.get(f'op on a non-contiguous interior operand: {v}', 0) + 1
        if c.get('chain') and c.get('op') == 'flatten': d['flatten on a non-contiguous interior operand'] = d.get('flatten on a non-contiguous interior operand', 0) + 1
        if c.get('enumerated'): d['enumerated: complete argument space of the reducing / shape ops on small operands'] = d.get('enumerated: complete argument space of the reducing / shape ops on small operands', 0) + 1
    return d


# ---- oracle: direct NumPy evaluation of the definition the op mirrors ------------------------------
def _numpy_ref(c):
    a = [np.array(d, dtype=np.float64).reshape(s) for s, d, _ in c['leaves']]
    op, args = c['op'], [str(x) for x in c['args']]
    pa, ps = tprog.parse_axes, tprog.parse_sel
    if op == 'add': return a[0] + a[1]
    if op == 'mul': return a[0] * a[1]
    if op == 'matmul':
        if a[0].ndim < 2 or a[1].ndim < 2: raise ValueError
        return a[0] @ a[1]
    if op == 'addmm': return a[0] + a[1] @ a[2]
    if op == 'pow': return a[0] ** common.bitsf(args[0])
    if op == 'rpow': return common.bitsf(args[0]) ** a[0]
    if op == 'neg': return -a[0]
    if op == 'clone': return a[0].copy()
    if op == 'exp': return np.exp(a[0])
    if op == 'log': return np.log(a[0])
    if op == 'sqrt': return np.sqrt(a[0])
    if op == 'slice':
        s = ps(args[0]); return a[0][s[0] if len(s) == 1 else s]
    if op == 'concat': return np.concatenate(a, int(args[0]))
    if op == 'stack': return np.stack(a, int(args[0]))
    if op == 'unbind': return list(np.moveaxis(a[0], int(args[0]), 0))
    if op == 'sum': return np.sum(a[0], axis=pa(args[0]), keepdims=bool(int(args[1])))
    if op == 'mean': return np.mean(a[0], axis=pa(args[0]), keepdims=bool(int(args[1])))
    if op in ('max', 'min'):
        f = np.max if op == 'max' else np.min
        return f(a[0], axis=tprog.opt_int(args[0]), keepdims=bool(int(args[1])))
    if op == 'squeeze':
        import torch
        ax = pa(args[0]); t = torch.tensor(a[0])
        if a[0].ndim == 0: return a[0]       # nothing to squeeze on a 0-d tensor: the library answers it unchanged for any dim (as for every legal dim)
        return (t.squeeze() if ax is None else t.squeeze(ax)).numpy()
    if op == 'unsqueeze':
        return np.expand_dims(a[0], tuple(common.parse_ints(args[0])))
    if op == 'reshape': return a[0].reshape(tuple(common.parse_ints(args[0])))
    if op == 'movedim': return np.moveaxis(a[0], int(args[0]), int(args[1]))
    if op == 'transpose': return np.swapaxes(a[0], int(args[0]), int(args[1]))
    if op == 'flatten':
        import torch
        return torch.tensor(a[0]).flatten(int(args[0]), int(args[1])).numpy()
    if op == 'unfold_dim':
        import torch
        return torch.tensor(a[0]).unfold(int(args[0]), int(args[1]), int(args[2])).numpy()
    raise KeyError(op)


def oracle(c):
    if c['kind'] != 'op':
        return _oracle_misc(c)
    io = tprog.run_program(c['lines'])
    nl = c.get('opline', len(c['leaves']))          # (position of the op line; chain cases have view ops in front of it)
    cc = {k: v for k, v in c.items() if k in ('kind', 'op', 'leaves', 'args', 'malformed', 'lines', 'opline', 'chain')}
    key = {'op': c['op']}
    try:
        with np.errstate(all='ignore'):
            ref = _numpy_ref(c)
        ok = True
    except Exception:
        ok = False
    if io[nl] == 'rejected':
        if ok and not c['malformed']:
            return {'key': dict(key, cls='spurious-rejection'), 'case': cc, 'what': f"{c['op']}{c['args']} on shapes {[l[0] for l in c['leaves']]} raised; the definition it mirrors accepts it"}
        return None
    if not ok:
        return {'key': dict(key, cls='accepted-illegal'), 'case': cc, 'what': f"{c['op']}{c['args']} on shapes {[l[0] for l in c['leaves']]} was answered although the mirrored definition rejects it"}
    refs = ref if isinstance(ref, list) else [ref]
    for k, r in enumerate(refs):
        got = tprog.parse_arr(io[nl + 1 + k]) if '|' in io[nl + 1 + k] else None
        if c['op'] == 'log': r = np.log(np.array(c['leaves'][0][1]).reshape(c['leaves'][0][0]) + 1e-12)   # documented guard
        if got is None or got.shape != np.asarray(r).shape or not np.allclose(got, r, rtol=1e-9, atol=1e-12, equal_nan=True):
            return {'key': dict(key, cls='value'), 'case': cc, 'what': f"{c['op']}{c['args']}: result {None if got is None else got.tolist()} (shape {None if got is None else got.shape}); definition gives {np.asarray(r).tolist()} (shape {np.asarray(r).shape})"}
    return None


def _oracle_misc(c):
    if c['kind'] == 'mk': return _oracle_mk(c)
    io = tprog.run_program(c['lines'])
    if c['kind'] == 'iter':
        # every iterator must see rows 0..n-1 in order, independently of the others
        sh = tuple(common.parse_ints(c['lines'][0].split(' ')[3]))
        if len(sh) == 0: return None
        data = np.array(common.parse_floats(c['lines'][0].split(' ')[5])).reshape(sh)
        pos = {}
        vals = {}
        nt = 1
        for l, o in zip(c['lines'], io):
            if l.startswith('t iter next'):
                k = int(l.split(' ')[3])
                p = pos.get(k, 0)
                if o == 'stop':
                    if p < sh[0]:
                        return {'key': {'kind': 'iter', 'cls': 'early-stop'}, 'case': c, 'what': f'iterator {k} stopped after {p} of {sh[0]} rows'}
                elif o == 'rejected':
                    return {'key': {'kind': 'iter', 'cls': 'raises'}, 'case': c, 'what': 'next() raised'}
                else:
                    if p >= sh[0]:
                        return {'key': {'kind': 'iter', 'cls': 'overrun'}, 'case': c, 'what': f'iterator {k} yielded more than {sh[0]} rows'}
                    vals[int(o[1:])] = data[p]
                    pos[k] = p + 1
            elif l.startswith('t val') and '|' in o:
                k = int(l.split(' ')[2])
                if k in vals and not np.allclose(tprog.parse_arr(o), vals[k]):
                    return {'key': {'kind': 'iter', 'cls': 'row'}, 'case': c, 'what': f'an iterator yielded a wrong row: {o}'}
        return None
    if c['kind'] == 'sop':
        l0 = c['lines'][0].split(' ')
        dt = tprog.DT[l0[2]]
        a = np.array(common.parse_floats(l0[5]), dtype=np.float64).reshape(tuple(common.parse_ints(l0[3]))).astype(dt)
        sop = [l for l in c['lines'] if l.startswith('t sop')][0].split(' ')
        kind, b = sop[2], sop[4]
        if b[0] == 't':
            l1 = c['lines'][1].split(' ')
            bv = np.array(common.parse_floats(l1[5]), dtype=np.float64).reshape(tuple(common.parse_ints(l1[3]))).astype(dt)
        else:
            bv = common.bitsf(b[1:])
        with np.errstate(all='ignore'):
            ref = {'add': lambda: a + bv, 'mul': lambda: a * bv, 'neg': lambda: -a, 'sub': lambda: a - bv, 'rsub': lambda: bv - a,
                   'div': lambda: a / bv, 'rdiv': lambda: bv / a}[kind]()
        res = [o for l, o in zip(c['lines'], io) if l.startswith('t val') and '|' in o]
        got = tprog.parse_arr(res[-1]) if res else None
        tol = 1e-6 if dt == np.float32 else 1e-12
        if got is None or got.shape != ref.shape or not np.allclose(got, ref, rtol=tol, atol=tol):
            return {'key': {'kind': 'sop', 'cls': 'value', 'op': kind}, 'case': c, 'what': f'{kind} with a Python scalar / tensor: {None if got is None else got.tolist()} vs definition {ref.tolist()} (dtype {l0[2]})'}
        dts = [o for l, o in zip(c['lines'], io) if l.startswith('t dtype') and o in ('f32', 'f64')]
        if dts and dts[-1] != l0[2]:
            return {'key': {'kind': 'sop', 'cls': 'dtype', 'op': kind}, 'case': c, 'what': f'result dtype {dts[-1]} for a {l0[2]} tensor'}
        return None
    return None


def search(rng, tier):
    for c in cases(rng, 'quick'):
        f = oracle(c)
        if f: yield f


def _fix(c):
    if 'leaves' in c: c['leaves'] = [(tuple(s), d, r) for s, d, r in c['leaves']]
    return c
def matches_known(k, fail): return k.get('key') == fail.get('key')
def rerun_known(k): return oracle(_fix(k['witness'])) is not None
def replay(fail):
    f = oracle(_fix(fail['case']))
    return {'fails': f is not None, 'now': f}
