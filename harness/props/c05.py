"""C05 — forward semantics of tensor ops and constructors (NumPy / PyTorch definitions)"""
import numpy as np
import common
from common import show_floats, show_ints, fbits
import tprog, gen_dag, gen_ops

tprog.ENTRIES = True        # function / Tensor method / operator / nn layer class
tprog.SPELLINGS = True
tprog.LAYOUTS = True      # leaves are handed over in C / Fortran / strided / negative-stride / offset / transposed layouts
PROP = 'C05'
LEAN_TARGETS = ['Props.C05']
REQUIRED_THEOREMS = ['Props.C05.flatten_spec', 'Props.C05.unfold_dim_spec', 'Props.C05.sum_spec', 'Props.C05.matmul_spec',
                     'Props.C05.iteration_protocol', 'Props.C05.ctor_shape_forms', 'Props.C05.operator_forms', 'Props.C05.transpose_spec', 'Props.C05.movedim_spec', 'Props.C05.reshape_spec', 'Props.C05.concat_spec', 'Props.C05.stack_spec', 'Props.C05.unbind_spec', 'Props.C05.index_spec', 'Props.C05.mul_spec', 'Props.C05.mean_spec', 'Props.C05.max_spec', 'Props.C05.squeeze_many_spec', 'Props.C05.unsqueeze_spec']
REQUIRED_THEOREMS += ['Props.C05.' + t for t in ['src_calls_transpose', 'src_calls_movedim', 'src_calls_reshape', 'src_calls_unsqueeze', 'src_calls_matmul', 'src_calls_addmm_forward', 'src_calls_sum_forward', 'src_calls_concat_forward', 'src_calls_stack', 'src_calls_unbind_forward', 'src_calls_slice']]   # ties to the source read on this run
RULE = ('forward of every tensor op on operand ranks 0-5 over the whole argument space (same generators as C01 with rank <= 5, plus '
        '~10 % malformed arguments: accept/reject must agree); operator and reflected-operator forms with Python scalars on float64 '
        'and float32 tensors; constructors in their three shape spellings, eye, arange, *_like; several simultaneous and nested '
        'iterations over one tensor. The failing-input search compares with a direct NumPy evaluation. Non-trivial: accepted call '
        'with a result of > 1 element, or an iteration with >= 2 live iterators.')
EXHAUSTIVE = {'quick': False, 'thorough': False}
ASSUMPTIONS = ['float64 values except in the dtype-specific cases; rel 1e-9']
TRUSTED_BASE = ['harness/tprog.py, harness/gen_ops.py']
TRUSTED_BASE = TRUSTED_BASE + ['harness/array_formulas.py + lean/SynapModel/NpCalls.lean (reading of the array kernels as compositions of NumPy calls, Generated/KernelCalls.lean; what each NumPy function does is the hand-written array model)']


def op_case(rng, op):
    malformed = rng.chance(0.1)
    save = gen_ops.rshape
    # ranks up to 5 for this property
    gen_ops.rshape = lambda r, rmin=0, rmax=4, smax=3: save(r, rmin, min(rmax + 1, 5), smax if rmax < 4 else 2)
    try:
        leaves, args = gen_ops.gen_basic(rng, op, malformed)
    finally:
        gen_ops.rshape = save
    c = {'kind': 'op', 'op': op, 'leaves': [(s, d, False) for s, d, _ in leaves], 'args': args, 'malformed': malformed}
    lines = gen_ops.program(c, rng)
    nl = len(leaves)
    c['lines'] = lines + [f't val {nl}', f't val {nl + 1}', f't val {nl + 2}']
    return c


def sop_case(rng):
    dt = rng.pick(['f64', 'f64', 'f32'])
    sh = gen_ops.rshape(rng, 0, 3)
    data = gen_ops.vals(rng, sh, 'pos')
    kind = rng.pick(['add', 'mul', 'neg', 'sub', 'rsub', 'div', 'rdiv'])
    lines = [gen_dag.leaf_line(sh, data, True, dt)]
    if kind in ('sub', 'div') and rng.chance(.5):
        sh2 = gen_ops.bcast_operand(rng, sh)
        lines.append(gen_dag.leaf_line(sh2, gen_ops.vals(rng, sh2, 'pos'), True, dt))
        b = 't1'
    else:
        b = 's' + str(fbits(rng.pick([3.0, 0.1, -2.5, 7.0, 1.0 / 3, 2.0])))
    lines.append(f't sop {kind} 0 {b}')
    c = {'kind': 'sop', 'dt': dt, 'lines': lines, 'malformed': False}
    c['lines'] = lines + ['t val 2', 't val 3', 't val 4', 't val 5', 't dtype 2', 't dtype 3', 't dtype 4']
    return c


def iter_case(rng):
    n, m = rng.randint(1, 4), rng.randint(1, 3)
    sh = rng.pick([(n,), (n, m), (n, m, 2), ()])
    data = gen_dag.rand_data(rng, sh)
    lines = [gen_dag.leaf_line(sh, data, rng.chance(.5))]
    nit = rng.randint(1, 3)
    for _ in range(nit):
        lines.append('t iter new 0')
    created = 1
    for _ in range(rng.randint(3, 14)):
        lines.append(f't iter next {rng.randrange(nit)}')
    lines += [f't val {k}' for k in range(1, 10)]
    return {'kind': 'iter', 'nit': nit, 'lines': lines, 'malformed': False}


def ctor_case(rng):
    dims = [rng.randint(0, 3) for _ in range(rng.randint(0, 3))]
    r = rng.random()
    if r < .5:
        lines = [f"t ctor {rng.pick(['zeros', 'ones'])} {rng.pick(['v', 't', 'l'])} {show_ints(dims)}"]
    elif r < .65:
        lines = [f't eye {rng.randint(0, 4)}']
    elif r < .85:
        a = rng.randint(-3, 3)
        lines = [f"t arange {a} {a + rng.randint(-4, 6)} {rng.pick([1, 2, -1, 3])}"]
    else:
        lines = [gen_dag.leaf_line(tuple(dims) or (2,), gen_dag.rand_data(rng, tuple(dims) or (2,)), False, rng.pick(['f32', 'f64'])), f"t ctor like {rng.randint(0, 1)} 0"]
    k = len(lines) - 1
    return {'kind': 'ctor', 'lines': lines + [f't val {k}', f't dtype {k}', f't flags {k}'], 'malformed': False}


def extract():
    """which NumPy calls the array kernels make is re-read from cpu_ops.py (Generated/KernelCalls.lean); the src_calls_* theorems are re-checked by the build"""
    import array_formulas
    return array_formulas.write()[0]


def cases(rng, tier):
    out = []
    per = 40 if tier == 'quick' else 400
    for op in gen_ops.OPS_BASIC:
        for _ in range(per):
            out.append(op_case(rng, op))
    # EXHAUSTIVE sub-family: the complete discrete argument space of the reducing / shape ops on small operands
    for op, leaves, args in gen_ops.enumerate_basic(rng, tier):
        c = {'kind': 'op', 'op': op, 'leaves': [(s_, d_, False) for s_, d_, _ in leaves], 'args': args, 'malformed': False, 'enumerated': True}
        nl = len(leaves)
        c['lines'] = gen_ops.program(c, rng) + [f't val {nl}', f't val {nl + 1}', f't val {nl + 2}']
        out.append(c)
    for _ in range(60 if tier == 'quick' else 1500):
        out.append(sop_case(rng))
    for _ in range(40 if tier == 'quick' else 1000):
        out.append(iter_case(rng))
    for _ in range(40 if tier == 'quick' else 1000):
        out.append(ctor_case(rng))
    # corpus: nested loops over one tensor; x64 / 3
    out.append({'kind': 'iter', 'nit': 2, 'malformed': False, 'lines': [gen_dag.leaf_line((3, 2), [1., 2, 3, 4, 5, 6], False), 't iter new 0', 't iter next 0', 't iter new 0',
                't iter next 1', 't iter next 1', 't iter next 1', 't iter next 1', 't iter next 0', 't iter next 0', 't iter next 0'] + [f't val {k}' for k in range(1, 7)]})
    out.append({'kind': 'sop', 'dt': 'f64', 'malformed': False, 'lines': [gen_dag.leaf_line((2,), [1., 2.], False), f't sop div 0 s{fbits(3.0)}', 't val 2', 't dtype 2']})
    for c in out:
        c['desc'] = ' ; '.join(c['lines'])[:600]
    return out


def impl(c):
    io = tprog.run_program(c['lines'])
    return io


def compare(c, mo, io):
    # queries beyond the created tensors answer bad-op (model) / rejected (impl): both mean "no such tensor"
    diffs = []
    for k, (m, i) in enumerate(zip(mo, io)):
        if m == 'bad-op' and i == 'rejected' and c['lines'][k].startswith(tprog.QUERIES + ('t iter next',)): continue   # no such tensor / iterator
        if not tprog.close_line(m, i, 1e-6 if c.get('dt') == 'f32' else 1e-9):
            diffs.append((c['lines'][k], m[:200], str(i)[:200]))
    return diffs[:3]


def nontrivial(c):
    return not c['malformed']


def distribution(cases):
    d = {}
    for c in cases:
        k = c['kind'] + (':' + c['op'] if 'op' in c else '')
        d[k] = d.get(k, 0) + 1
        if c.get('enumerated'): d['enumerated: complete argument space of the reducing / shape ops on small operands'] = d.get('enumerated: complete argument space of the reducing / shape ops on small operands', 0) + 1
    return d


# ---- oracle: direct NumPy evaluation of the definition the op mirrors ------------------------------
def _numpy_ref(c):
    a = [np.array(d, dtype=np.float64).reshape(s) for s, d, _ in c['leaves']]
    op, args = c['op'], [str(x) for x in c['args']]
    pa, ps = tprog.parse_axes, tprog.parse_sel
    if op == 'add': return a[0] + a[1]
    if op == 'mul': return a[0] * a[1]
    if op == 'matmul':
        if a[0].ndim < 2 or a[1].ndim < 2: raise ValueError
        return a[0] @ a[1]
    if op == 'addmm': return a[0] + a[1] @ a[2]
    if op == 'pow': return a[0] ** common.bitsf(args[0])
    if op == 'rpow': return common.bitsf(args[0]) ** a[0]
    if op == 'neg': return -a[0]
    if op == 'clone': return a[0].copy()
    if op == 'exp': return np.exp(a[0])
    if op == 'log': return np.log(a[0])
    if op == 'sqrt': return np.sqrt(a[0])
    if op == 'slice':
        s = ps(args[0]); return a[0][s[0] if len(s) == 1 else s]
    if op == 'concat': return np.concatenate(a, int(args[0]))
    if op == 'stack': return np.stack(a, int(args[0]))
    if op == 'unbind': return list(np.moveaxis(a[0], int(args[0]), 0))
    if op == 'sum': return np.sum(a[0], axis=pa(args[0]), keepdims=bool(int(args[1])))
    if op == 'mean': return np.mean(a[0], axis=pa(args[0]), keepdims=bool(int(args[1])))
    if op in ('max', 'min'):
        f = np.max if op == 'max' else np.min
        return f(a[0], axis=tprog.opt_int(args[0]), keepdims=bool(int(args[1])))
    if op == 'squeeze':
        import torch
        ax = pa(args[0]); t = torch.tensor(a[0])
        if a[0].ndim == 0: return a[0]       # nothing to squeeze on a 0-d tensor: the library answers it unchanged for any dim (as for every legal dim)
        return (t.squeeze() if ax is None else t.squeeze(ax)).numpy()
    if op == 'unsqueeze':
        return np.expand_dims(a[0], tuple(common.parse_ints(args[0])))
    if op == 'reshape': return a[0].reshape(tuple(common.parse_ints(args[0])))
    if op == 'movedim': return np.moveaxis(a[0], int(args[0]), int(args[1]))
    if op == 'transpose': return np.swapaxes(a[0], int(args[0]), int(args[1]))
    if op == 'flatten':
        import torch
        return torch.tensor(a[0]).flatten(int(args[0]), int(args[1])).numpy()
    if op == 'unfold_dim':
        import torch
        return torch.tensor(a[0]).unfold(int(args[0]), int(args[1]), int(args[2])).numpy()
    raise KeyError(op)


def oracle(c):
    if c['kind'] != 'op':
        return _oracle_misc(c)
    io = tprog.run_program(c['lines'])
    nl = len(c['leaves'])
    cc = {k: v for k, v in c.items() if k in ('kind', 'op', 'leaves', 'args', 'malformed')}
    key = {'op': c['op']}
    try:
        with np.errstate(all='ignore'):
            ref = _numpy_ref(c)
        ok = True
    except Exception:
        ok = False
    if io[nl] == 'rejected':
        if ok and not c['malformed']:
            return {'key': dict(key, cls='spurious-rejection'), 'case': cc, 'what': f"{c['op']}{c['args']} on shapes {[l[0] for l in c['leaves']]} raised; the definition it mirrors accepts it"}
        return None
    if not ok:
        return {'key': dict(key, cls='accepted-illegal'), 'case': cc, 'what': f"{c['op']}{c['args']} on shapes {[l[0] for l in c['leaves']]} was answered although the mirrored definition rejects it"}
    refs = ref if isinstance(ref, list) else [ref]
    for k, r in enumerate(refs):
        got = tprog.parse_arr(io[nl + 1 + k]) if '|' in io[nl + 1 + k] else None
        if c['op'] == 'log': r = np.log(np.array(c['leaves'][0][1]).reshape(c['leaves'][0][0]) + 1e-12)   # documented guard
        if got is None or got.shape != np.asarray(r).shape or not np.allclose(got, r, rtol=1e-9, atol=1e-12, equal_nan=True):
            return {'key': dict(key, cls='value'), 'case': cc, 'what': f"{c['op']}{c['args']}: result {None if got is None else got.tolist()} (shape {None if got is None else got.shape}); definition gives {np.asarray(r).tolist()} (shape {np.asarray(r).shape})"}
    return None


def _oracle_misc(c):
    io = tprog.run_program(c['lines'])
    if c['kind'] == 'iter':
        # every iterator must see rows 0..n-1 in order, independently of the others
        sh = tuple(common.parse_ints(c['lines'][0].split(' ')[3]))
        if len(sh) == 0: return None
        data = np.array(common.parse_floats(c['lines'][0].split(' ')[5])).reshape(sh)
        pos = {}
        vals = {}
        nt = 1
        for l, o in zip(c['lines'], io):
            if l.startswith('t iter next'):
                k = int(l.split(' ')[3])
                p = pos.get(k, 0)
                if o == 'stop':
                    if p < sh[0]:
                        return {'key': {'kind': 'iter', 'cls': 'early-stop'}, 'case': c, 'what': f'iterator {k} stopped after {p} of {sh[0]} rows'}
                elif o == 'rejected':
                    return {'key': {'kind': 'iter', 'cls': 'raises'}, 'case': c, 'what': 'next() raised'}
                else:
                    if p >= sh[0]:
                        return {'key': {'kind': 'iter', 'cls': 'overrun'}, 'case': c, 'what': f'iterator {k} yielded more than {sh[0]} rows'}
                    vals[int(o[1:])] = data[p]
                    pos[k] = p + 1
            elif l.startswith('t val') and '|' in o:
                k = int(l.split(' ')[2])
                if k in vals and not np.allclose(tprog.parse_arr(o), vals[k]):
                    return {'key': {'kind': 'iter', 'cls': 'row'}, 'case': c, 'what': f'an iterator yielded a wrong row: {o}'}
        return None
    if c['kind'] == 'sop':
        l0 = c['lines'][0].split(' ')
        dt = tprog.DT[l0[2]]
        a = np.array(common.parse_floats(l0[5]), dtype=np.float64).reshape(tuple(common.parse_ints(l0[3]))).astype(dt)
        sop = [l for l in c['lines'] if l.startswith('t sop')][0].split(' ')
        kind, b = sop[2], sop[4]
        if b[0] == 't':
            l1 = c['lines'][1].split(' ')
            bv = np.array(common.parse_floats(l1[5]), dtype=np.float64).reshape(tuple(common.parse_ints(l1[3]))).astype(dt)
        else:
            bv = common.bitsf(b[1:])
        with np.errstate(all='ignore'):
            ref = {'add': lambda: a + bv, 'mul': lambda: a * bv, 'neg': lambda: -a, 'sub': lambda: a - bv, 'rsub': lambda: bv - a,
                   'div': lambda: a / bv, 'rdiv': lambda: bv / a}[kind]()
        res = [o for l, o in zip(c['lines'], io) if l.startswith('t val') and '|' in o]
        got = tprog.parse_arr(res[-1]) if res else None
        tol = 1e-6 if dt == np.float32 else 1e-12
        if got is None or got.shape != ref.shape or not np.allclose(got, ref, rtol=tol, atol=tol):
            return {'key': {'kind': 'sop', 'cls': 'value', 'op': kind}, 'case': c, 'what': f'{kind} with a Python scalar / tensor: {None if got is None else got.tolist()} vs definition {ref.tolist()} (dtype {l0[2]})'}
        dts = [o for l, o in zip(c['lines'], io) if l.startswith('t dtype') and o in ('f32', 'f64')]
        if dts and dts[-1] != l0[2]:
            return {'key': {'kind': 'sop', 'cls': 'dtype', 'op': kind}, 'case': c, 'what': f'result dtype {dts[-1]} for a {l0[2]} tensor'}
        return None
    return None


def search(rng, tier):
    for c in cases(rng, 'quick'):
        f = oracle(c)
        if f: yield f


def _fix(c):
    if 'leaves' in c: c['leaves'] = [(tuple(s), d, r) for s, d, r in c['leaves']]
    return c
def matches_known(k, fail): return k.get('key') == fail.get('key')
def rerun_known(k): return oracle(_fix(k['witness'])) is not None
def replay(fail):
    f = oracle(_fix(fail['case']))
    return {'fails': f is not None, 'now': f}
