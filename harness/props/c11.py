"""C11 — forward and backward never modify operands, targets or the caller's gradient"""
import numpy as np
import common
from common import show_floats, show_ints
import tprog, gen_dag, gen_ops
tprog.ENTRIES = True        # function / Tensor method / operator / augmented operator statement, varying from call to call

PROP = 'C11'
LEAN_TARGETS = ['Props.C11']
REQUIRED_THEOREMS = ['Props.C11.apply_preserves', "Props.C11.apply_repeatable'", 'Props.C11.backward_preserves_data',
                     'Props.C11.root_gradient_is_copied', 'Props.C11.zeroGrad_preserves_data',
                     'Props.C11.kernels_never_write_operands', 'Props.C11.kernel_operands_unchanged',
                     'Props.C11.wrappers_never_write_data_or_upstream', 'Props.C11.tensor_operands_unchanged',
                     'Props.C11.clone_detach_return_fresh', 'Props.C11.clone_detach_storage_independent']
RULE = ('(a) every op / nn op / loss once or more with operands that are NumPy views of one another (aliased leaves) and operands '
        'reused by several ops; (b) DAG programs with two backward calls through the same root and a later graph re-using it; '
        'after every forward and every backward the bytes (`tobytes()` of the arrays and of their bases) of every operand, target, '
        'unrelated tensor, unrelated gradient and of the caller\'s gradient tensors are compared with the snapshot taken before; '
        '(c) backward touches nothing outside the graph: bystander tensors in every gradient state (leaf without a gradient / with an accumulated one, '
        'non-leaf with a retained / released gradient, root of an earlier call, user-assigned .grad on a leaf and on a plain tensor, frozen leaf, zeroed '
        'gradient), values derived from them as constants (ops / operator statements / nn ops / layers under no_grad, nested and exception-left blocks, '
        'detach(), Tensor(t.data), Tensor(t.data.copy()), requires_grad switched off) used by a NEW graph over a fresh leaf that is then '
        'differentiated once or more (also inside retain_grads / no_grad): the gradient STATE of every tensor outside that graph — absent / its bytes / '
        'which buffer object — and its data are compared around every call (a constant ends the graph: its producers are outside); '
        'every op is evaluated THREE times, with released blocks of the operands\' and results\' byte sizes refilled with a changing finite sentinel pattern before each evaluation (an entry the op leaves '
        'unwritten shows the sentinel), and must be bit-identical (NaN payloads included); OPERANDS OUTSIDE THE DOMAIN: log of negative entries / of exactly 0 (at -1e-12), sqrt of negative entries, fractional powers of negative '
        'entries, negative powers of zeros, x / 0 and 0 / 0, scalar / 0, inf / -inf / NaN entries into exp, log, sqrt, neg, clone, tanh, sigmoid, add, mul, and log / sqrt inside a small differentiated graph — float64 and float32, '
        '4 to 400 elements (below and above the allocator\'s small-block cache); results and gradients are compared with the model entry by entry (NaN where the model says NaN, inf where it says inf); clone() and detach() of every tensor created (leaves with and without requires_grad, views, op results) must be a different object over storage that shares no memory with the source, and writing into it must leave the source alone; the values of all tensors are also compared with the model (in which data '
        'are immutable). Non-trivial: a program with an aliased operand or two backward calls.')
EXHAUSTIVE = {'quick': False, 'thorough': False}
ASSUMPTIONS = ['the documented in-place writers (optimizer step, initialisers, batch-norm running statistics, zeroing) are exercised by C08 / C15 / C13 / C04']
TRUSTED_BASE = ['harness/tprog.py',
                'harness/effects.py (effect extractor: the translation of cpu_ops.py / conv_tools.py / functional.py / nn/functional.py / tensor.py into '
                'effect programs, the Tensor model (constructor, grad property; compared with tensor.py on every run), the documented allowed-writes list, its tables of '
                'allocating / view-returning / writing NumPy functions (probed on the installed NumPy on every run), the assumption that '
                'array parameters are plain ndarrays of non-object dtype)']


def extract():
    """regenerate lean/SynapModel/Generated/EffectTable.lean from /repo's current source (theorem kernels_never_write_operands)"""
    import effects
    return effects.write_effect_table()


STATEFUL = ('batch_norm', 'dropout', 'cross_entropy', 'softmax', 'log_softmax', 'max_pool2d', 'max_pool1d')    # ops that save something for backward


class Exec(tprog.Impl):
    """executor that aliases marked leaves, snapshots bytes around every op / backward and repeats ops"""
    def __init__(self):
        super().__init__()
        self.alias = {}
        self.problems = []
        self.gs = []
        self.parents = {}       # tensor id -> operand ids
        self.tracked = {}       # tensor id -> made with gradient mode on from at least one operand that required grad (else: a constant, its producers are outside every graph)
        self.keep = {}          # every gradient buffer ever seen stays referenced: `id()` of a live object is not reused

    def exec(self, line):
        self.li = getattr(self, 'li', -1) + 1
        n = len(self.problems)
        r = super().exec(line)
        if len(self.problems) > n and getattr(self, 'first_at', None) is None: self.first_at = self.li      # the line at which the first problem showed
        return r

    def snap(self):
        d = {}
        for k, x in enumerate(self.ts):
            if x is None: continue
            d[('data', k)] = x.data.tobytes()
            if x.data.base is not None: d[('base', k)] = np.asarray(x.data.base).tobytes()
            # the gradient STATE: absent / the bytes / which buffer object it is
            d[('grad', k)] = None if x._grad is None else np.asarray(x._grad).tobytes()
            d[('grad buffer identity', k)] = None if x._grad is None else id(x._grad)
            if x._grad is not None: self.keep[id(x._grad)] = x._grad
        for k, g in enumerate(self.gs):
            d[('g', k)] = g.data.tobytes()
        for k, a in enumerate(getattr(self, 'readonly_aux', [])):       # eval-mode running statistics handed to batch_norm
            d[('running-statistic', k)] = a.data.tobytes()
        return d

    def independence(self, k):
        """clone() and detach() of tensor k: a different object over storage that shares no memory with the source (nor with
        its base); writing into the copy leaves the source's bytes alone; detach() does not require grad"""
        x = self.ts[k]
        if x is None: return
        before = x.data.tobytes()
        for how in ('clone', 'detach'):
            try:
                with common.quiet():
                    r = getattr(x, how)()
            except Exception as e:
                self.problems.append(f'{how}() of tensor {k} raised {type(e).__name__}'); continue
            if r is x or np.shares_memory(r.data, x.data):
                self.problems.append(f'{how}() of tensor {k} (requires_grad={x.requires_grad}) shares storage with its source')
                continue
            if r.data.tobytes() != before or r.data.dtype != x.data.dtype or r.data.shape != x.data.shape:
                self.problems.append(f'{how}() of tensor {k} changed the values / dtype / shape')
            if how == 'detach' and r.requires_grad:
                self.problems.append(f'detach() of tensor {k} requires grad')
            if r.data.size and r.data.flags.writeable:
                r.data[...] = 7
                if x.data.tobytes() != before:
                    self.problems.append(f'writing into {how}() of tensor {k} changed the source')

    def poison(self, sizes):
        """allocate and release arrays of the given byte sizes (eight of each: NumPy's small-block cache holds seven per size, the C
        allocator serves released blocks last-in-first-out) filled with a sentinel byte that changes from call to call: the bit
        patterns 0x40.. - 0x7e.. are finite, positive float64 / float32 values, so an output entry that an op leaves UNWRITTEN
        (np.empty + partial write, `where=` without a full `out=`) shows the sentinel of the call it was made in instead of the
        value (NaN, inf, 0) the op is documented to give, and differs between two evaluations"""
        self.pc = getattr(self, 'pc', 0) + 1
        byte = 0x40 + (self.pc * 7) % 0x3F
        for n in sorted(set(int(v) for v in sizes if v)):
            blocks = [np.full(n, byte, dtype=np.uint8) for _ in range(8)]
            del blocks
        self.sentinel = byte

    def unwritten(self, xs):
        """does a result hold an element made of the current sentinel byte only (a block released before the call shows through)?"""
        for x in xs:
            if x is None or not x.data.size or x.data.dtype.itemsize < 4: continue
            raw = np.frombuffer(x.data.tobytes(), dtype=np.uint8).reshape(-1, x.data.dtype.itemsize)
            if bool((raw == self.sentinel).all(axis=1).any()): return True
        return False

    def reach(self, r):
        seen, st = set(), [r]
        while st:
            v = st.pop()
            if v in seen: continue
            seen.add(v)
            if self.tracked.get(v, True): st += self.parents.get(v, [])      # a constant is where the graph ends
        return seen

    def run(self, line):
        t = line.split(' ')
        if t[1] == 'leaf':
            out = super().run(line)
            k = len(self.ts) - 1
            if k in self.alias:                     # make this leaf a view of an earlier leaf's memory
                self.ts[k].data = self.ts[self.alias[k]].data.reshape(self.ts[k].data.shape).view()
            self.independence(k)
            return out
        if t[1] in ('detach', 'fromdata'):      # tensors made from tensors without an op: new leaves, nothing upstream of them
            x = self.ts[int(t[2])]
            before = self.snap()
            if t[1] == 'detach': r = x.detach()
            else: r = self.sg.Tensor(x.data if t[4] == 'data' else x.data.copy(), requires_grad=bool(int(t[3])))
            self.ts.append(r)
            after = self.snap()
            for key, b in before.items():
                if after.get(key) != b: self.problems.append(f'{line[:80]} changed {key}')
            return f't{len(self.ts) - 1}'
        if t[1] == 'setgrad':                   # `x.grad = Tensor(array)`, the public setter
            shape = tuple(common.parse_ints(t[3]))
            self.ts[int(t[2])].grad = self.sg.Tensor(np.array(common.parse_floats(t[4]), dtype=np.float64).reshape(shape))
            return 'ok'
        if t[1] in ('op', 'loss', 'sop'):
            ins = common.parse_ints(t[3]) if t[1] == 'op' else [int(t[4]), int(t[5])] if t[1] == 'loss' else [int(t[3])] + ([int(t[4][1:])] if t[4][0] == 't' else [])
            tracked = bool(self.tm.gradient__) and any(self.ts[i] is not None and self.ts[i].requires_grad for i in ins if i < len(self.ts))
            before = self.snap()
            n0 = len(self.ts)
            sizes = [self.ts[i].data.nbytes for i in ins if i < len(self.ts) and self.ts[i] is not None]
            self.poison(sizes)
            out = super().run(line)
            after = self.snap()
            for key, b in before.items():
                if after.get(key) != b:
                    self.problems.append(f'{line[:80]} changed {key}')
            for k in range(n0, len(self.ts)):
                self.parents[k] = ins
                self.tracked[k] = tracked
            # repeat (twice more, released blocks of the operands' and the results' sizes refilled with another sentinel before
            # each): bit-identical result, operands still untouched
            n1 = len(self.ts)
            vals1 = [None if x is None else x.data.tobytes() for x in self.ts[n0:n1]]
            if self.unwritten(self.ts[n0:n1]): self.problems.append(f'{line[:80]} is not repeatable bit for bit: entries of the result were never written (they show the bytes of a block released before the call)')
            sizes += [x.data.nbytes for x in self.ts[n0:n1] if x is not None]
            for rep in range(2):
                self.poison(sizes)
                super().run(line)
                vals2 = [None if x is None else x.data.tobytes() for x in self.ts[n1:]]
                stale = self.unwritten(self.ts[n1:])
                del self.ts[n1:]
                if stale: self.problems.append(f'{line[:80]} is not repeatable bit for bit: entries of the result were never written (they show the bytes of a block released before the call)'); break
                if vals1 != vals2:
                    self.problems.append(f'{line[:80]} is not repeatable bit for bit'); break
            for k in range(n0, n1): self.independence(k)
            return out
        if t[1] == 'bw':
            sg = self.sg
            shape = tuple(common.parse_ints(t[3]))
            g = sg.Tensor(np.array(common.parse_floats(t[4]), dtype=np.float64).reshape(shape))
            self.gs.append(g)
            before = self.snap()
            r = int(t[2])
            tr = self.traced(lambda: self.ts[r].backward(g))
            after = self.snap()
            inside = {k_ for k_ in self.reach(r) if self.ts[k_] is not None and self.ts[k_].requires_grad}      # a frozen operand is outside
            for key, b in before.items():
                kind, k = key
                if kind in ('grad', 'grad buffer identity') and k in inside: continue
                if after.get(key) != b:
                    self.problems.append(f'{line[:60]} changed {key}')
            return 'ok trace=' + (','.join(tr) if tr else '_')
        return super().run(line)


def to_model(line):
    t = line.split(' ')
    if len(t) > 4 and t[1] == 'fromdata': return ' '.join(t[:4])        # (the model has one spelling of the `.data` round trip)
    return line


# ---- backward touches nothing outside the graph: bystanders in every gradient state, constants derived from them ---------------
BYSTANDERS = ['leaf without a gradient', 'leaf with an accumulated gradient', 'non-leaf with a retained gradient', 'non-leaf whose gradient was released',
              'root of an earlier backward', 'leaf with a user-assigned .grad', 'plain tensor with a user-assigned .grad', 'leaf with a gradient, then frozen',
              'leaf whose gradient was zeroed']
DERIVATIONS = ['op under no_grad', 'two ops under no_grad', 'operator statement under no_grad', 'unary / nn op under no_grad',
               'op under no_grad nested in retain_grads', 'op under two nested no_grad blocks, one left by exception', 'detach()',
               'Tensor(t.data)', 'Tensor(t.data.copy())', 'requires_grad switched off']


def bystander_case(rng, plan, nbw):
    """tensors in every gradient state (`BYSTANDERS`); values derived from them in the ways of `plan` = [(derivation, bystander)];
    a NEW graph over a fresh leaf that uses those values as constants; `nbw` backward calls through it. The executor compares the
    gradient state (absent / bytes / buffer identity) and the data of every tensor outside the differentiated graph around each call;
    values, gradients and flags are compared with the model afterwards"""
    sh = rng.pick([(2,), (3,), (2, 2)])
    D = lambda: show_floats([v if v else 0.5 for v in gen_dag.rand_data(rng, sh)])
    L = lambda rg: gen_dag.leaf_line(sh, [v if v else 0.5 for v in gen_dag.rand_data(rng, sh)], rg)
    S = show_ints(sh)
    lines = [L(True), L(True), L(False), 't op mul 1,2', 't retain 3', 't op add 3,1', 't op mul 4,4', f't bw 5 {S} {D()}']      # q; p, c, a = p*c (retained), b = a+p (released), e = b*b (root)
    if rng.chance(.4): lines.append(f't bw 5 {S} {D()}')
    lines += [L(True), f't setgrad 6 {S} {D()}', L(False), f't setgrad 7 {S} {D()}',
              L(True), 't op mul 8,8', f't bw 9 {S} {D()}', 't setrg 8 0',
              L(True), 't op mul 10,10', f't bw 11 {S} {D()}', 't zero 10']
    by = {0: 0, 1: 1, 2: 3, 3: 4, 4: 5, 5: 6, 6: 7, 7: 8, 8: 10}      # index into BYSTANDERS -> tensor
    others = [0, 1, 3, 4, 6, 8, 10]
    nt, nctx = 12, 0
    consts = []
    for d, b in plan:
        src = by[b]
        k = DERIVATIONS.index(d)
        if k <= 5:
            layout = {4: ['rg', 'ng'], 5: ['ng', 'ng']}.get(k, ['ng'])
            for j, kind in enumerate(layout): lines += [f't ctx new {kind}', f't ctx enter {nctx + j}']
            if k == 5: lines.append(f't ctx exitexc {nctx + 1}')
            if k == 1:
                lines += [f't op {rng.pick(["mul", "add"])} {src},{rng.pick(others)}', f't op {rng.pick(["mul", "add"])} {nt},{rng.pick(others)}']; nt += 2
            elif k == 2:
                kind = rng.pick(['sub', 'rsub', 'mul', 'add', 'neg'])
                arg = f't{rng.pick(others)}' if kind == 'sub' and rng.chance(.7) else f's{common.fbits(rng.pick([2.0, -0.5, 1.5]))}'
                lines.append(f't sop {kind} {src} {arg}')
                nt += {'add': 1, 'mul': 1, 'neg': 1, 'rsub': 3}.get(kind, 2 if arg[0] == 't' else 1) + 1
            elif k == 3:
                lines.append(f't op {rng.pick(["relu", "tanh", "sigmoid", "exp", "neg", "clone"])} {src}'); nt += 1
            else:
                o = rng.pick(others)
                lines.append(f't op {rng.pick(["mul", "add"])} ' + (f'{src},{o}' if rng.chance(.5) else f'{o},{src}')); nt += 1
            for j in reversed(range(len(layout))):
                if not (k == 5 and j == 1): lines.append(f't ctx exit {nctx + j}')
            nctx += len(layout)
            consts.append(nt - 1)
        elif k == 6: lines.append(f't detach {src}'); nt += 1; consts.append(nt - 1)
        elif k in (7, 8): lines.append(f't fromdata {src} 0 {"data" if k == 7 else "copy"}'); nt += 1; consts.append(nt - 1)
        else:
            if src in (3, 4, 5): continue               # (only a leaf can be frozen)
            lines.append(f't setrg {src} 0'); consts.append(src)
    # the graph that is differentiated: a fresh leaf and the constants
    lines.append(L(True)); w = nt; nt += 1
    r = w
    for h in consts:
        lines.append(f't op {rng.pick(["mul", "mul", "add"])} ' + (f'{r},{h}' if rng.chance(.5) else f'{h},{r}')); r = nt; nt += 1
    lines.append(f't op mul {r},{w}'); r = nt; nt += 1
    for j in range(nbw):
        inside = rng.chance(.3)
        if inside: lines += [f't ctx new {rng.pick(["rg", "ng"])}', f't ctx enter {nctx}']
        lines.append(f't bw {r} {S} {D()}')
        if inside: lines.append(f't ctx exit {nctx}'); nctx += 1
    lines += [f't grad {k}' for k in range(nt)] + [f't flags {k}' for k in range(nt)] + [f't val {k}' for k in range(12)]
    return {'kind': 'bystander', 'lines': lines, 'alias': {}, 'plan': [(d, BYSTANDERS[b]) for d, b in plan]}


def extractor_case(rng):
    """features computed under no_grad by a body (linear -> activation -> linear, function or layer object) whose parameters require grad
    — never trained, or trained before — and a head trained on them: the body's parameters are bystanders of the head's backward"""
    n, i, hdn, o = rng.randint(1, 3), rng.randint(1, 3), rng.randint(1, 3), rng.randint(1, 2)
    V = lambda sh_: gen_dag.rand_data(rng, sh_)
    lines = [gen_dag.leaf_line((n, i), V((n, i)), False), gen_dag.leaf_line((hdn, i), V((hdn, i)), True), gen_dag.leaf_line((hdn,), V((hdn,)), True),
             gen_dag.leaf_line((hdn, hdn), V((hdn, hdn)), True)]
    nt = 4
    trained = rng.chance(.5)
    if trained:      # an earlier training step of the body leaves gradients on its parameters
        lines += ['t op linear 0,1,2 1', f't op {rng.pick(["relu", "tanh"])} {nt}', f't op linear {nt + 1},3 0',
                  f"t bw {nt + 2} {show_ints((n, hdn))} {show_floats(V((n, hdn)))}"]; nt += 3
    lines += ['t ctx new ng', 't ctx enter 0', 't op linear 0,1,2 1', f't op {rng.pick(["relu", "tanh", "sigmoid"])} {nt}', f't op linear {nt + 1},3 0', 't ctx exit 0']
    feats = nt + 2; nt += 3
    lines += [gen_dag.leaf_line((o, hdn), V((o, hdn)), True), gen_dag.leaf_line((o,), V((o,)), True), f't op linear {feats},{nt},{nt + 1} 1']
    root = nt + 2; nt += 3
    for _ in range(rng.randint(1, 2)):
        lines.append(f"t bw {root} {show_ints((n, o))} {show_floats(V((n, o)))}")
    lines += [f't grad {k}' for k in range(nt)] + [f't flags {k}' for k in range(nt)]
    return {'kind': 'bystander', 'lines': lines, 'alias': {},
            'plan': [('layers under no_grad (frozen feature extractor)', 'parameters with gradients of an earlier step' if trained else 'parameters without a gradient')]}


def dag_case(rng, tier):
    P = gen_dag.gen_program(rng, rng.randint(2, 3), rng.randint(3, 10))
    lines, _ = P.lines()
    nt = len(P.tshape)
    root = nt - 1
    sh = P.tshape[root]
    # an unrelated graph with its own gradient
    lines += [gen_dag.leaf_line((2,), [1.0, 2.0], True), f't op mul {nt},{nt}', f't bw {nt + 1} 2 {show_floats([1.0, 1.0])}']
    g1, g2 = gen_dag.rand_data(rng, sh), gen_dag.rand_data(rng, sh)
    # a leaf used as the root of its own backward call first: its buffer must not be the caller's array, or the sweeps
    # below would accumulate into the caller's gradient
    for n in P.nodes:
        if n['kind'] == 'leaf' and n['rg'] and rng.chance(.5):
            k = n['outs'][0]
            lsh = P.tshape[k]
            lines.append(f"t bw {k} {show_ints(lsh)} {show_floats(gen_dag.rand_data(rng, lsh))}")
    lines += [f"t bw {root} {show_ints(sh)} {show_floats(g1)}", f"t bw {root} {show_ints(sh)} {show_floats(g2)}"]
    # re-use the root in a later graph and differentiate again (the root keeps its buffer)
    lines += [f't op mul {root},{root}', f"t bw {nt + 2} {show_ints(sh)} {show_floats(g1)}"]
    lines += [f't val {k}' for k in range(nt + 3)] + [f't grad {k}' for k in range(nt + 3)]
    alias = {}
    leaves = [k for k, n in enumerate(P.nodes) if n['kind'] == 'leaf']
    return {'kind': 'dag', 'lines': lines, 'alias': alias}


def op_case(rng, op):
    gen = gen_ops.gen_basic if op in gen_ops.OPS_BASIC else gen_ops.gen_nn
    leaves, args = gen(rng, op, False)
    if op not in ('log', 'sqrt', 'binary_cross_entropy') and rng.chance(.4):
        # special values in the float operands — exact zeros of either sign, +-1, repeated entries: a write that is triggered by a
        # VALUE (a[a == 0] = eps, x[x < 0] = 0, clipping in place) needs them
        leaves = list(leaves)
        for k, lf in enumerate(leaves):
            if (len(lf) > 3 and lf[3] == 'i64') or not lf[1]: continue
            d = list(lf[1])
            for _ in range(rng.randint(1, max(1, len(d) // 2))):
                d[rng.randrange(len(d))] = rng.pick([0.0, 0.0, -0.0, 1.0, -1.0, d[rng.randrange(len(d))]])
            leaves[k] = (lf[0], d) + tuple(lf[2:])
    alias = {}
    for k in range(1, len(leaves)):
        for j in range(k):
            if leaves[j][0] == leaves[k][0] and len(leaves[j]) == len(leaves[k]) and rng.chance(.5) and len(leaves[k]) == 3:
                leaves[k] = (leaves[k][0], list(leaves[j][1]), leaves[k][2])
                alias[k] = j
                break
    c = {'op': op, 'leaves': leaves, 'args': args}
    lines = gen_ops.program(c, rng)
    nl = len(leaves)
    io = tprog.run_program(lines)
    nout = 0 if io[-1] == 'rejected' else len(io[-1].split(','))
    shp = tprog.run_program(lines + [f't val {nl + k}' for k in range(nout)])[len(lines):]
    for k, s in enumerate(shp):
        sh = tuple(common.parse_ints(s.split('|')[0])) if '|' in s else ()
        lines.append(f"t bw {nl + k} {show_ints(sh)} {show_floats(gen_dag.rand_data(rng, sh))}")
    # freeze some operands (their gradients stay) and sweep again: a frozen operand is outside the graph being differentiated
    frozen = [k for k in range(nl) if len(leaves[k]) >= 3 and leaves[k][2] and rng.chance(.5)]
    if frozen:
        lines += [f't setrg {k} 0' for k in frozen]
        for k, s in enumerate(shp):
            sh = tuple(common.parse_ints(s.split('|')[0])) if '|' in s else ()
            lines.append(f"t bw {nl + k} {show_ints(sh)} {show_floats(gen_dag.rand_data(rng, sh))}")
    lines += [f't val {k}' for k in range(nl + nout)]
    return {'kind': 'op', 'op': op, 'lines': lines, 'alias': alias}


# ---- operands with entries OUTSIDE the domain of the op (result NaN / inf there) and non-finite operands --------------------------
DOMAIN = ['log of negative entries', 'log at 0, -0 and -1e-12 (log of exactly 0)', 'sqrt of negative entries', 'fractional power of negative entries',
          'negative power of zeros', 'division by zeros, 0/0', 'scalar / tensor with zeros', 'non-finite operand entries (inf, -inf, NaN)',
          'log / sqrt inside a graph (product, sum, backward)']
NONFINITE_OPS = ['exp', 'log', 'sqrt', 'neg', 'clone', 'tanh', 'sigmoid', 'add', 'mul']


def domain_case(rng, which):
    """one op (then a second look at it through a small graph) on an operand that holds entries outside the op's domain next to
    ordinary ones; float64 / float32; sizes below and above the small-block cache of the allocator.  The executor evaluates the op
    three times with released, sentinel-filled blocks of the operand / result sizes in between: bit-identical; the model gives the
    class of every entry (NaN where it says NaN)"""
    k = DOMAIN.index(which)
    sh = rng.pick([(4,), (2, 3), (7,), (3, 1, 2), (40,), (300,), (20, 20)])
    n = int(np.prod(sh))
    dt = rng.pick(['f64', 'f64', 'f32'])
    d = [abs(v) + 0.25 for v in gen_ops.vals(rng, sh)]
    bad = rng.sample(range(n), rng.randint(1, max(1, n // 2)))
    fb = common.fbits
    lines = []
    if k in (0, 2, 3, 8):
        for i in bad: d[i] = -d[i] * rng.pick([1.0, 1.0, 3.0, 1e-3])
    elif k == 1:
        for i in bad: d[i] = rng.pick([0.0, -0.0, -1e-12, -1e-12, -2e-12, 1e-12])
    elif k in (4, 5, 6):
        for i in bad: d[i] = rng.pick([0.0, -0.0])
    else:
        for i in bad: d[i] = rng.pick([float('inf'), float('-inf'), float('nan'), float('nan')])
    lines.append(gen_dag.leaf_line(sh, d, rng.chance(.7), dt))
    nt = 1
    if k in (0, 1): lines.append('t op log 0'); nt += 1
    elif k == 2: lines.append('t op sqrt 0'); nt += 1
    elif k == 3: lines.append(f"t op pow 0 {fb(rng.pick([0.5, 1.5, 1 / 3, -0.5, 2.5, 0.1]))}"); nt += 1
    elif k == 4: lines.append(f"t op pow 0 {fb(rng.pick([-1.0, -2.0, -0.5, -3.0]))}"); nt += 1
    elif k == 5:
        num = gen_ops.vals(rng, sh)
        for i in rng.sample(bad, max(1, len(bad) // 2)): num[i] = rng.pick([0.0, -0.0])
        lines += [gen_dag.leaf_line(sh, num, True, dt), 't sop div 1 t0']; nt += 3
    elif k == 6: lines.append(f"t sop rdiv 0 s{fb(rng.pick([2.0, -1.0, 0.0]))}"); nt += 3
    elif k == 7:
        op = rng.pick(NONFINITE_OPS)
        if op in ('add', 'mul'):
            o = gen_ops.vals(rng, sh)
            for i in rng.sample(range(n), max(1, n // 3)): o[i] = rng.pick([0.0, float('inf'), float('-inf'), -0.0])
            lines += [gen_dag.leaf_line(sh, o, True, dt), f't op {op} 0,1']; nt += 2
        else:
            lines.append(f't op {op} 0'); nt += 1
    else:
        lines += [gen_dag.leaf_line(sh, gen_ops.vals(rng, sh), True, dt), f't op {rng.pick(["log", "sqrt"])} 0', 't op mul 2,1', 't op sum 3 all 0',
                  f't bw 4 {show_ints(())} {show_floats([1.0])}']; nt += 4
    if k != 8 and rng.chance(.6):
        lines.append(f"t bw {nt - 1} {show_ints(sh)} {show_floats(gen_dag.rand_data(rng, sh))}")
    lines += [f't val {j}' for j in range(nt)] + [f't grad {j}' for j in range(nt)]
    return {'kind': 'domain', 'op': which, 'lines': lines, 'alias': {}, 'domain': which, 'dt': dt, 'tol': 1e-9 if dt == 'f64' else 2e-5, 'nbytes': n * (8 if dt == 'f64' else 4)}


def cases(rng, tier):
    out = []
    reps = 3 if tier == 'quick' else 60
    for j in range(4 * len(DOMAIN) if tier == 'quick' else 150 * len(DOMAIN)):
        out.append(domain_case(rng, DOMAIN[j % len(DOMAIN)]))
    for op in gen_ops.OPS_BASIC + gen_ops.OPS_NN:
        for _ in range(reps * (5 if op in STATEFUL else 1)):
            out.append(op_case(rng, op))
    for _ in range(40 if tier == 'quick' else 1200):
        out.append(dag_case(rng, tier))
    # value corners of the power / division family: zeros (of either sign) in a base raised to a negative power, in a denominator
    for k in range(6 if tier == 'quick' else 60):
        sh = rng.pick([(4,), (2, 3)])
        d = gen_ops.vals(rng, sh)
        for i in rng.sample(range(len(d)), 2): d[i] = rng.pick([0.0, -0.0])
        lines = [gen_dag.leaf_line(sh, d, rng.chance(.7)), gen_dag.leaf_line(sh, gen_ops.vals(rng, sh, 'pos'), True)]
        if k % 3 == 0: lines.append(f"t op pow 0 {common.fbits(rng.pick([-1.0, -2.0, -0.5]))}"); res = 2
        elif k % 3 == 1: lines.append('t sop div 1 t0'); res = 3
        else: lines.append(f"t sop rdiv 0 s{common.fbits(2.0)}"); res = 4
        lines += [f't val {j}' for j in range(res + 1)]
        out.append({'kind': 'op', 'op': 'pow-family', 'lines': lines, 'alias': {}})
    # every derivation applied to every bystander (one program per derivation), then mixtures
    for _ in range(20 if tier == 'quick' else 600):
        out.append(bystander_case(rng, [(rng.pick(DERIVATIONS), rng.randrange(len(BYSTANDERS))) for _ in range(rng.randint(1, 4))], rng.randint(1, 3)))
    for _ in range(6 if tier == 'quick' else 100):
        out.append(extractor_case(rng))
    for rep_ in range(1 if tier == 'quick' else 10):
        for d in DERIVATIONS:
            out.append(bystander_case(rng, [(d, b) for b in range(len(BYSTANDERS))], rng.randint(1, 2)))
    for w in (rng.sample(BIG, 3) if tier == 'quick' else BIG) + CORNERS:
        out.append({'kind': 'big', 'which': w, 'seed': rng.randrange(2 ** 31), 'alias': {}, 'lines': ['t modes']})
    for c in out:
        c['desc'] = ' ; '.join(c['lines'])[:600] + f" alias={c['alias']}" + (f" large arrays: {c['which']}" if c['kind'] == 'big' else '')
    return out


def _big(c):
    """arrays of several MiB (implementation side only): the result of an EARLIER call and every operand must keep their bytes when
    the same op runs again on other data of the same shape, results of two calls share no memory, and the gradients an earlier
    backward left behind are not touched by a later forward"""
    sg = common.impl()
    rs = np.random.RandomState(c['seed'])
    problems = []
    def T(shape, rg=False):
        return sg.Tensor(rs.randint(-3, 4, shape).astype(np.float32), requires_grad=rg)
    def twice(name, mk, call):
        a1, a2 = mk(), mk()
        ops1 = [t for t in a1 if isinstance(t, sg.Tensor)]
        before_ops = [t.data.tobytes() for t in ops1]
        r1 = call(*a1)
        g = sg.Tensor(rs.randint(-2, 3, r1.shape).astype(np.float32))
        if r1.requires_grad: r1.backward(g)
        snap_r1 = r1.data.tobytes()
        snap_g = [None if t._grad is None else t._grad.tobytes() for t in ops1]
        r2 = call(*a2)
        if r2.requires_grad: r2.backward(sg.Tensor(rs.randint(-2, 3, r2.shape).astype(np.float32)))
        if r1.data.tobytes() != snap_r1: problems.append(f'{name}: the result of an earlier call changed when the op ran again on other data ({r1.data.nbytes} bytes)')
        if np.shares_memory(r1.data, r2.data): problems.append(f'{name}: the results of two calls share memory')
        if [t.data.tobytes() for t in ops1] != before_ops: problems.append(f'{name}: an operand changed')
        if [None if t._grad is None else t._grad.tobytes() for t in ops1] != snap_g: problems.append(f'{name}: the gradient an earlier backward left on an operand changed during a later call')
        if any(t._grad is not None and any(np.shares_memory(t._grad, u._grad) for u in a2 if isinstance(u, sg.Tensor) and u._grad is not None) for t in ops1):
            problems.append(f'{name}: gradients of operands of two different calls share memory')
    which = c['which']
    if which.startswith('bn-one-sided'):
        # F.batch_norm in evaluation mode with only ONE of running_mean / running_var given (the model's op takes both or neither,
        # so this corner is observed on the implementation only): every operand, the given statistic included, keeps its bytes
        C = 3
        x = T((4, C, 2), True); w = T((C,), True); b = T((C,), True)
        stat = sg.Tensor(np.abs(rs.randn(C)).astype(np.float32) + 0.5)
        ops_ = [x, w, b, stat]
        before = [t.data.tobytes() for t in ops_]; ids = [id(t.data) for t in ops_]
        kw = {'running_mean': stat} if which.endswith('mean') else {'running_var': stat}
        for training in (False, False, True, False):
            y = sg.nn.functional.batch_norm(x, w, b, training=training, momentum=0.3, **kw)
            if training:      # a training forward MAY move the given statistic (documented); re-snapshot it
                before[3] = stat.data.tobytes(); ids[3] = id(stat.data)
                continue
            y.backward(sg.Tensor(rs.randn(*y.shape).astype(np.float32)))
            if [t.data.tobytes() for t in ops_] != before or [id(t.data) for t in ops_] != ids:
                problems.append(f'batch_norm(training=False, only {list(kw)[0]} given): an operand or the given running statistic changed')
        return problems
    if which == 'fold':
        twice('fold', lambda: (T((1, 2 * 512 * 512, 4), True),), lambda x: sg.nn.functional.fold(x, (1024, 1024), 512, stride=512))
    elif which == 'fold-padded':
        twice('fold (padding 1)', lambda: (T((1, 2 * 512 * 512, 4), True),), lambda x: sg.nn.functional.fold(x, (1022, 1022), 512, stride=512, padding=1))
    elif which == 'conv2d':
        twice('conv2d', lambda: (T((1, 1, 1100, 1000), True), T((2, 1, 550, 500), True)), lambda x, w: sg.nn.functional.conv2d(x, w, None, stride=(550, 500)))
    elif which == 'max_pool2d':
        twice('max_pool2d', lambda: (T((1, 1, 2048, 1024), True),), lambda x: sg.nn.functional.max_pool2d(x, (1024, 512), (1024, 512)))
    elif which == 'unfold':
        twice('unfold', lambda: (T((1, 1, 1100, 1000), True),), lambda x: sg.nn.functional.unfold(x, (550, 500), stride=(550, 500)))
    else:
        twice('matmul', lambda: (T((1100, 1000), True), T((1000, 8), True)), lambda a, b: a @ b)
    return problems


BIG = ['fold', 'fold-padded', 'conv2d', 'max_pool2d', 'unfold', 'matmul']
CORNERS = ['bn-one-sided-mean', 'bn-one-sided-var']


def _exec(c):
    if c['kind'] == 'big':
        r = common.outcome(lambda: _big(c))
        return tprog.run_program(c['lines']), ([f'large-array run raised: {c["which"]}'] if r == 'rejected' else r)
    im = Exec()
    im.alias = c['alias']
    try:
        io = [im.exec(l) for l in c['lines']]
    finally:
        im.close()
    c['_first_at'] = getattr(im, 'first_at', None)
    return io, im.problems


def impl(c):
    io, problems = _exec(c)
    c['_problems'] = problems
    return io


def compare(c, mo, io):
    diffs = tprog.diff_program(c['lines'], mo, io, c.get('tol', 1e-9))
    for p in c.get('_problems', [])[:2]:
        diffs.append(('bytes', 'unchanged', p))
    return diffs


def nontrivial(c):
    return bool(c['alias']) or c['kind'] in ('dag', 'bystander')


def distribution(cases):
    d = {'aliased': sum(1 for c in cases if c['alias'])}
    for c in cases:
        d[c['kind']] = d.get(c['kind'], 0) + 1
        if c['kind'] == 'domain':
            for k in (f"operand outside the domain: {c['domain']}", f"operand outside the domain: {c['dt']}, {'<= 1024' if c['nbytes'] <= 1024 else '> 1024'} bytes"):
                d[k] = d.get(k, 0) + 1
        for dv, b in c.get('plan', []):       # constants in a differentiated graph: how they were derived x the gradient state of the bystander they come from
            k = f'constant by {dv} <- {b}'
            d[k] = d.get(k, 0) + 1
    return d


def oracle(c):
    io, problems = _exec(c)
    at = c.get('_first_at')
    if problems and at is not None and at + 1 < len(c['lines']) and c['kind'] != 'big':
        short = dict(c, lines=c['lines'][:at + 1])          # the program up to the line at which the first problem showed
        _, p2 = _exec(short)
        if p2: c, problems = short, p2
    if problems:
        what = 'repeat'
        if ' changed ' in problems[0]:
            l_, k_ = problems[0].split(' changed ')[:2]
            tk = l_.split(' ')
            what = ' '.join(tk[:3] if tk[1] in ('op', 'sop', 'loss') else tk[:2]) + ' changed ' + (k_.split("'")[1] if "'" in k_ else k_)
        return {'key': {'cls': 'mutation', 'what': what},
                'case': {'lines': c['lines'], 'alias': c['alias'], 'kind': c['kind'], 'which': c.get('which'), 'seed': c.get('seed')}, 'what': '; '.join(problems[:3])}
    return None


def search(rng, tier):
    for c in cases(rng, 'quick'):
        f = oracle(c)
        if f: yield f


def _fix(c):
    c['alias'] = {int(k): v for k, v in c.get('alias', {}).items()}
    return c
def matches_known(k, fail): return k.get('key') == fail.get('key')
def rerun_known(k): return oracle(_fix(k['witness'])) is not None
def replay(fail):
    f = oracle(_fix(fail['case']))
    return {'fails': f is not None, 'now': f}
