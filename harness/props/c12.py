"""C12 — module trees (synapgrad/nn/modules.py) against Synap.Modules"""
from collections import OrderedDict
import numpy as np
import common
from common import show_ints, outcome

PROP = 'C12'
LEAN_TARGETS = ['Props.C12']
REQUIRED_THEOREMS = ['Props.C12.parameters_nodup', 'Props.C12.parameters_eq_dedup_flat', 'Props.C12.mem_parameters_iff',
                     'Props.C12.numParams_split', 'Props.C12.setAttr_replaces', 'Props.C12.setTraining_reaches',
                     'Props.C12.sequential_order', 'Props.C12.zeroGrad_exact', 'Props.C12.setReqGrad_exact']
RULE = ('random module programs: create modules/parameters, assign attributes from a small name pool (so names are '
        're-assigned to another module / parameter / None / a plain value), explicit register_*, Sequential positional '
        'and OrderedDict, shared parameters and submodules (child created before parent), interleaved with '
        'train/eval/freeze/unfreeze/zero_grad on any node; after every mutation the parameter list, counts, all training '
        'flags and all parameter flags are compared. Non-trivial: the program shares or re-assigns at least one name.')
EXHAUSTIVE = {'quick': False, 'thorough': False}
ASSUMPTIONS = ['hierarchies are acyclic (a module is never made a descendant of itself)']
TRUSTED_BASE = ['harness/props/c12.py (generator, canonicalisation)']
NAMES = ['a', 'b', 'c', 'w', '_u', '_fc', 'A1']      # attribute names incl. underscore-prefixed and capitalised ones


def gen_program(rng, nops):
    ops, nm, npar = [], 0, 0
    shared = reassigned = False
    used = {}
    for _ in range(nops):
        r = rng.random()
        if nm == 0 or r < 0.12:
            ops.append('mod new'); nm += 1
        elif npar == 0 or r < 0.22:
            ops.append(f'mod param {rng.randint(1, 6)} {rng.randint(0, 1)}'); npar += 1
        elif r < 0.55:
            m = rng.randrange(nm)
            name = rng.pick(NAMES)
            kind = rng.random()
            if kind < 0.4:
                v = f'p{rng.randrange(npar)}'
            elif kind < 0.75 and m > 0:
                v = f'm{rng.randrange(m)}'
            elif kind < 0.88:
                v = 'none'
            else:
                v = 'other'
            if (m, name) in used: reassigned = True
            if v in used.values(): shared = True
            used[(m, name)] = v
            ops.append(f'mod set {m} {name} {v}')
        elif r < 0.60 and nm > 1:
            m = rng.randrange(1, nm)
            # explicit registration, half of the time over a name that currently holds a PARAMETER of that module
            taken = [n_ for (m_, n_), v_ in used.items() if m_ == m and v_.startswith('p')]
            name = rng.pick(taken) if taken and rng.chance(.5) else rng.pick(NAMES)
            k = rng.randrange(m)
            used[(m, name)] = f'm{k}'
            ops.append(f'mod regm {m} {name} {k}')
        elif r < 0.64:
            m = rng.randrange(nm)
            # ... and over a name that currently holds a SUBMODULE
            taken = [n_ for (m_, n_), v_ in used.items() if m_ == m and v_.startswith('m')]
            name = rng.pick(taken) if taken and rng.chance(.5) else rng.pick(NAMES)
            k = rng.randrange(npar)
            used[(m, name)] = f'p{k}'
            ops.append(f'mod regp {m} {name} {k}')
        elif r < 0.70:
            ks = [rng.randrange(nm) for _ in range(rng.randint(0, 3))]
            if rng.chance(0.5):
                ops.append(f'mod seq {show_ints(ks)}')
            else:
                names = rng.sample(['l0', 'l1', 'l2', 'a', 'b'], len(ks))
                ops.append('mod seqd ' + (','.join(f'{n}:{k}' for n, k in zip(names, ks)) if ks else '_'))
            ops.append(f'mod order {nm}')
            nm += 1
        else:
            m = rng.randrange(nm)
            ops.append(f'mod {rng.pick(["train", "eval", "zero", "freeze", "unfreeze"])} {m}')
        if npar and rng.chance(.25):       # gradients: set through the setter, shared between two parameters, then zeroed / frozen above
            a, b_ = rng.randrange(npar), rng.randrange(npar)
            ops.append(rng.pick([f'mod gset {a} {rng.randint(1, 9)}', f'mod gset {a} {rng.randint(1, 9)}', f'mod gshare {a} {b_}']))
            ops.append('mod grads')
        # observe after every op
        q = rng.randrange(nm)
        ops += [f'mod params {q}', f'mod num {q}']
        if rng.chance(0.5):
            ops += ['mod flags', 'mod pflags', 'mod grads']
    ops += [f'mod params {k}' for k in range(nm)] + ['mod flags', 'mod pflags', 'mod grads']
    return ops, shared or reassigned


def gen_mode_program(rng):
    """deep trees with mixed mode histories: train()/eval() on inner nodes and the root in any order, modules attached in
    between; the flags of every node are observed after every call"""
    n = rng.randint(3, 6)
    ops = ['mod new']
    for m in range(1, n):
        ops += ['mod new', f'mod set {m} {rng.pick(NAMES)} m{m - 1 if rng.chance(.7) else rng.randrange(m)}']
    nm = n
    for _ in range(rng.randint(4, 10)):
        r = rng.random()
        if r < 0.15:
            ops += ['mod new', f'mod set {rng.randrange(nm)} {rng.pick(NAMES)}x m{nm}']   # a fresh (training) module under any node
            nm += 1
        else:
            ops.append(f'mod {rng.pick(["train", "eval"])} {rng.pick([nm - 1, n - 1, rng.randrange(nm), rng.randrange(nm)])}')
        ops.append('mod flags')
    return ops, True


def cases(rng, tier):
    out = []
    n = 150 if tier == 'quick' else 4000
    for i in range(n):
        ops, nt = gen_program(rng, rng.randint(3, 25 if tier == 'quick' else 40))
        out.append({'lines': ops, 'nt': nt, 'desc': ' ; '.join(ops[:40])})
    for i in range(n // 3):
        ops, nt = gen_mode_program(rng)
        out.append({'lines': ops, 'nt': nt, 'desc': ' ; '.join(ops[:40])})
    # corpus: minimal programs for each past defect
    corpus = [
        ['mod new', 'mod param 3 1', 'mod set 0 a p0', 'mod set 0 b p0', 'mod params 0', 'mod num 0'],
        ['mod new', 'mod new', 'mod param 2 1', 'mod set 0 w p0', 'mod set 1 a m0', 'mod set 1 b m0', 'mod params 1', 'mod num 1'],
        ['mod new', 'mod param 2 1', 'mod set 0 a p0', 'mod set 0 a none', 'mod params 0'],
        ['mod new', 'mod new', 'mod param 2 0', 'mod set 0 a p0', 'mod set 1 a m0', 'mod set 1 a p0', 'mod params 1', 'mod set 1 a m0', 'mod regp 1 a 0', 'mod params 1'],
        ['mod seq _', 'mod order 0', 'mod params 0'],
        ['mod new', 'mod new', 'mod new', 'mod set 1 a m0', 'mod set 2 a m1', 'mod eval 2', 'mod flags', 'mod train 1', 'mod flags'],
        # two parameters of different modules over the same gradient values; zero_grad on one owner leaves the other alone
        ['mod new', 'mod new', 'mod param 3 1', 'mod param 3 1', 'mod set 0 w p0', 'mod set 1 w p1', 'mod gset 0 5', 'mod gshare 0 1', 'mod grads', 'mod zero 0', 'mod grads', 'mod pflags',
         'mod freeze 1', 'mod gset 0 7', 'mod gshare 0 1', 'mod zero 1', 'mod grads'],
    ]
    # explicit registration over a name that holds a member of the OTHER kind, then every listing / mode / freeze query
    tail = lambda m: [f'mod params {m}', f'mod num {m}', f'mod eval {m}', 'mod flags', f'mod freeze {m}', 'mod pflags', f'mod train {m}', 'mod flags', f'mod unfreeze {m}', 'mod pflags', f'mod num {m}']
    corpus += [
        ['mod new', 'mod new', 'mod param 3 1', 'mod param 5 1', 'mod set 1 a p0', 'mod set 1 b p1', 'mod regm 1 a 0'] + tail(1),
        ['mod new', 'mod new', 'mod param 3 1', 'mod param 5 0', 'mod set 0 w p1', 'mod set 1 a m0', 'mod regp 1 a 0'] + tail(1),
        ['mod new', 'mod new', 'mod new', 'mod param 2 1', 'mod param 4 1', 'mod set 0 w p0', 'mod set 2 _fc m0', 'mod set 2 A1 p1', 'mod regp 2 _fc 1', 'mod regm 2 A1 1'] + tail(2),
    ]
    for ops in corpus:
        out.append({'lines': ops, 'nt': True, 'desc': ' ; '.join(ops)})
    return out


class World:
    def __init__(self):
        sg = common.impl()
        from synapgrad import nn
        self.nn = nn
        self.sg = sg
        self.mods, self.pars, self.log = [], [], []
        w = self
        class M(nn.Module):
            def forward(self, x):
                w.log.append(w.mods.index(self)); return x
        self.M = M

    def val(self, v):
        if v == 'none': return None
        if v == 'other': return 3.14
        return self.mods[int(v[1:])] if v[0] == 'm' else self.pars[int(v[1:])]

    def run(self, line):
        t = line.split(' ')[1:]
        nn = self.nn
        if t[0] == 'new':
            self.mods.append(self.M()); return f'm{len(self.mods) - 1}'
        if t[0] == 'param':
            self.pars.append(nn.Parameter(np.zeros(int(t[1]), dtype=np.float32), requires_grad=bool(int(t[2]))))
            return f'p{len(self.pars) - 1}'
        if t[0] == 'set':
            setattr(self.mods[int(t[1])], t[2], self.val(t[3])); return 'ok'
        if t[0] == 'regm':
            self.mods[int(t[1])].register_module(t[2], self.mods[int(t[3])]); return 'ok'
        if t[0] == 'regp':
            self.mods[int(t[1])].register_parameter(t[2], self.pars[int(t[3])]); return 'ok'
        if t[0] == 'seq':
            ks = common.parse_ints(t[1])
            self.mods.append(nn.Sequential(*[self.mods[k] for k in ks])); return f'm{len(self.mods) - 1}'
        if t[0] == 'seqd':
            d = OrderedDict() if t[1] == '_' else OrderedDict((nk.split(':')[0], self.mods[int(nk.split(':')[1])]) for nk in t[1].split(','))
            self.mods.append(nn.Sequential(d)); return f'm{len(self.mods) - 1}'
        if t[0] == 'gset':          # p.grad = Tensor(full(v)) through the public setter
            P = self.pars[int(t[1])]
            P.grad = self.sg.Tensor(np.full(P.shape, float(t[2]), dtype=P.data.dtype)); return 'ok'
        if t[0] == 'gshare':        # q.grad = p.grad : two parameters over the same gradient values (the implementation shares the buffer)
            P, Q = self.pars[int(t[1])], self.pars[int(t[2])]
            if P._grad is not None and P.data.size == Q.data.size:
                Q.grad = P.grad
            return 'ok'
        if t[0] == 'grads':
            return ','.join('-' if p._grad is None else str(int(p._grad.ravel()[0])) for p in self.pars) or '_'
        m = self.mods[int(t[1])] if len(t) > 1 else None
        if t[0] == 'params':
            ps = m.parameters()
            return show_ints([next(i for i, q in enumerate(self.pars) if q is p) for p in ps])
        if t[0] == 'num':
            return f'{m.num_params()},{m.num_params(trainable=True)},{m.num_params(non_trainable=True)}'
        if t[0] in ('train', 'eval', 'freeze', 'unfreeze'):
            getattr(m, t[0])(); return 'ok'
        if t[0] == 'zero':
            m.zero_grad(); return 'ok'
        if t[0] == 'order':
            self.log.clear()
            x = self.sg.Tensor(np.zeros(1, dtype=np.float32))
            y = m(x)
            if y is not x: return 'not-composition'
            # nested Sequentials log their own children too: keep only direct children
            direct = [self.mods.index(s) for s in m.submodules()]
            return show_ints(direct) if self._direct_order_ok(m) else 'wrong-order'
        if t[0] == 'flags':
            return ','.join(str(int(x.training)) for x in self.mods) or '_'
        if t[0] == 'pflags':
            return ','.join(f'{int(p.requires_grad)}{int(p._grad is not None)}' for p in self.pars) or '_'
        return 'bad-op'

    def _direct_order_ok(self, m):
        """the forward pass visited the direct submodules in registration order (pre-order of the log)"""
        def expand(mod):
            out = []
            for s in mod.submodules():
                if isinstance(s, self.nn.Sequential):
                    out += expand(s)
                else:
                    out.append(self.mods.index(s))
            return out
        return self.log == expand(m)


def impl(c):
    w = World()
    out = []
    for line in c['lines']:
        out.append(outcome(lambda: w.run(line)))
    c['_world'] = w
    return out


def nontrivial(c):
    return c['nt']


def distribution(cases):
    d = {}
    for c in cases:
        for l in c['lines']:
            k = l.split(' ')[1]
            d[k] = d.get(k, 0) + 1
    return d


# ---- property predicate on the implementation alone: walk instance attributes ------------------
def _reach(nn, m, seen_m, params):
    if id(m) in seen_m: return
    seen_m[id(m)] = m
    for k, v in vars(m).items():
        if k.startswith('_'): continue
        if isinstance(v, nn.Parameter):
            params[id(v)] = v
        elif isinstance(v, nn.Module):
            _reach(nn, v, seen_m, params)


def oracle(c):
    w = World()
    for li, line in enumerate(c['lines']):
        r = outcome(lambda: w.run(line))
        t = line.split(' ')
        if r == 'rejected' and t[1] != 'unfreeze':
            return {'key': {'class': 'rejected', 'op': t[1]}, 'case': {'lines': c['lines'][:li + 1]}, 'what': f'{line} raised'}
        if r in ('wrong-order', 'not-composition'):
            return {'key': {'class': r}, 'case': {'lines': c['lines'][:li + 1]}, 'what': f'Sequential forward: {r}'}
        for mi, m in enumerate(w.mods):
            ps = m.parameters()
            seen_m, params = {}, {}
            _reach(w.nn, m, seen_m, params)
            prog = {'lines': c['lines'][:li + 1]}
            if len({id(p) for p in ps}) != len(ps):
                return {'key': {'class': 'duplicate'}, 'case': prog, 'what': f'parameters() of m{mi} lists a parameter twice'}
            if {id(p) for p in ps} != set(params):
                return {'key': {'class': 'reachability'}, 'case': prog, 'what': f'parameters() of m{mi} has {len(ps)} entries, {len(params)} parameters are reachable through attributes'}
            tot = sum(p.size for p in params.values())
            tr = sum(p.size for p in params.values() if p.requires_grad)
            if (m.num_params(), m.num_params(trainable=True), m.num_params(non_trainable=True)) != (tot, tr, tot - tr):
                return {'key': {'class': 'num_params'}, 'case': prog, 'what': f'num_params of m{mi} != ({tot},{tr},{tot - tr})'}
        if t[1] in ('train', 'eval') and r == 'ok':
            seen_m, params = {}, {}
            _reach(w.nn, w.mods[int(t[2])], seen_m, params)
            if any(x.training != (t[1] == 'train') for x in seen_m.values()):
                return {'key': {'class': 'mode'}, 'case': {'lines': c['lines'][:li + 1]}, 'what': f'{line} did not reach every descendant'}
        if t[1] in ('freeze', 'unfreeze', 'zero') and r == 'ok':
            seen_m, params = {}, {}
            _reach(w.nn, w.mods[int(t[2])], seen_m, params)
            for p in params.values():
                if t[1] == 'zero' and p.requires_grad and (p._grad is None or np.any(p._grad != 0)):
                    return {'key': {'class': 'zero_grad'}, 'case': {'lines': c['lines'][:li + 1]}, 'what': 'zero_grad missed a parameter'}
                if t[1] != 'zero' and p.requires_grad != (t[1] == 'unfreeze'):
                    return {'key': {'class': 'freeze'}, 'case': {'lines': c['lines'][:li + 1]}, 'what': f'{t[1]} missed a parameter'}
    return None


def search(rng, tier):
    for c in cases(rng, 'quick'):
        f = oracle(c)
        if f:
            yield f


def matches_known(k, fail):
    return k.get('key') == fail.get('key')


def rerun_known(k):
    return oracle(k['witness']) is not None


def replay(fail):
    f = oracle(fail['case'])
    return {'fails': f is not None, 'now': f}
