"""C12 — module trees (synapgrad/nn/modules.py) against Synap.Modules"""
from collections import OrderedDict
import numpy as np
import common
from common import show_ints, outcome

PROP = 'C12'
LEAN_TARGETS = ['Props.C12']
REQUIRED_THEOREMS = ['Props.C12.applyOrder_setAttr_frame', 'Props.C12.updColl_frame', 'Props.C12.seqFrom_spec', 'Props.C12.seqFrom_list_order_stable',
                     'Props.C12.parameters_nodup', 'Props.C12.parameters_eq_dedup_flat', 'Props.C12.mem_parameters_iff',
                     'Props.C12.numParams_split', 'Props.C12.setAttr_replaces', 'Props.C12.setTraining_reaches',
                     'Props.C12.sequential_order', 'Props.C12.zeroGrad_exact', 'Props.C12.setReqGrad_exact',
                     'Props.C12.applyOrder_setAttr_mod', 'Props.C12.applyOrder_setAttr_other', 'Props.C12.applyOrder_regMod',
                     'Props.C12.wrapPar_spec', 'Props.C12.wrapPar_frame', 'Props.C12.setReqGrad_other', 'Props.C12.zeroGrad_other', 'Props.C12.setParReqGrad_other']
RULE = ('random module programs: create modules/parameters, assign attributes from a small name pool (so names are '
        're-assigned to another module / parameter / None / a plain value), explicit register_*, Sequential positional '
        'and OrderedDict, shared parameters and submodules (child created before parent), interleaved with '
        'train/eval/freeze/unfreeze/zero_grad on any node; after every mutation the parameter list, counts, all training '
        'flags and all parameter flags are compared. Containers with MANY members (Sequentials of 4-14 members in the quick tier, '
        '100+ in the thorough tier; positional, OrderedDict with numeric-looking keys in any order, nested), whose members do not '
        'commute (x*a+b) and are replaced / removed / added by assignment and by register_module under numeric names: the order in '
        'which forward CALLS the members is recorded and compared with the model after every such mutation, the value with the '
        'composition. Deep chains whose ancestors have all been listed / counted / zeroed once before a nested attribute is '
        'replaced. CALLER-OWNED COLLECTIONS: OrderedDicts and lists of modules are objects of the program; containers are built from them '
        '(Sequential(d), Sequential(*l)), the same object is used for a second / third container, and the caller adds / replaces / '
        'removes / moves / reverses / clears its entries before, between and after the constructions, interleaved with attribute '
        'replacement, register_module, train / eval / freeze / unfreeze / zero_grad on the containers; after every step every '
        'container is listed, counted and run (each must depend on its own history only). '
        'PARAMETERS CREATED FROM EXISTING OBJECTS: nn.Parameter(t) over a live tensor (twice on the same one), nn.Parameter(p) over a parameter '
        'that stays in use (dec.w = nn.Parameter(enc.w)), a Parameter of a Parameter of a Parameter, sources with and without a gradient and with '
        'either flag, the copies registered in other subtrees than their sources; then freeze / unfreeze / zero_grad on single owners and common '
        'ancestors, the requires_grad setter and the .grad setter on single objects, in any order; after every step the flags and gradients of ALL '
        'objects (sources included) are compared, and every object outside the parameters() of the node acted on must be exactly as it was. '
        'REGISTERED NAMES are opaque strings: names drawn from atoms (identifiers, digits, the empty string) and dotted paths made of them, own members '
        'named like the dot-joined path of a member further down (built on purpose one and two levels deep, parameter / submodule, attribute / register_* / '
        'OrderedDict key); every listing (parameters, num_params, forward order, freeze / unfreeze / zero_grad) asked after every step. '
        'GRAD-MODE CONTEXTS: programs of every family executed partly inside `with no_grad():` / `with retain_grads():` blocks (nested to depth 3, left '
        'normally or by an exception): freeze / unfreeze / zero_grad / listings / counts / registration / the setters must not depend on the grad mode '
        '(only an object CONSTRUCTED with requires_grad=True while autograd is off differs, and the model is told so). '
        'Non-trivial: the program shares or re-assigns at least one name.')
EXHAUSTIVE = {'quick': False, 'thorough': False}
ASSUMPTIONS = ['hierarchies are acyclic (a module is never made a descendant of itself)']
TRUSTED_BASE = ['harness/props/c12.py (generator, canonicalisation)']
NAMES = ['a', 'b', 'c', 'w', '_u', '_fc', 'A1']      # attribute names incl. underscore-prefixed and capitalised ones
DNAMES = ['l0', 'l1', 'l2', 'a', 'b', '0', '1', '2', '9', '10', '11', '100', '02']      # OrderedDict keys incl. numeric-looking ones (a Sequential must not re-sort them)


def seq_len(rng, tier):
    """number of members of a generated Sequential: the registry of a container is an ordered mapping keyed by str(index), so the
    lengths around every power of ten (where the string order of the keys departs from their numeric order) are drawn on purpose"""
    r = rng.random()
    if r < 0.55: return rng.randint(0, 3)
    if r < 0.75: return rng.randint(4, 10)
    if tier == 'quick' or r < 0.93: return rng.randint(11, 14)
    return rng.pick([21, 99, 100, 101, 102, 111, 120])


def seq_line(rng, ks, positional):
    if positional:
        return f'mod seq {show_ints(ks)}', [str(i) for i in range(len(ks))]
    pool = DNAMES + [str(i) for i in range(12, 12 + max(0, len(ks) - len(DNAMES)))]
    names = rng.sample(pool, len(ks))
    return 'mod seqd ' + (','.join(f'{n}:{k}' for n, k in zip(names, ks)) if ks else '_'), names


def gen_program(rng, nops, tier='quick'):
    ops, nm, npar = [], 0, 0
    shared = reassigned = False
    used = {}
    seqs = {}          # Sequential id -> names ever registered on it
    for _ in range(nops):
        r = rng.random()
        if seqs and rng.chance(.12):
            # a member of a container replaced / removed / added: by assignment (drops the old registration, registers anew) or by
            # register_module (an existing key keeps its slot), under an existing key, the next index, or any other name
            q = rng.pick(sorted(seqs))
            name = rng.pick(seqs[q]) if seqs[q] and rng.chance(.7) else rng.pick([str(len(seqs[q])), str(rng.randint(0, 15)), rng.pick(NAMES), rng.pick(DNAMES)])
            how = rng.random()
            if how < .55: ops.append(f'mod set {q} {name} m{rng.randrange(q)}')
            elif how < .8: ops.append(f'mod regm {q} {name} {rng.randrange(q)}')
            elif how < .9 and npar: ops.append(f'mod set {q} {name} p{rng.randrange(npar)}')
            else: ops.append(f'mod set {q} {name} {rng.pick(["none", "other"])}')
            if name not in seqs[q]: seqs[q].append(name)
            reassigned = True
            ops += [f'mod order {q}', f'mod params {q}']
        elif nm == 0 or r < 0.12:
            ops.append('mod new'); nm += 1
        elif npar == 0 or r < 0.22:
            ops.append(f'mod param {rng.randint(1, 6)} {rng.randint(0, 1)}'); npar += 1
        elif r < 0.55:
            m = rng.randrange(nm)
            name = rng.pick(NAMES)
            kind = rng.random()
            if kind < 0.4:
                v = f'p{rng.randrange(npar)}'
            elif kind < 0.75 and m > 0:
                v = f'm{rng.randrange(m)}'
            elif kind < 0.88:
                v = 'none'
            else:
                v = 'other'
            if (m, name) in used: reassigned = True
            if v in used.values(): shared = True
            used[(m, name)] = v
            ops.append(f'mod set {m} {name} {v}')
        elif r < 0.60 and nm > 1:
            m = rng.randrange(1, nm)
            # explicit registration, half of the time over a name that currently holds a PARAMETER of that module
            taken = [n_ for (m_, n_), v_ in used.items() if m_ == m and v_.startswith('p')]
            name = rng.pick(taken) if taken and rng.chance(.5) else rng.pick(NAMES)
            k = rng.randrange(m)
            used[(m, name)] = f'm{k}'
            ops.append(f'mod regm {m} {name} {k}')
        elif r < 0.64:
            m = rng.randrange(nm)
            # ... and over a name that currently holds a SUBMODULE
            taken = [n_ for (m_, n_), v_ in used.items() if m_ == m and v_.startswith('m')]
            name = rng.pick(taken) if taken and rng.chance(.5) else rng.pick(NAMES)
            k = rng.randrange(npar)
            used[(m, name)] = f'p{k}'
            ops.append(f'mod regp {m} {name} {k}')
        elif r < 0.70:
            ks = [rng.randrange(nm) for _ in range(seq_len(rng, tier))]
            line, names = seq_line(rng, ks, rng.chance(0.5))
            ops.append(line)
            seqs[nm] = names
            ops.append(f'mod order {nm}')
            nm += 1
        else:
            m = rng.randrange(nm)
            ops.append(f'mod {rng.pick(["train", "eval", "zero", "freeze", "unfreeze"])} {m}')
        if npar and rng.chance(.25):       # gradients: set through the setter, shared between two parameters, then zeroed / frozen above
            a, b_ = rng.randrange(npar), rng.randrange(npar)
            ops.append(rng.pick([f'mod gset {a} {rng.randint(1, 9)}', f'mod gset {a} {rng.randint(1, 9)}', f'mod gshare {a} {b_}']))
            ops.append('mod grads')
        # observe after every op
        q = rng.randrange(nm)
        ops += [f'mod params {q}', f'mod num {q}']
        if seqs and rng.chance(.3):          # containers are run again at any later point, not only when they are built
            ops.append(f'mod order {rng.pick(sorted(seqs))}')
        if rng.chance(0.5):
            ops += ['mod flags', 'mod pflags', 'mod grads']
    ops += [f'mod params {k}' for k in range(nm)] + [f'mod order {q}' for q in sorted(seqs)] + ['mod flags', 'mod pflags', 'mod grads']
    return ops, shared or reassigned


def gen_mode_program(rng):
    """deep trees with mixed mode histories: train()/eval() on inner nodes and the root in any order, modules attached in
    between; the flags of every node are observed after every call"""
    n = rng.randint(3, 6)
    ops = ['mod new']
    for m in range(1, n):
        ops += ['mod new', f'mod set {m} {rng.pick(NAMES)} m{m - 1 if rng.chance(.7) else rng.randrange(m)}']
    nm = n
    for _ in range(rng.randint(4, 10)):
        r = rng.random()
        if r < 0.15:
            ops += ['mod new', f'mod set {rng.randrange(nm)} {rng.pick(NAMES)}x m{nm}']   # a fresh (training) module under any node
            nm += 1
        else:
            ops.append(f'mod {rng.pick(["train", "eval"])} {rng.pick([nm - 1, n - 1, rng.randrange(nm), rng.randrange(nm)])}')
        ops.append('mod flags')
    return ops, True


def gen_seq_program(rng, tier):
    """one container with many order-sensitive members (each base module carries its own parameter, so parameters() shows the order
    too), run; then members replaced / removed / appended by assignment and by register_module, run again after every change; then
    the container nested into a second many-member container"""
    nb = rng.randint(2, 6)
    ops = []
    for b in range(nb):
        ops += ['mod new', f'mod param {rng.randint(1, 4)} {rng.randint(0, 1)}', f'mod set {b} w p{b}']
    N = rng.pick([9, 10, 11, 12, 13, 14, 20, 23] if tier == 'quick' else [10, 11, 12, 20, 21, 99, 100, 101, 102, 110, 111, 128])
    ks = [rng.randrange(nb) for _ in range(N)]
    for i in range(min(nb, N)): ks[rng.randrange(N)] = i
    line, names = seq_line(rng, ks, rng.chance(.7))
    q = nb
    ops += [line, f'mod order {q}', f'mod params {q}', f'mod num {q}']
    nm = nb + 1
    for _ in range(rng.randint(2, 6)):
        r = rng.random()
        name = rng.pick(names) if r < .7 else rng.pick([str(len(names)), str(len(names) + 1), str(rng.randint(0, 2 * N)), 'tail'])
        v = rng.random()
        if v < .5: ops.append(f'mod set {q} {name} m{rng.randrange(nb)}')
        elif v < .75: ops.append(f'mod regm {q} {name} {rng.randrange(nb)}')
        elif v < .85: ops.append(f'mod set {q} {name} none')
        else: ops.append(f'mod set {q} {name} other')
        if name not in names: names.append(name)
        ops += [f'mod order {q}', f'mod params {q}']
        if rng.chance(.3): ops += [f'mod {rng.pick(["eval", "train", "zero", "freeze", "unfreeze"])} {q}', 'mod flags', 'mod pflags']
    # nested: a second container over the first one and the base modules
    M = rng.pick([3, 11, 12])
    ks2 = [rng.pick([q] + list(range(nb))) for _ in range(M)]
    ks2[rng.randrange(M)] = q
    line2, _ = seq_line(rng, ks2, rng.chance(.7))
    ops += [line2, f'mod order {nm}', f'mod params {nm}', f'mod num {nm}', f'mod order {q}']
    return ops, True


def gen_deep_program(rng):
    """a chain root -> ... -> innermost (depth 3-5), every node holding a parameter; every ancestor is listed / counted / zeroed
    once (whatever a module may remember from that must not survive a change further down); then an attribute of a NESTED node is
    replaced (parameter or whole sub-chain), removed, or added, and every ancestor is asked again"""
    d = rng.randint(3, 5)
    ops, npar = [], 0
    for m in range(d):
        ops += ['mod new', f'mod param {rng.randint(1, 4)} {rng.randint(0, 1)}', f'mod set {m} w p{npar}']; npar += 1
        if m: ops.append(f'mod set {m} {rng.pick(["sub", "a", "_fc"])} m{m - 1}')
    nm = d
    ask = lambda: [x for m in range(nm) for x in (f'mod params {m}', f'mod num {m}')]
    for _ in range(rng.randint(2, 5)):
        for m in rng.sample(range(nm), rng.randint(1, nm)):      # what the ancestors are asked before the change
            ops.append(rng.pick([f'mod params {m}', f'mod num {m}', f'mod zero {m}', f'mod freeze {m}', f'mod unfreeze {m}', f'mod eval {m}']))
        tgt = rng.randrange(0, max(1, d - 1))        # a node below the root
        r = rng.random()
        if r < .35:
            ops += [f'mod param {rng.randint(1, 4)} 1', f'mod set {tgt} {rng.pick(["w", "w", "v"])} p{npar}']; npar += 1
        elif r < .6:
            ops += ['mod new', f'mod param {rng.randint(1, 4)} 1', f'mod set {nm} w p{npar}']; npar += 1
            if tgt >= 1:       # a fresh sub-tree in place of the old one (ids: a child is older than its parent only for the original chain; the fresh module has no descendants)
                ops.append(f'mod set {tgt} {rng.pick(["sub", "a", "_fc", "extra"])} m{nm}')
            else:
                ops.append(f'mod set {tgt} extra m{nm}')
            nm += 1
        elif r < .8:
            ops.append(f'mod set {tgt} {rng.pick(["w", "sub", "a", "_fc", "v"])} {rng.pick(["none", "other"])}')
        else:
            ops.append(f'mod regp {tgt} {rng.pick(["w", "v", "sub"])} {rng.randrange(npar)}')
        if rng.chance(.5):
            p_ = rng.randrange(npar); ops.append(f'mod gset {p_} {rng.randint(1, 9)}')
        top = rng.randrange(tgt, d)
        ops += ask() + [f'mod {rng.pick(["zero", "freeze", "unfreeze", "train"])} {top}', 'mod flags', 'mod pflags', 'mod grads']
    return ops, True


def gen_coll_program(rng, tier):
    """collections owned by the caller: OrderedDicts / lists of modules are created, handed to container constructors (the same object
    to several containers), and edited by the caller at any time; the containers themselves get attributes replaced / members registered /
    modes and flags switched.  Every container is observed after every step."""
    nb = rng.randint(2, 5)
    ops, npar = [], 0
    for b in range(nb):
        ops += ['mod new', f'mod param {rng.randint(1, 4)} {rng.randint(0, 1)}', f'mod set {b} w p{b}']; npar += 1
    nm = nb
    colls = []            # per collection: [is_dict, current keys (dict) / length (list)]
    conts = {}            # container id -> names ever registered on it
    built_from = {}       # collection -> containers built from it
    def observe(full=False):
        out = []
        for q in sorted(conts):
            out += [f'mod order {q}', f'mod params {q}']
            if full or rng.chance(.3): out.append(f'mod num {q}')
        if full or rng.chance(.4): out += ['mod flags', 'mod pflags']
        return out
    def new_coll():
        n = rng.pick([0, 1, 2, 2, 3, 3, 4, 5])
        ks = [rng.randrange(nm) for _ in range(n)]
        if rng.chance(.6):
            names = rng.sample(DNAMES, n)
            ops.append('mod cdict ' + (','.join(f'{a}:{k}' for a, k in zip(names, ks)) or '_'))
            colls.append([True, names])
        else:
            ops.append(f'mod clist {show_ints(ks)}')
            colls.append([False, n])
    def build(ci):
        nonlocal nm
        ops.append(f'mod seqc {ci}')
        conts[nm] = list(colls[ci][1]) if colls[ci][0] else [str(i) for i in range(colls[ci][1])]
        built_from.setdefault(ci, []).append(nm)
        nm += 1
    def edit(ci):
        isd, keys = colls[ci]
        r = rng.random()
        if isd:
            name = rng.pick(keys) if keys and rng.chance(.6) else rng.pick(DNAMES)
            if r < .45:
                ops.append(f'mod cput {ci} {name} {rng.randrange(nm)}')
                if name not in keys: keys.append(name)
            elif r < .65:
                ops.append(f'mod cdel {ci} {name}')
                if name in keys: keys.remove(name)
            elif r < .85:
                last = rng.randint(0, 1)
                ops.append(f'mod cmove {ci} {name} {last}')
                if name in keys:
                    keys.remove(name); keys.insert(len(keys) if last else 0, name)
            elif r < .95:
                ops.append(f'mod crev {ci}'); keys.reverse()
            else:
                ops.append(f'mod cclear {ci}'); del keys[:]
        else:
            n = keys
            idx = rng.randrange(n) if n and rng.chance(.7) else n + rng.randint(0, 1)
            if r < .45:
                ops.append(f'mod cput {ci} {idx} {rng.randrange(nm)}')
                if idx >= n: colls[ci][1] = n + 1
            elif r < .65:
                ops.append(f'mod cdel {ci} {idx}')
                if idx < n: colls[ci][1] = n - 1
            elif r < .85:
                ops.append(f'mod cmove {ci} {idx} {rng.randint(0, 1)}')
            elif r < .95:
                ops.append(f'mod crev {ci}')
            else:
                ops.append(f'mod cclear {ci}'); colls[ci][1] = 0
    def touch(q):
        names = conts[q]
        r = rng.random()
        name = rng.pick(names) if names and rng.chance(.7) else rng.pick([str(len(names)), rng.pick(DNAMES), rng.pick(NAMES)])
        if r < .4: ops.append(f'mod set {q} {name} m{rng.randrange(q)}')
        elif r < .55: ops.append(f'mod regm {q} {name} {rng.randrange(q)}')
        elif r < .65: ops.append(f'mod set {q} {name} {rng.pick(["none", "other"])}')
        elif r < .72: ops.append(f'mod set {q} {name} p{rng.randrange(npar)}')
        else:
            ops.append(f'mod {rng.pick(["freeze", "unfreeze", "eval", "train", "zero"])} {q}'); return
        if name not in names: names.append(name)
    new_coll(); build(0)
    if rng.chance(.7): build(0)                    # the same object handed to a second container straight away
    ops.extend(observe(True))
    for _ in range(rng.randint(4, 10 if tier == 'quick' else 20)):
        r = rng.random()
        if r < .12: new_coll()
        elif r < .37:
            used = sorted(built_from)
            build(rng.pick(used) if used and rng.chance(.7) else rng.randrange(len(colls)))
        elif r < .67: edit(rng.pick(sorted(built_from)) if rng.chance(.8) else rng.randrange(len(colls)))
        else: touch(rng.pick(sorted(conts)))
        ops.extend(observe())
    ops.extend(observe(True))
    return ops, True


def gen_wrap_program(rng, tier):
    """parameters made from existing tensors / parameters: sources (plain tensors, parameters; with either flag, with or without a
    gradient), wrapped once / twice / in chains, the copies registered in OTHER modules than their sources (siblings under a common
    root, a chain); then freeze / unfreeze / zero_grad on single owners and on ancestors, the setters on single objects.  Every object
    (the sources too) is observed after every step."""
    nm = rng.randint(2, 4)
    ops = ['mod new'] * nm
    npar = 0
    owner = {}            # parameter -> module it is registered in (plain tensors are never registered)
    plain = set()
    def source():
        nonlocal npar
        sz, rg = rng.randint(1, 4), rng.randint(0, 1)
        if rng.chance(.4):
            ops.append(f'mod tens {sz} {rg}'); plain.add(npar)
        else:
            ops.append(f'mod param {sz} {rg}')
            m = rng.randrange(nm); ops.append(f'mod set {m} {rng.pick(["w", "v", "a"])}{npar} p{npar}'); owner[npar] = m
        npar += 1
        if rng.chance(.4): ops.append(f'mod gset {npar - 1} {rng.randint(1, 9)}')
        return npar - 1
    def wrap(src):
        nonlocal npar
        ops.append(f'mod pwrap {src}' + rng.pick(['', '', ' 0', ' 1']))
        k = npar; npar += 1
        # registered in another module than the source where there is one
        others = [m for m in range(nm) if m != owner.get(src)]
        m = rng.pick(others) if rng.chance(.85) else rng.randrange(nm)
        ops.append(f'mod set {m} {rng.pick(["w", "v", "a"])}{k} p{k}'); owner[k] = m
        return k
    for _ in range(rng.randint(1, 2)):
        s_ = source()
        shape = rng.random()
        if shape < .35:                       # the same live source wrapped twice (thrice)
            for _ in range(rng.randint(2, 3)): wrap(s_)
        elif shape < .7:                      # a chain: Parameter of a Parameter (of a Parameter)
            k = s_
            for _ in range(rng.randint(1, 3)): k = wrap(k)
        else:                                 # a source changed between two wraps
            wrap(s_)
            ops.append(rng.pick([f'mod psetrg {s_} {rng.randint(0, 1)}', f'mod gset {s_} {rng.randint(1, 9)}']))
            wrap(s_)
    tree = rng.random()
    if tree < .4:                             # a common root over all owners
        ops.append('mod new')
        for m in range(nm): ops.append(f'mod set {nm} c{m} m{m}')
        nm += 1
    elif tree < .6:                           # a chain of owners
        for m in range(1, nm): ops.append(f'mod set {m} sub m{m - 1}')
    obs = ['mod pflags', 'mod grads']
    ops += obs + [f'mod params {m}' for m in range(nm)] + [f'mod num {m}' for m in range(nm)]
    for _ in range(rng.randint(4, 9 if tier == 'quick' else 20)):
        r = rng.random()
        if r < .55: ops.append(f'mod {rng.pick(["freeze", "unfreeze", "zero", "freeze", "zero"])} {rng.randrange(nm)}')
        elif r < .7: ops.append(f'mod psetrg {rng.randrange(npar)} {rng.randint(0, 1)}')
        elif r < .85: ops.append(f'mod gset {rng.randrange(npar)} {rng.randint(1, 9)}')
        elif r < .92: ops.append(f'mod gshare {rng.randrange(npar)} {rng.randrange(npar)}')
        else:
            src = rng.randrange(npar); wrap(src)
        ops += obs
        if rng.chance(.5): ops.append(f'mod num {rng.randrange(nm)}')
    ops += obs + [f'mod params {m}' for m in range(nm)] + [f'mod num {m}' for m in range(nm)]
    return ops, True


ATOMS = ['a', 'b', '0', '1', 'w', '~']       # '~' stands for the empty string (a legal registered name; the protocol is space-separated)
dec_name = lambda n: '' if n == '~' else n
enc_name = lambda n: '~' if n == '' else n


def qname(rng):
    """a registered NAME: an atom (identifier, digits, the empty string) or a dotted path made of atoms ('a.0', '0.w', 'a..w', '.', 'a.',
    '.w', 'a.b.w'): names are opaque strings for register_module / register_parameter / setattr / OrderedDict keys, so a name may EQUAL
    the dot-joined path of some other member"""
    if rng.chance(.45): return rng.pick(ATOMS)
    return enc_name('.'.join(dec_name(rng.pick(ATOMS)) for _ in range(rng.randint(2, 3))))


def gen_name_program(rng, tier):
    """trees whose registered names come from qname(): own members named like the dotted path of a member further down ('head.scale' next to
    submodule head owning scale; OrderedDict key 'stage1.0' next to submodule 'stage1' with member '0'), empty names, digits; a step `collide`
    builds such a coincidence on purpose (one level and two levels deep, parameter against parameter, submodule against submodule). Every
    listing is asked after every step: parameters, num_params, forward order of containers, freeze / unfreeze / zero_grad."""
    reg = Registry()
    ops = []
    st = {'nm': 0, 'np': 0}
    seqs = []
    def emit(l):
        ops.append(l); reg.run(l.split(' ')[1:])
    def new_mod():
        emit('mod new'); st['nm'] += 1; return st['nm'] - 1
    def new_par():
        emit(f'mod param {rng.randint(1, 5)} {rng.randint(0, 1)}'); st['np'] += 1; return st['np'] - 1
    def attach_p(m, n, p):
        emit(f'mod set {m} {n} p{p}' if rng.chance(.6) else f'mod regp {m} {n} {p}')
    def attach_m(m, n, k):
        emit(f'mod set {m} {n} m{k}' if rng.chance(.6) else f'mod regm {m} {n} {k}')
    def collide():
        cands = [(m, n1, k) for m in range(st['nm']) for n1, k in reg.subs[m] if reg.pars[k] or any(reg.pars[x] for _, x in reg.subs[k])]
        if not cands: return False
        m, n1, k = rng.pick(cands)
        members = [('p', n2, x) for n2, x in reg.pars[k]] + [('m', n2, x) for n2, x in reg.subs[k] if reg.pars[x]]
        kind, n2, x = rng.pick(members)
        q = enc_name(dec_name(n1) + '.' + dec_name(n2))
        if kind == 'p' or rng.chance(.3):
            if kind == 'm': q = enc_name(dec_name(q) + '.' + dec_name(rng.pick(reg.pars[x])[0]))      # two levels joined into one name
            attach_p(m, q, new_par())
        else:
            n3 = rng.pick(reg.pars[x])[0]
            f = new_mod(); emit(f'mod set {f} {n3} p{new_par()}')      # a fresh leaf module (never given submodules: the tree stays acyclic)
            leaves.add(f)
            attach_m(m, q, f)
        return True
    leaves = set()
    for b in range(rng.randint(2, 4)):
        m = new_mod(); attach_p(m, qname(rng), new_par())
    def observe(full=False):
        qs = range(st['nm']) if full else rng.sample(range(st['nm']), min(st['nm'], 2)) + [st['nm'] - 1]
        for q in qs:
            ops.extend([f'mod params {q}', f'mod num {q}'])
            if q in seqs: ops.append(f'mod order {q}')
    for _ in range(rng.randint(4, 10 if tier == 'quick' else 20)):
        r = rng.random()
        nm = st['nm']
        if r < .2:                             # a new parent over existing modules, members by attribute / register_module
            m = new_mod()
            for _ in range(rng.randint(1, 3)): attach_m(m, qname(rng), rng.randrange(m))
            if rng.chance(.5): attach_p(m, qname(rng), new_par() if rng.chance(.7) else rng.randrange(st['np']))
        elif r < .38:                          # a container: OrderedDict keys from the same pool, or positional
            ks = [rng.randrange(nm) for _ in range(rng.randint(1, 4))]
            if rng.chance(.75):
                names = []
                while len(names) < len(ks):
                    n = qname(rng)
                    if n not in names: names.append(n)
                emit('mod seqd ' + ','.join(f'{n}:{k}' for n, k in zip(names, ks)))
            else:
                emit(f'mod seq {show_ints(ks)}')
            seqs.append(nm); st['nm'] += 1
        elif r < .68:
            if not collide(): attach_p(rng.randrange(nm), qname(rng), new_par())
        elif r < .76:
            attach_p(rng.randrange(nm), qname(rng), new_par() if rng.chance(.6) else rng.randrange(st['np']))
        elif r < .82:                          # a registered name replaced / removed
            m = rng.randrange(nm)
            have = [n for n, _ in reg.subs[m] + reg.pars[m]]
            emit(f'mod set {m} {rng.pick(have) if have else qname(rng)} {rng.pick(["none", "other", "p" + str(rng.randrange(st["np"]))])}')
        else:
            m = rng.randrange(nm)
            a = rng.pick(['freeze', 'unfreeze', 'zero', 'eval', 'train'])
            if a == 'zero':
                for p_ in range(st['np']): ops.append(f'mod gset {p_} {rng.randint(1, 9)}')
            ops += [f'mod {a} {m}', 'mod flags', 'mod pflags', 'mod grads']
        observe()
    # the root of everything: one more parent over all modules built so far that may have parents
    m = new_mod()
    for k in rng.sample(range(m), min(m, rng.randint(1, 3))): attach_m(m, qname(rng), k)
    collide()
    observe(True)
    top = st['nm'] - 1
    for p_ in range(st['np']): ops.append(f'mod gset {p_} {rng.randint(1, 9)}')
    ops += [f'mod freeze {top}', 'mod pflags', f'mod num {top}', f'mod unfreeze {top}', 'mod pflags', f'mod zero {top}', 'mod grads', f'mod num {top}']
    return ops, True


OBS_OPS = ('params', 'num', 'flags', 'pflags', 'grads', 'order')


def with_contexts(rng, ops):
    """the same program executed partly INSIDE grad-mode contexts: `with no_grad():` / `with retain_grads():` blocks entered and left (normally
    or by an exception) at any point of the program, nested up to depth 3.  Module bookkeeping (listings, counts, freeze / unfreeze /
    zero_grad, registration, modes) does not depend on the grad mode; the only thing that does is a tensor / parameter CONSTRUCTED with
    requires_grad=True while autograd is off (marked ` ng`: the model is told the flag it ends up with)."""
    out, stack = [], []
    nm = 0
    for l in ops:
        t = l.split(' ')
        if t[1] in ('new', 'seq', 'seqd', 'seqc'): nm += 1
        if t[1] not in OBS_OPS or rng.chance(.15):
            r = rng.random()
            if r < .25 and len(stack) < 3:
                k = rng.pick(['ng', 'ng', 'ng', 'rg']); out.append(f'mod ctx {k}'); stack.append(k)
            elif r < .40 and stack:
                out.append('mod ctx ' + rng.pick(['exit', 'exit', 'exitx'])); stack.pop()
        if t[1] in ('param', 'tens') and 'ng' in stack: l += ' ng'
        out.append(l)
    if stack and nm:          # what was switched inside the block is still so after it
        out += ['mod pflags'] + [f'mod num {m}' for m in range(nm)]
    while stack:
        out.append('mod ctx ' + rng.pick(['exit', 'exit', 'exitx'])); stack.pop()
    out += ['mod pflags', 'mod grads', 'mod flags'] + [f'mod num {m}' for m in range(nm)] + [f'mod params {m}' for m in range(nm)]
    return out


def gen_ctx_program(rng, tier):
    """a freeze / unfreeze / zero_grad / listing history on a small tree, most of it inside grad-mode contexts; and programs of every other
    family run through with_contexts()"""
    r = rng.random()
    if r < .45:
        nb = rng.randint(1, 3)
        ops, npar = [], 0
        for b in range(nb):
            ops += ['mod new']
            for _ in range(rng.randint(1, 2)):
                ops += [f'mod param {rng.randint(1, 5)} {rng.randint(0, 1)}', f'mod set {b} {rng.pick(NAMES)}{npar} p{npar}']; npar += 1
        ops.append('mod new')
        for b in range(nb): ops.append(f'mod set {nb} c{b} m{b}')
        nm = nb + 1
        if rng.chance(.5):
            ops.append(f'mod seq {show_ints([rng.randrange(nm) for _ in range(rng.randint(1, 3))])}'); nm += 1
        for _ in range(rng.randint(4, 12 if tier == 'quick' else 30)):
            a = rng.pick(['freeze', 'unfreeze', 'unfreeze', 'zero', 'freeze', 'unfreeze', 'psetrg', 'gset', 'param', 'eval', 'train'])
            if a == 'psetrg': ops.append(f'mod psetrg {rng.randrange(npar)} {rng.randint(0, 1)}')
            elif a == 'gset': ops.append(f'mod gset {rng.randrange(npar)} {rng.randint(1, 9)}')
            elif a == 'param':
                ops += [f'mod param {rng.randint(1, 5)} {rng.randint(0, 1)}', f'mod set {rng.randrange(nm)} n{npar} p{npar}']; npar += 1
            else: ops.append(f'mod {a} {rng.randrange(nm)}')
            ops += ['mod pflags', 'mod grads', f'mod num {rng.randrange(nm)}', f'mod params {rng.randrange(nm)}']
    elif r < .6: ops, _ = gen_program(rng, rng.randint(5, 20), tier)
    elif r < .7: ops, _ = gen_deep_program(rng)
    elif r < .8: ops, _ = gen_coll_program(rng, tier)
    elif r < .9: ops, _ = gen_wrap_program(rng, tier)
    else: ops, _ = gen_name_program(rng, tier)
    return with_contexts(rng, ops), True


def to_model(line):
    """a live plain tensor that parameters are made from is, for the model, one more object with a size, a flag and a gradient (never
    registered anywhere); the `requires_grad=` keyword of Parameter(tensor) is not consulted by the copy constructor.  Grad-mode contexts are
    unknown to the model (module bookkeeping does not depend on them): a context line is answered like `mod flags` by both sides; an
    object constructed while autograd is off (` ng`) does not require grad"""
    t = line.split(' ')
    if t[1] == 'ctx': return 'mod flags'
    if t[1] in ('tens', 'param') and t[-1] == 'ng': return ' '.join(['mod', 'param', t[2], '0'])
    if t[1] == 'tens': return ' '.join(['mod', 'param'] + t[2:])
    if t[1] == 'pwrap': return ' '.join(t[:3])
    return line


def cases(rng, tier):
    out = []
    n = 150 if tier == 'quick' else 4000
    for i in range(n):
        ops, nt = gen_program(rng, rng.randint(3, 25 if tier == 'quick' else 40), tier)
        out.append({'lines': ops, 'nt': nt, 'desc': ' ; '.join(ops[:40])})
    for i in range(n // 3):
        ops, nt = gen_mode_program(rng)
        out.append({'lines': ops, 'nt': nt, 'desc': ' ; '.join(ops[:40])})
    for i in range(24 if tier == 'quick' else 400):
        ops, nt = gen_seq_program(rng, tier)
        out.append({'lines': ops, 'nt': nt, 'family': 'many-members', 'desc': ' ; '.join(ops[:40])})
    for i in range(30 if tier == 'quick' else 600):
        ops, nt = gen_deep_program(rng)
        out.append({'lines': ops, 'nt': nt, 'family': 'deep-chain', 'desc': ' ; '.join(ops[:40])})
    for i in range(40 if tier == 'quick' else 800):
        ops, nt = gen_coll_program(rng, tier)
        out.append({'lines': ops, 'nt': nt, 'family': 'caller-collection', 'desc': ' ; '.join(ops[:40])})
    for i in range(60 if tier == 'quick' else 1500):
        ops, nt = gen_wrap_program(rng, tier)
        out.append({'lines': ops, 'nt': nt, 'family': 'wrapped-parameter', 'desc': ' ; '.join(ops[:60])})
    for i in range(60 if tier == 'quick' else 1500):
        ops, nt = gen_name_program(rng, tier)
        out.append({'lines': ops, 'nt': nt, 'family': 'qualified-names', 'desc': ' ; '.join(ops[:60])})
    for i in range(80 if tier == 'quick' else 2000):
        ops, nt = gen_ctx_program(rng, tier)
        out.append({'lines': ops, 'nt': nt, 'family': 'grad-mode-context', 'desc': ' ; '.join(ops[:60])})
    # corpus: minimal programs for each past defect
    corpus = [
        ['mod new', 'mod param 3 1', 'mod set 0 a p0', 'mod set 0 b p0', 'mod params 0', 'mod num 0'],
        ['mod new', 'mod new', 'mod param 2 1', 'mod set 0 w p0', 'mod set 1 a m0', 'mod set 1 b m0', 'mod params 1', 'mod num 1'],
        ['mod new', 'mod param 2 1', 'mod set 0 a p0', 'mod set 0 a none', 'mod params 0'],
        ['mod new', 'mod new', 'mod param 2 0', 'mod set 0 a p0', 'mod set 1 a m0', 'mod set 1 a p0', 'mod params 1', 'mod set 1 a m0', 'mod regp 1 a 0', 'mod params 1'],
        ['mod seq _', 'mod order 0', 'mod params 0'],
        ['mod new', 'mod new', 'mod new', 'mod set 1 a m0', 'mod set 2 a m1', 'mod eval 2', 'mod flags', 'mod train 1', 'mod flags'],
        # two parameters of different modules over the same gradient values; zero_grad on one owner leaves the other alone
        ['mod new', 'mod new', 'mod param 3 1', 'mod param 3 1', 'mod set 0 w p0', 'mod set 1 w p1', 'mod gset 0 5', 'mod gshare 0 1', 'mod grads', 'mod zero 0', 'mod grads', 'mod pflags',
         'mod freeze 1', 'mod gset 0 7', 'mod gshare 0 1', 'mod zero 1', 'mod grads'],
    ]
    # parameters made from existing objects: dec.w = Parameter(enc.w); Parameter(t) twice on one live tensor; Parameter of a Parameter
    corpus += [
        ['mod new', 'mod new', 'mod param 6 1', 'mod set 0 w p0', 'mod pwrap 0', 'mod set 1 w p1', 'mod pflags', 'mod freeze 1', 'mod pflags', 'mod num 0', 'mod num 1',
         'mod unfreeze 0', 'mod pflags', 'mod unfreeze 1', 'mod zero 1', 'mod pflags', 'mod grads', 'mod gset 0 4', 'mod grads', 'mod zero 0', 'mod grads'],
        ['mod new', 'mod new', 'mod tens 4 1', 'mod pwrap 0', 'mod pwrap 0 1', 'mod set 0 w p1', 'mod set 1 w p2', 'mod freeze 0', 'mod pflags', 'mod num 1', 'mod zero 1', 'mod pflags', 'mod grads'],
        ['mod new', 'mod new', 'mod new', 'mod param 2 0', 'mod gset 0 3', 'mod set 0 w p0', 'mod pwrap 0', 'mod pwrap 1 0', 'mod set 1 w p1', 'mod set 2 w p2', 'mod set 2 sub m1',
         'mod pflags', 'mod grads', 'mod unfreeze 1', 'mod pflags', 'mod zero 2', 'mod grads', 'mod psetrg 0 1', 'mod pflags', 'mod freeze 2', 'mod pflags', 'mod num 2', 'mod num 0'],
    ]
    # explicit registration over a name that holds a member of the OTHER kind, then every listing / mode / freeze query
    tail = lambda m: [f'mod params {m}', f'mod num {m}', f'mod eval {m}', 'mod flags', f'mod freeze {m}', 'mod pflags', f'mod train {m}', 'mod flags', f'mod unfreeze {m}', 'mod pflags', f'mod num {m}']
    corpus += [
        ['mod new', 'mod new', 'mod param 3 1', 'mod param 5 1', 'mod set 1 a p0', 'mod set 1 b p1', 'mod regm 1 a 0'] + tail(1),
        ['mod new', 'mod new', 'mod param 3 1', 'mod param 5 0', 'mod set 0 w p1', 'mod set 1 a m0', 'mod regp 1 a 0'] + tail(1),
        ['mod new', 'mod new', 'mod new', 'mod param 2 1', 'mod param 4 1', 'mod set 0 w p0', 'mod set 2 _fc m0', 'mod set 2 A1 p1', 'mod regp 2 _fc 1', 'mod regm 2 A1 1'] + tail(2),
    ]
    # one OrderedDict / list of the caller handed to two containers; an attribute of one replaced; the caller edits the collection
    for first, e1, e2, e3 in (('mod cdict fc:0,act:1,out:0', 'extra', 'fc', 'act'), ('mod clist 0,1,0', '3', '0', '1')):
        corpus.append(['mod new', 'mod new', 'mod new', 'mod param 2 1', 'mod param 3 1', 'mod param 4 1', 'mod set 0 w p0', 'mod set 1 w p1', 'mod set 2 w p2', first,
                       'mod seqc 0', 'mod seqc 0', 'mod set 4 out m2', 'mod set 4 2 m2', 'mod order 3', 'mod params 3', 'mod num 3', 'mod order 4', 'mod params 4',
                       f'mod cput 0 {e1} 2', f'mod cdel 0 {e2}', f'mod cmove 0 {e3} 1', 'mod cput 0 0 2', 'mod order 3', 'mod params 3', 'mod order 4', 'mod params 4',
                       'mod freeze 4', 'mod pflags', 'mod eval 3', 'mod flags', 'mod seqc 0', 'mod order 5', 'mod params 5', 'mod order 3'])
    # registered names that equal the dotted path of another member: OrderedDict key 'stage1.0' next to submodule 'stage1' with member '0';
    # own parameter 'head.scale' next to submodule head owning scale; an empty name
    asked = lambda m, np_: [f'mod params {m}', f'mod num {m}', f'mod freeze {m}', 'mod pflags', f'mod num {m}', f'mod unfreeze {m}'] + [f'mod gset {p} 3' for p in range(np_)] + [f'mod zero {m}', 'mod grads', 'mod pflags']
    corpus += [
        ['mod new', 'mod new', 'mod param 3 1', 'mod param 2 1', 'mod set 0 w p0', 'mod set 1 w p1', 'mod seq 0', 'mod seqd stage1:2,stage1.0:1', 'mod order 3'] + asked(3, 2),
        ['mod new', 'mod param 2 1', 'mod set 0 scale p0', 'mod new', 'mod param 5 1', 'mod regp 1 head.scale 1', 'mod set 1 head m0'] + asked(1, 2),
        ['mod new', 'mod param 2 1', 'mod set 0 ~ p0', 'mod new', 'mod param 4 0', 'mod set 1 ~ m0', 'mod set 1 . p1', 'mod new', 'mod set 2 a m1', 'mod param 1 1', 'mod regp 2 a.. 2'] + asked(2, 3),
    ]
    # a training stage switched inside the evaluation block: unfreeze / freeze / zero_grad / counts inside no_grad (nested, left by exception)
    corpus += [
        ['mod new', 'mod new', 'mod param 3 1', 'mod param 2 1', 'mod set 0 w p0', 'mod set 1 w p1', 'mod seq 0,1', 'mod freeze 0', 'mod ctx ng', 'mod order 2', 'mod pflags', 'mod freeze 1', 'mod pflags',
         'mod unfreeze 0', 'mod pflags', 'mod num 2', 'mod unfreeze 2', 'mod pflags', 'mod num 2', 'mod ctx exit', 'mod pflags', 'mod num 2'],
        ['mod new', 'mod param 3 0', 'mod set 0 w p0', 'mod ctx rg', 'mod ctx ng', 'mod ctx ng', 'mod unfreeze 0', 'mod pflags', 'mod ctx exitx', 'mod freeze 0', 'mod unfreeze 0', 'mod pflags', 'mod num 0',
         'mod param 2 1 ng', 'mod set 0 v p1', 'mod pflags', 'mod unfreeze 0', 'mod pflags', 'mod gset 1 4', 'mod zero 0', 'mod grads', 'mod ctx exit', 'mod psetrg 0 0', 'mod psetrg 0 1', 'mod pflags', 'mod ctx exit', 'mod pflags', 'mod num 0'],
    ]
    for ops in corpus:
        out.append({'lines': ops, 'nt': True, 'desc': ' ; '.join(ops)})
    return out


class World:
    def __init__(self):
        sg = common.impl()
        from synapgrad import nn
        self.nn = nn
        self.sg = sg
        self.mods, self.pars, self.log = [], [], []
        self.colls = []          # OrderedDicts / lists owned by the calling program
        self.depth, self.last_order = 0, None
        self.ctxs = []           # grad-mode contexts the program is inside of
        import sys
        self.tmod = sys.modules.get('synapgrad.tensor')
        self.modes0 = {k: getattr(self.tmod, k) for k in ('gradient__', 'retain_grads__') if hasattr(self.tmod, k)}
        w = self
        class M(nn.Module):
            """x -> x*a + b with a in {2, 1/2} and b = index + 1: no two different members commute"""
            def forward(self, x):
                k = w.index(self)
                w.log.append((w.depth, k)); return x * w.coef(k)[0] + w.coef(k)[1]
        class S(nn.Sequential):
            def forward(self, x):
                w.log.append((w.depth, w.index(self))); w.depth += 1
                try:
                    return super().forward(x)
                finally:
                    w.depth -= 1
        self.M, self.S = M, S

    def index(self, m):
        return next(i for i, x in enumerate(self.mods) if x is m)

    @staticmethod
    def coef(k):
        return (2.0 if k % 2 == 0 else 0.5), float(k + 1)

    def unwind(self):
        """leave every context the program is still inside of (a program cut short by the oracle); the global switches as they were"""
        while self.ctxs:
            try: self.ctxs.pop().__exit__(None, None, None)
            except Exception: pass
        for k, v in self.modes0.items(): setattr(self.tmod, k, v)

    def val(self, v):
        if v == 'none': return None
        if v == 'other': return 3.14
        return self.mods[int(v[1:])] if v[0] == 'm' else self.pars[int(v[1:])]

    def run(self, line):
        t = line.split(' ')[1:]
        nn = self.nn
        if t[0] == 'new':
            self.mods.append(self.M()); return f'm{len(self.mods) - 1}'
        if t[0] == 'param':
            self.pars.append(nn.Parameter(np.zeros(int(t[1]), dtype=np.float32), requires_grad=bool(int(t[2]))))
            return f'p{len(self.pars) - 1}'
        if t[0] == 'tens':          # a plain tensor of the program that parameters are made from (never registered itself)
            self.pars.append(self.sg.Tensor(np.zeros(int(t[1]), dtype=np.float32), requires_grad=bool(int(t[2]))))
            return f'p{len(self.pars) - 1}'
        if t[0] == 'pwrap':         # nn.Parameter(existing tensor / parameter[, requires_grad=...]): a new object
            src = self.pars[int(t[1])]
            self.pars.append(nn.Parameter(src) if len(t) < 3 else nn.Parameter(src, requires_grad=bool(int(t[2]))))
            return f'p{len(self.pars) - 1}'
        if t[0] == 'psetrg':        # the setter on ONE object
            self.pars[int(t[1])].requires_grad = bool(int(t[2])); return 'ok'
        if t[0] == 'ctx':           # with no_grad(): / with retain_grads(): entered, left, left by an exception; answered like `flags`
            if t[1] in ('ng', 'rg'):
                cm = self.sg.no_grad() if t[1] == 'ng' else self.sg.retain_grads()
                cm.__enter__(); self.ctxs.append(cm)
            else:
                cm = self.ctxs.pop()
                if t[1] == 'exitx':
                    e = ValueError('raised inside the block')
                    cm.__exit__(ValueError, e, None)
                else: cm.__exit__(None, None, None)
            return ','.join(str(int(x.training)) for x in self.mods) or '_'
        if t[0] == 'set':
            setattr(self.mods[int(t[1])], dec_name(t[2]), self.val(t[3])); return 'ok'
        if t[0] == 'regm':
            self.mods[int(t[1])].register_module(dec_name(t[2]), self.mods[int(t[3])]); return 'ok'
        if t[0] == 'regp':
            self.mods[int(t[1])].register_parameter(dec_name(t[2]), self.pars[int(t[3])]); return 'ok'
        if t[0] == 'seq':
            ks = common.parse_ints(t[1])
            self.mods.append(self.S(*[self.mods[k] for k in ks])); return f'm{len(self.mods) - 1}'
        if t[0] == 'seqd':
            d = OrderedDict() if t[1] == '_' else OrderedDict((dec_name(nk.split(':')[0]), self.mods[int(nk.split(':')[1])]) for nk in t[1].split(','))
            self.mods.append(self.S(d)); return f'm{len(self.mods) - 1}'
        if t[0] == 'cdict':
            self.colls.append(OrderedDict() if t[1] == '_' else OrderedDict((nk.split(':')[0], self.mods[int(nk.split(':')[1])]) for nk in t[1].split(',')))
            return f'c{len(self.colls) - 1}'
        if t[0] == 'clist':
            self.colls.append([self.mods[k] for k in common.parse_ints(t[1])]); return f'c{len(self.colls) - 1}'
        if t[0] == 'seqc':          # the caller's object itself goes into the constructor
            c = self.colls[int(t[1])]
            self.mods.append(self.S(c) if isinstance(c, OrderedDict) else self.S(*c)); return f'm{len(self.mods) - 1}'
        if t[0] in ('cput', 'cdel', 'cmove', 'cclear', 'crev'):
            c = self.colls[int(t[1])]
            if isinstance(c, OrderedDict):
                if t[0] == 'cput': c[t[2]] = self.mods[int(t[3])]
                elif t[0] == 'cdel': c.pop(t[2], None)
                elif t[0] == 'cmove':
                    if t[2] in c: c.move_to_end(t[2], last=bool(int(t[3])))
                elif t[0] == 'cclear': c.clear()
                else:
                    for k in reversed(list(c)): c.move_to_end(k)
            else:
                i = int(t[2]) if len(t) > 2 else 0
                if t[0] == 'cput':
                    if i < len(c): c[i] = self.mods[int(t[3])]
                    else: c.append(self.mods[int(t[3])])
                elif t[0] == 'cdel':
                    if i < len(c): del c[i]
                elif t[0] == 'cmove':
                    if i < len(c):
                        e = c.pop(i)
                        if int(t[3]): c.append(e)
                        else: c.insert(0, e)
                elif t[0] == 'cclear': del c[:]
                else: c.reverse()
            return 'ok'
        if t[0] == 'gset':          # p.grad = Tensor(full(v)) through the public setter
            P = self.pars[int(t[1])]
            P.grad = self.sg.Tensor(np.full(P.shape, float(t[2]), dtype=P.data.dtype)); return 'ok'
        if t[0] == 'gshare':        # q.grad = p.grad : two parameters over the same gradient values (the implementation shares the buffer)
            P, Q = self.pars[int(t[1])], self.pars[int(t[2])]
            if P._grad is not None and P.data.size == Q.data.size:
                Q.grad = P.grad
            return 'ok'
        if t[0] == 'grads':
            return ','.join('-' if p._grad is None else str(int(p._grad.ravel()[0])) for p in self.pars) or '_'
        m = self.mods[int(t[1])] if len(t) > 1 else None
        if t[0] == 'params':
            ps = m.parameters()
            return show_ints([next(i for i, q in enumerate(self.pars) if q is p) for p in ps])
        if t[0] == 'num':
            return f'{m.num_params()},{m.num_params(trainable=True)},{m.num_params(non_trainable=True)}'
        if t[0] in ('train', 'eval', 'freeze', 'unfreeze'):
            getattr(m, t[0])(); return 'ok'
        if t[0] == 'zero':
            m.zero_grad(); return 'ok'
        if t[0] == 'order':
            # the order in which forward CALLS the direct members (observed: every member logs itself with its nesting depth) and
            # the value: the composition of the x*a+b steps in the order in which they were called
            self.log.clear(); self.depth = 0
            x0 = np.array([0.25, -1.0])
            y = m(self.sg.Tensor(x0.copy()))
            called = [k for d, k in self.log if d == 1]
            ref = x0.copy()
            for d, k in self.log:
                if not isinstance(self.mods[k], self.S):
                    ref = ref * self.coef(k)[0] + self.coef(k)[1]
            self.last_order = (called, [self.index(s) for s in m.submodules()])
            if y.data.shape != ref.shape or not np.allclose(np.asarray(y.data, dtype=np.float64), ref, rtol=1e-6, atol=0): return 'not-composition'
            return show_ints(called)
        if t[0] == 'flags':
            return ','.join(str(int(x.training)) for x in self.mods) or '_'
        if t[0] == 'pflags':
            return ','.join(f'{int(p.requires_grad)}{int(p._grad is not None)}' for p in self.pars) or '_'
        return 'bad-op'


def impl(c):
    w = World()
    out = []
    try:
        for line in c['lines']:
            out.append(outcome(lambda: w.run(line)))
    finally:
        w.unwind()
    c['_world'] = w
    return out


def nontrivial(c):
    return c['nt']


def distribution(cases):
    d = {}
    def inc(k): d[k] = d.get(k, 0) + 1
    for c in cases:
        if c.get('family'): inc('family:' + c['family'])
        seqs, mutated = set(), set()
        colls = []
        kinds, wrapped = [], set()
        nm = 0
        stack = []
        for l in c['lines']:
            t = l.split(' ')
            inc(t[1])
            if t[1] == 'ctx':
                if t[2] in ('ng', 'rg'):
                    stack.append(t[2]); inc('context entered: ' + ('no_grad' if t[2] == 'ng' else 'retain_grads') + f' at depth {len(stack)}')
                else:
                    stack.pop(); inc('context left ' + ('by an exception' if t[2] == 'exitx' else 'normally'))
            elif stack:
                inc(('inside no_grad: ' if 'ng' in stack else 'inside retain_grads: ') + t[1] + (' (constructed with requires_grad=True)' if t[-1] == 'ng' and t[3] == '1' else ''))
            if t[1] in ('set', 'regm', 'regp') or t[1] == 'seqd':
                names = [t[3]] if t[1] != 'seqd' else [nk.split(':')[0] for nk in t[2].split(',') if nk != '_']
                for n in names:
                    if n == '~': inc('registered name: empty string')
                    elif '.' in n: inc('registered name: contains a dot')
            if t[1] == 'new': nm += 1
            if t[1] in ('cdict', 'clist'): colls.append([t[1][1:], 0, False])
            if t[1] in ('param', 'tens', 'pwrap'):
                if t[1] == 'pwrap':
                    src = int(t[2])
                    inc('parameter made from an existing ' + ('plain tensor' if kinds[src] == 'tens' else 'parameter' if kinds[src] == 'param' else 'wrapped parameter (chain)')
                        + (' — wrapped before (2nd+ copy of one source)' if src in wrapped else ''))
                    wrapped.add(src)
                kinds.append(t[1])
            if t[1] == 'seqc':
                k = colls[int(t[2])]
                k[1] += 1
                inc(f'container built from a caller-owned {k[0]}' + (' that was edited before' if k[2] else ''))
                if k[1] >= 2: inc(f'caller-owned {k[0]} handed to a 2nd+ container')
                seqs.add(nm); nm += 1
            if t[1] in ('cput', 'cdel', 'cmove', 'cclear', 'crev'):
                k = colls[int(t[2])]
                k[2] = True
                inc(f'caller edits its {k[0]} ({t[1][1:]}) ' + ('after' if k[1] else 'before') + ' a container was built from it' + (' (shared by several)' if k[1] >= 2 else ''))
            if t[1] in ('seq', 'seqd'):
                n = 0 if t[2] == '_' else len(t[2].split(','))
                inc('container members: ' + ('0-3' if n <= 3 else '4-10' if n <= 10 else '11-14' if n <= 14 else '15-99' if n < 100 else '>=100'))
                if t[1] == 'seqd' and n > 1 and all(nk.split(':')[0].isdigit() for nk in t[2].split(',')): inc('OrderedDict container with numeric keys only')
                seqs.add(nm); nm += 1
            if t[1] in ('set', 'regm', 'regp') and int(t[2]) in seqs:
                mutated.add(int(t[2])); inc('container member (re)assigned: ' + ('numeric name' if t[3].isdigit() else 'other name') + ' via ' + t[1])
            if t[1] == 'order' and int(t[2]) in mutated: inc('forward order observed after a member was (re)assigned')
    return d


# ---- property predicate on the implementation alone: walk instance attributes ------------------
def _reach(nn, m, seen_m, params):
    if id(m) in seen_m: return
    seen_m[id(m)] = m
    for k, v in vars(m).items():       # every instance attribute, underscore-prefixed names included (the registries themselves are dicts, not modules)
        if isinstance(v, nn.Parameter):
            params[id(v)] = v
        elif isinstance(v, nn.Module):
            _reach(nn, v, seen_m, params)


class Registry:
    """registration order as the property states it, kept from the program text alone (no use of the implementation): per module the
    names in the order of their registration; assignment drops the name's registration and registers anew (at the end);
    register_module / register_parameter on a name of the same kind replaces the entry where it stands"""
    def __init__(self):
        self.subs, self.pars = [], []
        self.colls = []          # the caller's collections: [is_dict, [(name, module)]]

    def run(self, t):
        if t[0] == 'cdict':
            self.colls.append([True, [] if t[1] == '_' else [(nk.split(':')[0], int(nk.split(':')[1])) for nk in t[1].split(',')]])
        elif t[0] == 'clist':
            self.colls.append([False, [('', k) for k in common.parse_ints(t[1])]])
        elif t[0] == 'seqc':        # a container registers the entries the collection holds NOW, one by one, in its own registry
            isd, items = self.colls[int(t[1])]
            self.subs.append([]); self.pars.append([])
            for i, (n, k) in enumerate(items): self.reg(self.subs, self.pars, len(self.subs) - 1, n if isd else str(i), k)
        elif t[0] in ('cput', 'cdel', 'cmove', 'cclear', 'crev'):
            c = self.colls[int(t[1])]
            items = c[1]
            if t[0] == 'cclear': c[1] = []
            elif t[0] == 'crev': c[1] = items[::-1]
            else:
                pos = next((j for j, e in enumerate(items) if e[0] == t[2]), None) if c[0] else (int(t[2]) if int(t[2]) < len(items) else None)
                if t[0] == 'cput':
                    e = (t[2] if c[0] else '', int(t[3]))
                    if pos is None: items.append(e)
                    else: items[pos] = e
                elif pos is not None:
                    e = items.pop(pos)
                    if t[0] == 'cmove': items.insert(len(items) if int(t[3]) else 0, e)
        elif t[0] == 'new':
            self.subs.append([]); self.pars.append([])
        elif t[0] in ('seq', 'seqd'):
            self.subs.append([]); self.pars.append([])
            if t[1] != '_':
                items = [(str(i), int(k)) for i, k in enumerate(t[1].split(','))] if t[0] == 'seq' else [(nk.split(':')[0], int(nk.split(':')[1])) for nk in t[1].split(',')]
                for n, k in items: self.reg(self.subs, self.pars, len(self.subs) - 1, n, k)
        elif t[0] == 'set':
            m, n, v = int(t[1]), t[2], t[3]
            self.subs[m] = [e for e in self.subs[m] if e[0] != n]; self.pars[m] = [e for e in self.pars[m] if e[0] != n]
            if v[0] == 'm' and v[1:].isdigit(): self.subs[m].append((n, int(v[1:])))
            elif v[0] == 'p' and v[1:].isdigit(): self.pars[m].append((n, int(v[1:])))
        elif t[0] == 'regm': self.reg(self.subs, self.pars, int(t[1]), t[2], int(t[3]))
        elif t[0] == 'regp': self.reg(self.pars, self.subs, int(t[1]), t[2], int(t[3]))

    @staticmethod
    def reg(into, other, m, n, k):
        other[m] = [e for e in other[m] if e[0] != n]
        into[m] = [(n, k) if e[0] == n else e for e in into[m]] if any(e[0] == n for e in into[m]) else into[m] + [(n, k)]

    def params(self, m):
        out = [k for _, k in self.pars[m]]
        for _, s_ in self.subs[m]:
            out += self.params(s_)
        return list(dict.fromkeys(out))


def oracle(c):
    w = World()
    try:
        return _oracle(c, w)
    finally:
        w.unwind()


def _oracle(c, w):
    reg = Registry()
    snap = lambda: [(id(p), bool(p.requires_grad), None if p._grad is None else np.array(p._grad, dtype=np.float64).ravel().tolist()) for p in w.pars]
    for li, line in enumerate(c['lines']):
        t = line.split(' ')
        before = snap()
        # the objects the line may change: the parameters() of the node acted on (by identity), the one object of a setter
        may = None
        if t[1] in ('freeze', 'unfreeze', 'zero') and int(t[2]) < len(w.mods):
            seen_m, params = {}, {}
            _reach(w.nn, w.mods[int(t[2])], seen_m, params)
            may = set(params)
        elif t[1] in ('gset', 'psetrg') and int(t[2]) < len(w.pars): may = {id(w.pars[int(t[2])])}
        elif t[1] == 'gshare' and int(t[3]) < len(w.pars): may = {id(w.pars[int(t[3])])}
        r = outcome(lambda: w.run(line))
        after = snap()
        for k, (b_, a_) in enumerate(zip(before, after)):
            if b_ != a_ and b_[0] not in (may or ()):
                what = 'requires_grad' if b_[1] != a_[1] else 'gradient'
                return {'key': {'class': 'frame', 'op': t[1]}, 'case': {'lines': c['lines'][:li + 1]},
                        'what': f'{line} changed the {what} of p{k} ({b_[1:]} -> {a_[1:]}), which is not among the objects that call acts on'
                                + (f' (the parameters() of m{t[2]})' if t[1] in ('freeze', 'unfreeze', 'zero') else '')}
        if t[1] == 'psetrg' and r == 'ok' and after[int(t[2])][1] != bool(int(t[3])):
            return {'key': {'class': 'setter'}, 'case': {'lines': c['lines'][:li + 1]}, 'what': f'{line}: requires_grad reads {after[int(t[2])][1]} after the assignment'}
        if t[1] == 'pwrap' and r != 'rejected' and len(after) == len(before) + 1:
            src = before[int(t[2])]
            if after[-1][1:] != src[1:] or after[-1][0] in [b_[0] for b_ in before]:
                return {'key': {'class': 'wrap'}, 'case': {'lines': c['lines'][:li + 1]},
                        'what': f'{line}: the new parameter {after[-1][1:]} does not start as a distinct copy of its source {src[1:]}'}
        if r == 'rejected' and t[1] != 'unfreeze':
            return {'key': {'class': 'rejected', 'op': t[1]}, 'case': {'lines': c['lines'][:li + 1]}, 'what': f'{line} raised'}
        reg.run(t[1:])
        if r == 'not-composition':
            return {'key': {'class': r}, 'case': {'lines': c['lines'][:li + 1]}, 'what': 'Sequential forward: the result is not the composition of the members in the order in which they were called'}
        if t[1] == 'order' and r != 'rejected':
            called, listed = w.last_order
            want = [k for _, k in reg.subs[int(t[2])]]
            if called != want or listed != want:
                return {'key': {'class': 'wrong-order'}, 'case': {'lines': c['lines'][:li + 1]},
                        'what': f'Sequential m{t[2]}: forward called its members in the order {called}, submodules() lists {listed}, registration order is {want}'}
        if t[1] == 'params' and r != show_ints(reg.params(int(t[2]))):
            return {'key': {'class': 'params-order'}, 'case': {'lines': c['lines'][:li + 1]},
                    'what': f'parameters() of m{t[2]} = [{r}], registration order (each once) is {reg.params(int(t[2]))}'}
        for mi, m in enumerate(w.mods):
            ps = m.parameters()
            seen_m, params = {}, {}
            _reach(w.nn, m, seen_m, params)
            prog = {'lines': c['lines'][:li + 1]}
            if len({id(p) for p in ps}) != len(ps):
                return {'key': {'class': 'duplicate'}, 'case': prog, 'what': f'parameters() of m{mi} lists a parameter twice'}
            if {id(p) for p in ps} != set(params):
                return {'key': {'class': 'reachability'}, 'case': prog, 'what': f'parameters() of m{mi} has {len(ps)} entries, {len(params)} parameters are reachable through attributes'}
            tot = sum(p.size for p in params.values())
            tr = sum(p.size for p in params.values() if p.requires_grad)
            if (m.num_params(), m.num_params(trainable=True), m.num_params(non_trainable=True)) != (tot, tr, tot - tr):
                return {'key': {'class': 'num_params'}, 'case': prog, 'what': f'num_params of m{mi} != ({tot},{tr},{tot - tr})'}
        if t[1] in ('train', 'eval') and r == 'ok':
            seen_m, params = {}, {}
            _reach(w.nn, w.mods[int(t[2])], seen_m, params)
            if any(x.training != (t[1] == 'train') for x in seen_m.values()):
                return {'key': {'class': 'mode'}, 'case': {'lines': c['lines'][:li + 1]}, 'what': f'{line} did not reach every descendant'}
        if t[1] in ('freeze', 'unfreeze', 'zero') and r == 'ok':
            seen_m, params = {}, {}
            _reach(w.nn, w.mods[int(t[2])], seen_m, params)
            for p in params.values():
                if t[1] == 'zero' and p.requires_grad and (p._grad is None or np.any(p._grad != 0)):
                    return {'key': {'class': 'zero_grad'}, 'case': {'lines': c['lines'][:li + 1]}, 'what': 'zero_grad missed a parameter'}
                if t[1] != 'zero' and p.requires_grad != (t[1] == 'unfreeze'):
                    return {'key': {'class': 'freeze'}, 'case': {'lines': c['lines'][:li + 1]}, 'what': f'{t[1]} missed a parameter'}
    return None


def search(rng, tier):
    for c in cases(rng, 'quick'):
        f = oracle(c)
        if f:
            yield f


def matches_known(k, fail):
    return k.get('key') == fail.get('key')


def rerun_known(k):
    return oracle(k['witness']) is not None


def replay(fail):
    f = oracle(fail['case'])
    return {'fails': f is not None, 'now': f}
