"""C06 — forward semantics of nn ops, layers and losses"""
import numpy as np
import common
from common import show_floats, show_ints, fbits, outcome
import tprog, gen_dag, gen_ops

tprog.ENTRIES = True        # function / Tensor method / operator / nn layer class
tprog.SPELLINGS = True
tprog.LAYOUTS = True      # leaves are handed over in C / Fortran / strided / negative-stride / offset / transposed layouts
PROP = 'C06'
LEAN_TARGETS = ['Props.C06']
REQUIRED_THEOREMS = ['Props.C06.conv_out_size', 'Props.C06.conv1d_is_cross_correlation', 'Props.C06.same_preserves_length',
                     'Props.C06.pool_default_stride', 'Props.C06.maxpool_padding_never_wins', 'Props.C06.avgpool_counts_padding', 'Props.C06.conv2d_is_cross_correlation', 'Props.C06.conv2d_accepts_iff', 'Props.C06.avgpool2d_counts_padding', 'Props.C06.maxpool2d_padding_never_wins', 'Props.C06.softmax_spec', 'Props.C06.log_softmax_spec', 'Props.C06.cross_entropy_spec', 'Props.C06.mse_spec']
REQUIRED_THEOREMS += ['Props.C06.' + t for t in ['src_forward_relu', 'src_forward_relu_is_max', 'src_forward_leaky_relu', 'src_forward_selu', 'src_forward_selu_closed', 'src_forward_tanh', 'src_forward_sigmoid', 'src_forward_mse', 'src_forward_bce']]   # ties to cpu_ops.py as read on this run
RULE = ('forward values of every nn op over the C02 generators (activations, softmax family along every dim, losses, linear, '
        'conv1d/2d and max/avg pooling over a geometry grid, unfold/fold, batch_norm in all modes) with ~8 % malformed '
        'configurations; loss modules under reduction mean / sum / none (value and shape); geometry layers constructed with int '
        'and tuple arguments, default stride, padding same / valid / int / tuple, and run on a probe input: normalised attributes '
        'and output shape must equal the model; the failing-input search compares with torch.nn.functional. '
        'SPECIAL VALUES: -inf / +inf / NaN / dtype extremes / signed zeros / subnormals written over border bands (the cells the padded '
        'windows overlap), whole channels or the whole input of every pooling op (max, avg; 1-d, 2-d), unfold and the conv inputs, '
        'float64 and float32, with padding > 0 most of the time; the same values written over SOME entries (cells, a row, everything) of the operand of '
        'every activation (relu, leaky_relu, selu, tanh, sigmoid), softmax / log_softmax along any dim and the losses (mse, nll, cross-entropy, '
        'bce-with-logits). RE-CONFIGURED OBJECTS: one layer / loss / activation object per '
        'program whose public attributes (reduction; kernel_size, stride, padding, dilation, pad_value, output_size; negative_slope; '
        'dim; start_dim, end_dim) are assigned after construction and which is called again after every assignment: each call must '
        'equal the op with the attribute values of that moment. '
        'REPEATED CALLS: one layer object / one set of running-statistics buffers per program called K times (2..8, and 50..64 for eval-mode '
        'batch norm with eps 1e-3 / 1e-5 / 0.1, float64 and float32) on the same operands with a second input in between, every call followed '
        'by a backward pass: every answer against the model, call k = call 1 bit for bit, and running_mean / running_var / weights / operands '
        'bit-identical before and after every call that is not a training-mode statistics update; `mf` programs of BatchNorm1d / Dropout / '
        'Linear objects alone or in a Sequential through train -> eval -> K forwards -> train -> eval with the state read after every phase. '
        'WINDOW BOUNDARY (enumerated in every run, nothing drawn but operand values): for every windowed op (conv1d/2d, max / avg pooling 1-d / 2-d, unfold, fold), '
        'each stride 1..4 and every value of L + 2p - d(k-1) - 1 in {-stride-1, ..., 0, 1} per axis (2-d: on H with W fine, on W with H fine, on both), realised '
        'with varying kernel / dilation / padding inside the op\'s legality rules: rejected exactly when the model\'s convOut is none, floor(v / stride) + 1 '
        'windows otherwise; an accepted geometry without a window is a failing input whatever shape comes back. '
        'Non-trivial: accepted configuration with more than one output element.')
EXHAUSTIVE = {'quick': False, 'thorough': False}
ASSUMPTIONS = ['float64 values (rel 1e-9; float32 leaves rel 1e-6); torch is used only as the oracle of the failing-input search',
               'max pooling over a window that holds a NaN: the model selects by `<` and does not propagate NaN, NumPy / PyTorch do; for these '
               'cases (only) the implementation is compared with a direct NumPy reading of the definition (window maximum, NaN if any '
               'real cell is NaN, padding never taking part) instead of the model value',
               'activations over NaN entries or float32 extremes: the model selects by `<` (relu / selu of NaN) and computes in binary64 (no float32 '
               'overflow); for these cases (only) the implementation is compared with a NumPy reading of the definition in the operand dtype']
TRUSTED_BASE = ['harness/tprog.py, harness/gen_ops.py']


def op_case(rng, op):
    malformed = rng.chance(0.08)
    leaves, args = gen_ops.gen_nn(rng, op, malformed)
    c = {'kind': 'op', 'op': op, 'leaves': [tuple([lf[0], lf[1], False] + list(lf[3:])) for lf in leaves], 'args': args, 'malformed': malformed}
    lines = gen_ops.program(c, rng)
    c['lines'] = lines + [f't val {len(leaves)}']
    return c


def loss_case(rng):
    name = rng.pick(['mse_loss', 'nll_loss', 'binary_cross_entropy', 'binary_cross_entropy_with_logits', 'cross_entropy'])
    leaves, args = gen_ops.gen_nn(rng, name, False)
    red = rng.pick(['mean', 'sum', 'none'])
    c = {'kind': 'loss', 'op': name, 'leaves': leaves, 'args': args, 'red': red, 'malformed': False}
    lines = [gen_dag.leaf_line(lf[0], lf[1], lf[2], lf[3] if len(lf) > 3 else 'f64') for lf in leaves]
    lines.append(' '.join(['t loss', name, red, '0', '1'] + [str(a) for a in args]))
    k = 2 + (0 if red == 'none' else 1)
    c['lines'] = lines + [f't val {k}', f't bw {k} {"_" if red != "none" else "?"} {show_floats([1.5])}'] if red != 'none' else lines + [f't val {k}']
    if red != 'none':
        c['lines'] += ['t grad 0']
    return c


def it(rng, lo=1, hi=3):
    return [rng.randint(lo, hi)] if rng.chance(.5) else [rng.randint(lo, hi), rng.randint(lo, hi)]


def layer_case(rng):
    kind = rng.pick(['conv2d', 'conv1d', 'pool2d', 'pool1d'])
    if kind == 'conv2d':
        k, s, d = it(rng), it(rng, 1, 2), it(rng, 1, 2)
        p = rng.pick(['same', 'same', 'valid', None, None])
        p = p if p else it(rng, 0, 2)
        if p == 'same':      # the whole (kernel, dilation) parity table per axis: d*(k-1) even is honoured, odd is rejected
            k, d = it(rng, 1, 5), it(rng, 1, 4)
            if rng.chance(.8): s = [1]
        H, W = rng.randint(3, 8), rng.randint(3, 8)
        return {'kind': 'layer', 'layer': kind, 'k': k, 's': s, 'p': p, 'd': d, 'H': H, 'W': W,
                'lines': [f"layer conv2d {show_ints(k)} {show_ints(s)} {p if isinstance(p, str) else show_ints(p)} {show_ints(d)} {H} {W}"], 'malformed': False}
    if kind == 'conv1d':
        k, s, d = rng.randint(1, 4), rng.randint(1, 2), rng.randint(1, 2)
        p = rng.pick(['same', 'same', 'valid', None, None])
        p = p if p else rng.randint(0, 2)
        if p == 'same':
            k, d = rng.randint(1, 5), rng.randint(1, 4)
            if rng.chance(.8): s = 1
        Ln = rng.randint(3, 9)
        return {'kind': 'layer', 'layer': kind, 'k': k, 's': s, 'p': p, 'd': d, 'L': Ln,
                'lines': [f'layer conv1d {k} {s} {p} {d} {Ln}'], 'malformed': False}
    if kind == 'pool2d':
        k, d = it(rng), it(rng, 1, 2)
        s = None if rng.chance(.4) else it(rng)
        p = [0] if rng.chance(.5) else [v // 2 for v in (k if len(k) == 2 else k * 2)]
        H, W = rng.randint(3, 8), rng.randint(3, 8)
        return {'kind': 'layer', 'layer': kind, 'k': k, 's': s, 'p': p, 'd': d, 'H': H, 'W': W, 'max': rng.chance(.5),
                'lines': [f"layer pool2d {show_ints(k)} {'-' if s is None else show_ints(s)} {show_ints(p)} {show_ints(d)} {H} {W}"], 'malformed': False}
    k, d = rng.randint(1, 4), rng.randint(1, 2)
    s = None if rng.chance(.4) else rng.randint(1, 3)
    p = rng.randint(0, k // 2)
    Ln = rng.randint(3, 9)
    return {'kind': 'layer', 'layer': kind, 'k': k, 's': s, 'p': p, 'd': d, 'L': Ln, 'max': rng.chance(.5),
            'lines': [f"layer pool1d {k} {'-' if s is None else s} {p} {d} {Ln}"], 'malformed': False}


def paint(rng, a, v, pads):
    """write the special value over a region of the (N, C, *spatial) array: border bands along every spatial axis (at least as wide
    as the padding, so that some windows hold padding and special cells only), one whole channel, or everything"""
    how = rng.random()
    sp = a.ndim - 2
    if how < .12:
        a[...] = v; return 'all'
    if how < .22:
        a[rng.randrange(a.shape[0]), rng.randrange(a.shape[1])] = v; return 'channel'
    if how < .3:
        for _ in range(rng.randint(1, 3)):
            a[tuple(rng.randrange(n) for n in a.shape)] = v
        return 'cells'
    sel0 = slice(None) if rng.chance(.6) else rng.randrange(a.shape[0])
    for ax in range(sp):
        n = a.shape[2 + ax]
        w = min(n, max(1, pads[ax]) + rng.randint(0, 2))
        for side in rng.sample(['lo', 'hi'], rng.randint(1, 2)) if rng.chance(.8) else []:
            idx = [sel0, slice(None)] + [slice(None)] * sp
            idx[2 + ax] = slice(0, w) if side == 'lo' else slice(n - w, n)
            a[tuple(idx)] = v
    return 'bands'


def special_case(rng, op):
    """an accepted configuration of a windowed op (padding > 0 three times out of four) whose input holds a special value in the
    cells that the padded windows overlap"""
    while True:
        leaves, args = gen_ops.gen_nn(rng, op, False)
        sh = leaves[0][0]
        if int(np.prod(sh)) > 400: continue
        a = [str(x) for x in args]
        pads = {'max_pool1d': lambda: [int(a[2])], 'avg_pool1d': lambda: [int(a[2])], 'conv1d': lambda: [int(a[2])],
                'max_pool2d': lambda: common.parse_ints(a[2]), 'avg_pool2d': lambda: common.parse_ints(a[2]), 'conv2d': lambda: common.parse_ints(a[2]),
                'unfold': lambda: common.parse_ints(a[3])}[op]()
        if any(pads) or rng.chance(.25): break
    dt = rng.pick(['f64', 'f32'])
    x = np.array(leaves[0][1], dtype=np.float64).reshape(sh)
    if dt == 'f32': x = x.astype(np.float32).astype(np.float64)
    fi = np.finfo(np.float32 if dt == 'f32' else np.float64)
    # classes: -inf (masked positions of a sequence / feature map), NaN, +inf, the dtype's extremes, signed zeros / smallest magnitudes;
    # the extremes only where the op selects (max pooling, unfold): a sum of them overflows in float32 and not in the binary64 model
    classes = [[float('-inf')]] * 3 + [[float('nan')]] * 2 + [[float('inf')]] + [[-0.0, 0.0, float(fi.tiny), 5e-324 if dt == 'f64' else float(fi.tiny)]]
    if op.startswith('max') or op == 'unfold': classes += [[float(fi.min), float(fi.max)]] * 2
    marks = []
    for _ in range(rng.randint(1, 2)):
        v = rng.pick(rng.pick(classes))
        marks.append((repr(v), paint(rng, x, v, pads)))
    lv = [(sh, [float(q) for q in x.ravel()], False, dt)]
    for lf in leaves[1:]:       # conv weight / bias: finite, exactly representable in float32 as well
        lv.append((lf[0], [float(np.float32(q)) for q in lf[1]] if dt == 'f32' else list(lf[1]), False, dt))
    c = {'kind': 'op', 'op': op, 'leaves': lv, 'args': args, 'malformed': False, 'dt': dt, 'special': marks}
    c['nanmax'] = op.startswith('max') and bool(np.isnan(x).any())
    c['lines'] = gen_ops.program(c, rng) + [f't val {len(lv)}']
    return c


# (binary_cross_entropy is not among them: its operand is a probability, and at exactly 0 / 1 the documented epsilon guard applies)
POINT_OPS = ['relu', 'relu', 'leaky_relu', 'selu', 'tanh', 'sigmoid', 'softmax', 'log_softmax', 'mse_loss', 'nll_loss', 'cross_entropy',
             'binary_cross_entropy_with_logits']
POINT_ACTS = ('relu', 'leaky_relu', 'selu', 'tanh', 'sigmoid')


def point_ref(c):
    """an activation read off its definition with NumPy in the dtype of the operand (NaN stays NaN, float32 overflows as float32 does)"""
    lf = c['leaves'][0]
    x = np.array(lf[1], dtype=np.float64).reshape(lf[0]).astype(np.float32 if c['dt'] == 'f32' else np.float64)
    op = c['op']
    with np.errstate(all='ignore'):
        if op == 'relu': return np.where(np.isnan(x), x, np.where(x > 0, x, x.dtype.type(0)))
        if op == 'leaky_relu': return np.where(x > 0, x, x.dtype.type(common.bitsf(str(c['args'][0]))) * x)
        if op == 'selu':
            alpha, scale = 1.6732632423543772848170429916717, 1.0507009873554804934193349852946
            return (scale * np.where(np.isnan(x), x, np.where(x > 0, x, alpha * np.expm1(np.minimum(x, 0))))).astype(x.dtype)
        if op == 'tanh': return np.tanh(x)
        if op == 'sigmoid': return np.where(x >= 0, 1 / (1 + np.exp(-np.abs(x))), 1 - 1 / (1 + np.exp(-np.abs(x)))).astype(x.dtype)
    raise KeyError(op)


def special_point_case(rng, op):
    """a pointwise / row-wise nn op (activation, softmax family, loss) whose first operand holds special values in SOME entries:
    -inf (masked scores, log 0), +inf, NaN, signed zeros / smallest magnitudes, the dtype's extremes; float64 and float32"""
    while True:
        leaves, args = gen_ops.gen_nn(rng, op, False)
        sh = leaves[0][0]
        if len(sh) >= 1 and 1 <= int(np.prod(sh)) <= 400: break
    dt = rng.pick(['f64', 'f32'])
    x = np.array(leaves[0][1], dtype=np.float64).reshape(sh)
    if dt == 'f32': x = x.astype(np.float32).astype(np.float64)
    fi = np.finfo(np.float32 if dt == 'f32' else np.float64)
    classes = [[float('-inf')]] * 4 + [[float('inf')]] * 2 + [[float('nan')]] * 2 + [[-0.0, 0.0, float(fi.tiny), -float(fi.tiny), 5e-324 if dt == 'f64' else float(fi.tiny)]] * 2
    # the dtype's extremes only where the op maps each element by itself: a sum / a shift by the maximum of them absorbs every other term
    if op in POINT_ACTS: classes += [[float(fi.min), float(fi.max)]]
    marks = []
    flat = x.reshape(-1)
    for _ in range(rng.randint(1, 2)):
        v = rng.pick(rng.pick(classes))
        how = rng.random()
        if how < .15: flat[:] = v; where = 'all'
        elif how < .35 and x.ndim >= 2:
            x[rng.randrange(sh[0])] = v; where = 'row'
        else:
            for i in rng.sample(range(flat.size), rng.randint(1, max(1, flat.size // 2))): flat[i] = v
            where = 'cells'
        marks.append((repr(v), where))
    lv = [(sh, [float(q) for q in x.ravel()], False, dt)]
    for lf in leaves[1:]:       # targets / labels: as generated
        lv.append(tuple([lf[0], [float(np.float32(q)) for q in lf[1]] if dt == 'f32' and (len(lf) < 4 or lf[3] != 'i64') else list(lf[1]), False] + list(lf[3:] if len(lf) > 3 else [dt])))
    c = {'kind': 'op', 'op': op, 'leaves': lv, 'args': args, 'malformed': False, 'dt': dt, 'special': marks, 'point': True}
    # NaN entries (the model's relu / selu select by `<` and do not propagate NaN) and float32 extremes (the binary64 model does not
    # overflow where float32 does): the value is judged against the definition instead of the model, as for max pooling over NaN
    c['pointref'] = op in POINT_ACTS and bool(np.isnan(x).any() or (dt == 'f32' and (np.abs(x[np.isfinite(x)]) >= float(fi.max) / 4).any()))
    c['lines'] = gen_ops.program(c, rng) + [f't val {len(lv)}']
    return c


RECONF_OPS = ['max_pool1d', 'avg_pool1d', 'max_pool2d', 'avg_pool2d', 'conv1d', 'conv2d', 'unfold', 'fold', 'leaky_relu', 'softmax', 'log_softmax', 'flatten', 'loss']


def _fits(L, k, s, p, d):
    return L + 2 * p >= d * (k - 1) + 1


def reconf_case(rng, op):
    """ONE object, 2-4 configurations: the first is given to the constructor (or assigned right after a default construction), the
    others are assigned to the public attributes between calls. Lines: the op with each configuration in turn, value after each."""
    n = rng.randint(2, 4)
    cfgs, leaves = [], None
    if op == 'loss':
        name = rng.pick(['mse_loss', 'nll_loss', 'binary_cross_entropy', 'binary_cross_entropy_with_logits', 'cross_entropy'])
        leaves, args = gen_ops.gen_nn(rng, name, False)
        reds = [rng.pick(['mean', 'sum', 'none'])]
        while len(reds) < n:
            reds.append(rng.pick([r for r in ['mean', 'sum', 'none'] if r != reds[-1]] if rng.chance(.85) else ['mean', 'sum', 'none']))
        lines = [gen_dag.leaf_line(lf[0], lf[1], False, lf[3] if len(lf) > 3 else 'f64') for lf in leaves]
        tid = len(leaves) - 1
        for red in reds:
            tid += 1 if red == 'none' else 2
            lines += [' '.join(['t loss', name, red, '0', '1'] + [str(a) for a in args]), f't val {tid}']
        return {'kind': 'reconf', 'op': op, 'loss': name, 'leaves': [tuple([lf[0], lf[1], False] + list(lf[3:])) for lf in leaves], 'args': args, 'cfgs': reds, 'malformed': False, 'lines': lines}
    pr = lambda lo, hi: (rng.randint(lo, hi), rng.randint(lo, hi)) if rng.chance(.6) else (rng.randint(lo, hi),) * 2
    if op in ('max_pool1d', 'avg_pool1d', 'conv1d'):
        L = rng.randint(4, 9)
        kfix = rng.randint(1, 3)
        while len(cfgs) < n:
            k = kfix if op == 'conv1d' else rng.randint(1, 4)
            s, d = rng.randint(1, 3), rng.randint(1, 2); p = rng.randint(0, k // 2 if op != 'conv1d' else 2)
            if _fits(L, k, s, p, d): cfgs.append([k, s, p, d] if op != 'conv1d' else [None, s, p, d])
        nb, ch = rng.randint(1, 2), rng.randint(1, 2)
        if op == 'conv1d':
            co, bias = rng.randint(1, 2), rng.chance(.5)
            leaves = [((nb, ch, L), gen_ops.vals(rng, (nb, ch, L)), False), ((co, ch, kfix), gen_ops.vals(rng, (co, ch, kfix)), False)] + ([((co,), gen_ops.vals(rng, (co,)), False)] if bias else [])
            for c_ in cfgs: c_[0] = int(bias)
        else:
            leaves = [((nb, ch, L), gen_ops.vals(rng, (nb, ch, L), 'distinct' if op[0] == 'm' else 'any'), False)]
    elif op in ('max_pool2d', 'avg_pool2d', 'conv2d', 'unfold'):
        H, W = rng.randint(4, 7), rng.randint(4, 7)
        kfix = pr(1, 3)
        while len(cfgs) < n:
            k = kfix if op == 'conv2d' else pr(1, 3)
            s, d = pr(1, 3), pr(1, 2)
            p = (rng.randint(0, k[0] // 2), rng.randint(0, k[1] // 2)) if op != 'conv2d' else pr(0, 2)
            if op != 'conv2d' and rng.chance(.4): p = (min(p), min(p))
            if _fits(H, k[0], s[0], p[0], d[0]) and _fits(W, k[1], s[1], p[1], d[1]):
                P = show_ints
                cfgs.append([P(k), P(s), P(p), P(d)] if op.endswith('pool2d') else [None, P(s), P(p), P(d)] if op == 'conv2d' else [P(k), P(d), P(s), P(p), fbits(rng.pick([0.0, 0.0, 1.5, -2.0]))])
        nb, ch = rng.randint(1, 2), rng.randint(1, 2)
        if op == 'conv2d':
            co, bias = rng.randint(1, 2), rng.chance(.5)
            leaves = [((nb, ch, H, W), gen_ops.vals(rng, (nb, ch, H, W)), False), ((co, ch) + kfix, gen_ops.vals(rng, (co, ch) + kfix), False)] + ([((co,), gen_ops.vals(rng, (co,)), False)] if bias else [])
            for c_ in cfgs: c_[0] = int(bias)
        else:
            leaves = [((nb, ch, H, W), gen_ops.vals(rng, (nb, ch, H, W), 'distinct' if op[0] == 'm' else 'any'), False)]
    elif op == 'fold':
        # the column count is fixed by the operand; configurations that keep it: padding p -> p + 1 with output_size O -> O - 2 per axis, and
        # the transposed geometry when the block counts agree; plus configurations the operand does not fit (rejected)
        while True:
            lv, args = gen_ops.gen_nn(rng, 'fold', False)
            O, k, d, s_, p = [common.parse_ints(str(a)) for a in args]
            if min(O) >= 3: break
        leaves = [(lv[0][0], lv[0][1], False)]
        cfgs = [[str(a) for a in args]]
        P = show_ints
        while len(cfgs) < n:
            r = rng.random()
            if r < .6:
                ax = [rng.chance(.6), rng.chance(.6)]
                O2 = [o - 2 * int(b) for o, b in zip(O, ax)]; p2 = [q + int(b) for q, b in zip(p, ax)]
                if min(O2) < 1: continue
                cfgs.append([P(O2), P(k), P(d), P(s_), P(p2)])
            elif r < .8:
                cfgs.append(cfgs[0])
            else:
                cfgs.append([P(O), P(k), P(d), P([v + 1 for v in s_]), P(p)])
    elif op == 'leaky_relu':
        sh = gen_ops.rshape(rng, 1, 3); leaves = [(sh, gen_ops.nonkink(rng, sh), False)]
        slopes = rng.sample([0.01, 0.2, 0.0, 1.5, -0.5, 1.0], n)
        cfgs = [[fbits(v)] for v in slopes]
    elif op in ('softmax', 'log_softmax'):
        sh = gen_ops.rshape(rng, 2, 3); leaves = [(sh, gen_ops.vals(rng, sh), False)]
        dims = list(range(-len(sh), len(sh)))
        cfgs = [[rng.pick(dims)]]
        while len(cfgs) < n: cfgs.append([rng.pick([v for v in dims if v % len(sh) != cfgs[-1][0] % len(sh)])])
    elif op == 'flatten':
        sh = gen_ops.rshape(rng, 3, 4, 3); leaves = [(sh, gen_ops.vals(rng, sh), False)]
        while len(cfgs) < n:
            s0 = rng.randrange(0, len(sh)); e0 = rng.randrange(s0, len(sh))
            cfgs.append([s0 if rng.chance(.5) else s0 - len(sh), e0 if rng.chance(.5) else e0 - len(sh)])
    lines = [gen_dag.leaf_line(lf[0], lf[1], False, 'f64') for lf in leaves]
    tid = len(leaves) - 1
    if op == 'fold':       # configurations the operand does not fit (rejected: no tensor is created) go last
        cfgs = [c_ for c_ in cfgs if c_[3] == cfgs[0][3]] + [c_ for c_ in cfgs if c_[3] != cfgs[0][3]]
    for cf in cfgs:
        tid += 1
        lines += [' '.join(['t op', op, show_ints(range(len(leaves)))] + [str(a) for a in cf]), f't val {tid}']
    return {'kind': 'reconf', 'op': op, 'leaves': leaves, 'cfgs': cfgs, 'malformed': False, 'lines': lines}


# ---- REPEATED CALLS of stateful / parameterised layer objects ------------------------------------------------------------
# (B) `repeat`: one op line written K times over the same operands (and a second input in between): the implementation side keeps
#     ONE layer object / ONE set of running-statistics buffers for the whole program (StatefulImpl), every call is followed by a
#     backward pass, and after every call that is not a training-mode statistics update the persistent arrays (running_mean,
#     running_var, weights, biases, the operands themselves) must be bit-identical to what they were before it.
# (A) `mfrep`: `mf` programs (lean/SynapModel/Drv/ModuleFwd.lean) — BatchNorm1d / Dropout / Linear objects, alone or inside a
#     Sequential: training forwards, eval(), K eval-mode forwards (50+ in the long ones), train() / eval() again; every output and
#     the state after every phase against the model, plus the same bit-identity rule for eval-mode forwards and backwards.
REPEAT_OPS = ['batch_norm'] * 6 + ['conv1d', 'conv2d', 'linear', 'linear', 'max_pool1d', 'max_pool2d', 'avg_pool1d', 'avg_pool2d', 'unfold', 'fold',
                                    'softmax', 'log_softmax', 'leaky_relu']


def repeat_case(rng, op, long=False):
    dt = rng.pick(['f64', 'f64', 'f32'])
    save = gen_ops.WIDE_LEVELS
    gen_ops.WIDE_LEVELS = save and dt == 'f64'
    try:
        while True:
            leaves, args = gen_ops.gen_nn(rng, op, False)
            if int(np.prod(leaves[0][0])) <= (60 if long else 400): break
    finally:
        gen_ops.WIDE_LEVELS = save
    args = list(args)
    mode = None
    if op == 'batch_norm':
        mode = 'eval' if long else rng.pick(['eval', 'eval', 'eval', 'eval', 'train'])
        ch = leaves[0][0][1]
        args[2] = int(mode == 'train')
        if mode == 'eval' and (long or rng.chance(.9)) or mode == 'train' and rng.chance(.5):
            args[4] = show_floats([rng.dyadic(-1, 1) for _ in range(ch)])
            args[5] = show_floats([rng.pick([0.02, 0.25, 0.5, 1.0, 1.0, 1.5, 3.0]) for _ in range(ch)])      # running variances small and large against eps
        else:
            args[4] = args[5] = '-'
        args[3] = fbits(rng.pick([1e-3, 1e-5, 1e-5, 0.1]))
    if dt == 'f32':
        leaves = [tuple([lf[0], [float(np.float32(v)) for v in lf[1]]] + list(lf[2:])) for lf in leaves]
    K = rng.randint(50, 64) if long else rng.pick([2, 2, 3, 4, 6])
    nl = len(leaves)
    two = rng.chance(.5) and K > 2
    if two:       # a second input of the same shape, served in between: the first input must then give its first answer again
        x2 = gen_ops.vals(rng, leaves[0][0])
        if dt == 'f32': x2 = [float(np.float32(v)) for v in x2]
        leaves = leaves + [(leaves[0][0], x2, leaves[0][2])]
    inputs = [0] + [rng.pick([0, nl]) if two else 0 for _ in range(K - 2)] + [0]
    c = {'kind': 'repeat', 'op': op, 'leaves': leaves, 'args': args, 'dt': dt, 'malformed': False, 'K': K, 'mode': mode, 'inputs': inputs, 'nl': nl}
    lines = [gen_dag.leaf_line(lf[0], lf[1], lf[2], lf[3] if len(lf) > 3 else dt) for lf in leaves]
    watch = set(range(K)) if K <= 8 else {0, 1, 2, K // 2, K - 1}
    for j, i0 in enumerate(inputs):
        lines.append(' '.join(['t op', op, show_ints([i0] + list(range(1, nl)))] + [str(a) for a in args]))
        if j in watch: lines.append(f't val {len(leaves) + j}')
    c['lines'] = lines
    return c


def mfrep_case(rng, long=False):
    V = lambda sh, kind='any': gen_ops.vals(rng, sh, kind)
    L = []
    new = lambda l: (L.append('mf ' + l), sum(1 for q in L if q.split(' ')[1] in ('linear', 'neuron', 'act', 'flatten', 'bn', 'dropout', 'seq', 'seqd')) - 1)[1]
    C = rng.randint(1, 3)
    rest = rng.pick([(), (), (rng.randint(1, 3),)])
    mo, eps = rng.pick([None, .1, .1, .5, 1.0]), rng.pick([1e-5, 1e-5, 1e-3, 1e-3, 0.1])
    aff, track = rng.pick([(True, True), (True, True), (True, True), (False, True), (True, False)])
    bn = new(f"bn {C} {common.show_opt(lambda v: str(fbits(v)), mo)} {fbits(eps)} {int(aff)} {int(track)} "
             f"{common.show_opt(show_floats, V((C,), 'pos') if aff and rng.chance(.7) else None)} {common.show_opt(show_floats, V((C,)) if aff and rng.chance(.7) else None)}")
    target, d_in, members = bn, C, [bn]
    drop = None
    if not rest and rng.chance(.5):      # the layer inside a model: Linear in front, activation / Dropout behind, one Sequential (members may repeat)
        order = [bn]
        if rng.chance(.6):
            d_in = rng.randint(1, 3)
            order.insert(0, new(f"linear {d_in} {C} {int(True)} {show_floats(V((C, d_in)))} {show_floats(V((C,)))}"))
        if rng.chance(.5): order.append(new('act ' + rng.pick(['relu', 'tanh', 'sigmoid'])))
        if rng.chance(.6):
            drop = len(L); order.append(new('dropout ?'))
        if rng.chance(.3): order.append(bn)
        members = order
        target = new('seq ' + show_ints(order))
    n = rng.randint(2, 4)
    xs = (n, d_in) + rest
    ntrain = 0
    def fwd(sh, data): L.append(f'mf fwd {target} {show_ints(sh)} {show_floats(data)}')
    def states():
        for k in sorted(set(members)):
            if k == bn or (drop is not None and L[drop].split(' ')[1] == 'dropout' and k == members[-1 if members[-1] != bn else -2]): L.append(f'mf state {k}')
    pre = 0 if long and rng.chance(.3) else rng.randint(0, 3)
    for _ in range(pre):
        fwd(xs, V(xs)); ntrain += 1
    states()
    L.append(f'mf train {target} 0')
    K = rng.randint(50, 64) if long else rng.pick([2, 3, 3, 5, 8])
    n_ev = rng.pick([1, n, n]) if track else n         # a batch of one sample is an ordinary eval-mode input
    x1, x2 = V((n_ev, d_in) + rest), V((n_ev, d_in) + rest)
    seq = [x1] + [rng.pick([x1, x1, x2]) for _ in range(K - 2)] + [x1]
    for x in seq: fwd((n_ev, d_in) + rest, x)
    states()
    if rng.chance(.4):      # back to training for one batch, then inference again
        L.append(f'mf train {target} 1'); fwd(xs, V(xs)); ntrain += 1; states()
        L.append(f'mf train {target} 0'); fwd((n_ev, d_in) + rest, x1); fwd((n_ev, d_in) + rest, x1); states()
    if drop is not None:
        L[drop] = f"mf dropout {fbits(rng.pick([0.0, 0.25, 0.5, 0.5, 0.75]))} {show_floats([rng.random() for _ in range((ntrain + 1) * n * C * 2)])}"
    return {'kind': 'mfrep', 'op': 'BatchNorm1d' + ('' if target == bn else ' in Sequential'), 'lines': L, 'malformed': False, 'K': K, 'eps': eps, 'pre': pre, 'track': track}




# ---- ACCEPT / REJECT BOUNDARY of the windowed ops ----------------------------------------------------------------------------
# Enumerated in every run (nothing drawn but the operand values): for each stride 1..4 every value v = L + 2p - d(k-1) - 1 in
# {-stride-1, ..., 0, 1} per axis (v < 0: no window fits, the op must raise; v >= 0: floor(v / stride) + 1 windows), realised with
# varying kernel / dilation / padding inside each op's own legality rules (pooling: padding <= kernel // 2); 2-d ops with the boundary on
# H (W fine), on W (H fine) and on both axes.
BOUNDARY_1D = ['conv1d', 'max_pool1d', 'avg_pool1d']
BOUNDARY_2D = ['conv2d', 'max_pool2d', 'avg_pool2d', 'unfold', 'fold']


def _realisations(op, v):
    """every (k, d, p, L) of the small grid with L + 2p - d(k-1) - 1 == v, L >= 1, legal for the op"""
    out = []
    for k in (1, 2, 3, 4, 5):
        for d in (1, 2, 3):
            if k == 1 and d > 1: continue
            for p in (0, 1, 2):
                if 'pool' in op and p > k // 2: continue
                L = v + d * (k - 1) + 1 - 2 * p
                if 1 <= L <= 9: out.append((k, d, p, L))
    return out


def _fine_axis(op, s, j):
    """an axis with at least one window (v >= 0), varied with j"""
    k, d, p = [(2, 1, 0), (3, 1, 1), (1, 1, 0), (2, 2, 1), (3, 2, 0)][j % 5]
    L = d * (k - 1) + 1 - 2 * p + (j % 3) + s * (j % 2)
    if L < 1: L += 2
    return k, d, p, L


def boundary_cases(rng, tier):
    out, j = [], 0
    nreal = 1 if tier == 'quick' else 6
    for op in BOUNDARY_1D + BOUNDARY_2D:
        two = op in BOUNDARY_2D
        for s in (1, 2, 3, 4):
            for v in range(-s - 1, 2):
                reals = _realisations(op, v)
                for where in (('H', 'W', 'HW') if two else ('L',)):
                    for r in range(nreal):
                        j += 1
                        k, d, p, L = reals[(j * 7 + r * 3) % len(reals)]
                        if not two:
                            out.append(_boundary_case(rng, op, [(k, d, p, L, s, v)], where)); continue
                        s2 = (1, 2, 3, 4)[(j + s) % 4]
                        if where == 'HW':
                            # the other axis sits on the same side of the boundary: no window either (any value of its own family) / just enough
                            v2 = range(-s2 - 1, 0)[j % (s2 + 1)] if v < 0 else (0, 1, s2 - 1, s2)[j % 4]
                            r2 = _realisations(op, v2)
                            k2, d2, p2, L2 = r2[(j * 5) % len(r2)]
                        else:
                            k2, d2, p2, L2 = _fine_axis(op, s2, j)
                            v2 = L2 + 2 * p2 - d2 * (k2 - 1) - 1
                        a, b = (k, d, p, L, s, v), (k2, d2, p2, L2, s2, v2)
                        out.append(_boundary_case(rng, op, [a, b] if where != 'W' else [b, a], where))
    return out


def _boundary_case(rng, op, axes, where):
    k, d, p, L, s, v = [tuple(a[i] for a in axes) for i in range(6)]
    fits = all(x >= 0 for x in v)
    lo = [x // s_ + 1 if x >= 0 else None for x, s_ in zip(v, s)]
    n, c = 1, 1 + (sum(L) % 2)
    P = show_ints
    V = lambda sh, kind='any': (sh, gen_ops.vals(rng, sh, kind), False)
    if op == 'conv1d':
        co, bias = 1 + (k[0] % 2), bool((L[0] + s[0]) % 2)
        leaves = [V((n, c, L[0])), V((co, c, k[0]))] + ([V((co,))] if bias else [])
        args = [int(bias), s[0], p[0], d[0]]
    elif op == 'conv2d':
        co, bias = 1 + (k[0] % 2), bool((L[0] + s[1]) % 2)
        leaves = [V((n, c) + L), V((co, c) + k)] + ([V((co,))] if bias else [])
        args = [int(bias), P(s), P(p), P(d)]
    elif op in ('max_pool1d', 'avg_pool1d'):
        leaves = [V((n, c, L[0]), 'distinct' if op[0] == 'm' else 'any')]
        args = [k[0], s[0], p[0], d[0]]
    elif op in ('max_pool2d', 'avg_pool2d'):
        leaves = [V((n, c) + L, 'distinct' if op[0] == 'm' else 'any')]
        args = [P(k), P(s), P(p), P(d)]
    elif op == 'unfold':
        leaves = [V((n, c) + L)]
        args = [P(k), P(d), P(s), P(p), fbits([0.0, 0.0, 1.5][(L[0] + L[1]) % 3])]
    else:       # fold: as many columns as there are windows; where no window fits, the count an axis of ONE window would give
        cols = int(np.prod([x if x else 1 for x in lo])) if not fits or (sum(L) % 5) else int(np.prod(lo))
        # zero columns with a geometry without windows (every third such case): fold folded them into zeros of output_size instead of
        # raising until fix 4f1f1a6 (known_findings.jsonl)
        if not fits and (sum(L) + sum(k)) % 3 == 0: cols = 0
        leaves = [V((n, c * k[0] * k[1], cols))]
        args = [P(L), P(k), P(d), P(s), P(p)]
    cs = {'kind': 'op', 'op': op, 'leaves': leaves, 'args': args, 'malformed': not fits,
          'bd': {'where': where, 'stride': list(s), 'v': list(v), 'fits': fits, 'out': lo}}
    cs['lines'] = gen_ops.program(cs, rng) + [f't val {len(leaves)}']
    return cs


def _no_window(c):
    """a windowed op whose geometry leaves no room for a single window along some axis (None: not a windowed op / not decidable here)"""
    try:
        op, a = c['op'], [str(x) for x in c['args']]
        sh = tuple(c['leaves'][0][0])
        pr = lambda t: tuple(common.parse_ints(t))
        if op == 'conv1d': L, k, p, d = sh[2:], tuple(c['leaves'][1][0])[2:], (int(a[2]),), (int(a[3]),)
        elif op == 'conv2d': L, k, p, d = sh[2:], tuple(c['leaves'][1][0])[2:], pr(a[2]), pr(a[3])
        elif op in ('max_pool1d', 'avg_pool1d'): L, k, p, d = sh[2:], (int(a[0]),), (int(a[2]),), (int(a[3]),)
        elif op in ('max_pool2d', 'avg_pool2d'): L, k, p, d = sh[2:], pr(a[0]), pr(a[2]), pr(a[3])
        elif op == 'unfold': L, k, d, p = sh[2:], pr(a[0]), pr(a[1]), pr(a[3])
        elif op == 'fold': L, k, d, p = pr(a[0]), pr(a[1]), pr(a[2]), pr(a[4])
        else: return None
        if not (len(L) == len(k) == len(p) == len(d)): return None
        return any(l + 2 * p_ - d_ * (k_ - 1) - 1 < 0 for l, k_, p_, d_ in zip(L, k, p, d))
    except Exception:
        return None


def extract():
    """the forward formulas of the activations / elementwise losses are re-read from cpu_ops.py (Generated/KernelFormulas.lean); the src_forward_* theorems are re-checked by the build"""
    import formulas
    return formulas.write()[0]

def cases(rng, tier):
    out = []
    gen_ops.WIDE_LEVELS = True
    per = 10 if tier == 'quick' else 300
    for op in gen_ops.OPS_NN:
        for _ in range(per * (4 if op in ('fold', 'unfold', 'conv2d', 'max_pool2d', 'avg_pool2d') else 1)):     # the 2-d geometry space is the largest
            out.append(op_case(rng, op))
    for _ in range(50 if tier == 'quick' else 1500):
        out.append(loss_case(rng))
    for _ in range(120 if tier == 'quick' else 3000):
        out.append(layer_case(rng))
    for op in ('max_pool1d', 'max_pool2d', 'avg_pool1d', 'avg_pool2d', 'conv1d', 'conv2d', 'unfold'):
        for _ in range((20 if op.startswith('max') else 8) if tier == 'quick' else 400):
            out.append(special_case(rng, op))
    for op in POINT_OPS:
        for _ in range(8 if tier == 'quick' else 300):
            out.append(special_point_case(rng, op))
    for op in RECONF_OPS:
        for _ in range((12 if op == 'loss' else 8) if tier == 'quick' else 200):
            out.append(reconf_case(rng, op))
    # repeated calls of one layer object / one set of buffers (eval-mode BatchNorm 50+ times in the long ones)
    for j in range(70 if tier == 'quick' else 2000):
        out.append(repeat_case(rng, rng.pick(REPEAT_OPS)))
    for j in range(3 if tier == 'quick' else 40):
        out.append(repeat_case(rng, 'batch_norm', long=True))
    for j in range(50 if tier == 'quick' else 1500):
        out.append(mfrep_case(rng))
    for j in range(3 if tier == 'quick' else 40):
        out.append(mfrep_case(rng, long=True))
    # the accept / reject boundary of every windowed op, enumerated (the same geometries in every run)
    out += boundary_cases(rng, tier)
    for c in out:
        c['desc'] = ' ; '.join(c['lines'])[:600]
    return out


def _arr2(v):
    a = np.broadcast_to(np.asarray(v), 2)
    return f'{int(a[0])},{int(a[1])}'


def _layer_impl(c):
    sg = common.impl()
    from synapgrad import nn
    un = lambda v: v[0] if len(v) == 1 else tuple(v)
    if c['layer'] == 'conv2d':
        p = c['p'] if isinstance(c['p'], str) else un(c['p'])
        l = nn.Conv2d(1, 2, un(c['k']), un(c['s']), p, un(c['d']))
        head = f"k={_arr2(l.kernel_size)} s={_arr2(l.stride)} p={_arr2(l.padding)} d={_arr2(l.dilation)}"
        r = outcome(lambda: l(sg.Tensor(np.zeros((1, 1, c['H'], c['W']), dtype=np.float32))))
        return head + ' out=' + ('rejected' if isinstance(r, str) else f'{r.shape[2]},{r.shape[3]}')
    if c['layer'] == 'conv1d':
        l = nn.Conv1d(1, 2, c['k'], c['s'], c['p'], c['d'])
        head = f"k={l.kernel_size} s={l.stride} p={l.padding} d={l.dilation}"
        r = outcome(lambda: l(sg.Tensor(np.zeros((1, 1, c['L']), dtype=np.float32))))
        return head + ' out=' + ('rejected' if isinstance(r, str) else f'{r.shape[2]}')
    if c['layer'] == 'pool2d':
        cls = nn.MaxPool2d if c['max'] else nn.AvgPool2d
        l = cls(un(c['k']), None if c['s'] is None else un(c['s']), un(c['p']), un(c['d']))
        head = f"k={_arr2(l.kernel_size)} s={_arr2(l.stride)} p={_arr2(l.padding)} d={_arr2(l.dilation)}"
        r = outcome(lambda: l(sg.Tensor(np.zeros((1, 1, c['H'], c['W']), dtype=np.float32))))
        return head + ' out=' + ('rejected' if isinstance(r, str) else f'{r.shape[2]},{r.shape[3]}')
    cls = nn.MaxPool1d if c['max'] else nn.AvgPool1d
    l = cls(c['k'], c['s'], c['p'], c['d'])
    head = f"k={l.kernel_size} s={l.stride} p={l.padding} d={l.dilation}"
    r = outcome(lambda: l(sg.Tensor(np.zeros((1, 1, c['L']), dtype=np.float32))))
    return head + ' out=' + ('rejected' if isinstance(r, str) else f'{r.shape[2]}')


class ReconfImpl(tprog.Impl):
    """every nn op / loss of the program goes through ONE object per class (and per weight tensor), built at the first call and
    RE-CONFIGURED — its public attributes assigned, as `pool.stride = 2`, `crit.reduction = 'none'` — before every later call;
    every third object is even built with default arguments and configured by assignment before its first call"""
    def __init__(self):
        super().__init__()
        self.objs, self.last, self.nrc, self.trail = {}, {}, 0, []

    def _configured(self, key, make, default, vals):
        self.nrc += 1
        if key not in self.objs:
            if default is not None and self.nrc % 3 == 0:
                self.objs[key], self.last[key] = make(**default), dict(default)
                self.trail.append(f'{key[0]}({", ".join(f"{k}={v!r}" for k, v in default.items())})')
            else:
                self.objs[key], self.last[key] = make(**vals), dict(vals)
                self.trail.append(f'{key[0]}({", ".join(f"{k}={v!r}" for k, v in vals.items())})')
        obj = self.objs[key]
        for k, v in vals.items():
            if self.last[key].get(k, '?') != v or type(self.last[key].get(k)) is not type(v):
                setattr(obj, k, v); self.last[key][k] = v
                self.trail.append(f'.{k} = {v!r}')
        return obj

    def call_op(self, name, ins, args):
        if name not in RECONF_OPS:
            return super().call_op(name, ins, args)
        nn, x = self.nn, [self.ts[i] for i in ins]
        args = [str(a) for a in args]
        def pair(a):
            v = tuple(common.parse_ints(a))
            return v[0] if len(v) == 2 and v[0] == v[1] and self.nrc % 2 else v       # documented: int or tuple
        if name in ('max_pool1d', 'avg_pool1d'):
            cls = nn.MaxPool1d if name[0] == 'm' else nn.AvgPool1d
            vals = dict(kernel_size=int(args[0]), stride=int(args[1]), padding=int(args[2]), dilation=int(args[3]))
            return self._configured((cls.__name__,), cls, dict(kernel_size=2), vals)(x[0])
        if name in ('max_pool2d', 'avg_pool2d'):
            cls = nn.MaxPool2d if name[0] == 'm' else nn.AvgPool2d
            vals = dict(kernel_size=pair(args[0]), stride=pair(args[1]), padding=pair(args[2]), dilation=pair(args[3]))
            return self._configured((cls.__name__,), cls, dict(kernel_size=2), vals)(x[0])
        if name in ('conv1d', 'conv2d'):
            w = x[1]; b = x[2] if len(x) > 2 else None
            def make(**kw):
                m = (nn.Conv1d(w.shape[1], w.shape[0], w.shape[2], bias=b is not None, **kw) if name == 'conv1d' else
                     nn.Conv2d(w.shape[1], w.shape[0], (w.shape[2], w.shape[3]), bias=b is not None, **kw))
                object.__setattr__(m, 'weight', w); object.__setattr__(m, 'bias', b)
                return m
            cv = int if name == 'conv1d' else pair
            vals = dict(stride=cv(args[1]), padding=cv(args[2]), dilation=cv(args[3]))
            return self._configured(('Conv1d' if name == 'conv1d' else 'Conv2d', id(w)), make, {}, vals)(x[0])
        if name == 'unfold':
            vals = dict(kernel_size=pair(args[0]), dilation=pair(args[1]), stride=pair(args[2]), padding=pair(args[3]), pad_value=common.bitsf(args[4]))
            return self._configured(('Unfold',), nn.Unfold, dict(kernel_size=2), vals)(x[0])
        if name == 'fold':
            vals = dict(output_size=tuple(common.parse_ints(args[0])), kernel_size=pair(args[1]), dilation=pair(args[2]), stride=pair(args[3]), padding=pair(args[4]))
            return self._configured(('Fold',), nn.Fold, dict(output_size=(4, 4), kernel_size=2), vals)(x[0])
        if name == 'leaky_relu':
            return self._configured(('LeakyReLU',), nn.LeakyReLU, {}, dict(negative_slope=common.bitsf(args[0])))(x[0])
        if name in ('softmax', 'log_softmax'):
            cls = nn.Softmax if name == 'softmax' else nn.LogSoftmax
            return self._configured((cls.__name__,), cls, dict(dim=0), dict(dim=int(args[0])))(x[0])
        if name == 'flatten':
            return self._configured(('Flatten',), nn.Flatten, {}, dict(start_dim=int(args[0]), end_dim=int(args[1])))(x[0])
        raise KeyError(name)

    def run(self, line):
        t = line.split(' ')
        if t[1] != 'loss':
            return super().run(line)
        nn = self.nn
        cls = {'mse_loss': nn.MSELoss, 'nll_loss': nn.NLLLoss, 'binary_cross_entropy': nn.BCELoss,
               'binary_cross_entropy_with_logits': nn.BCEWithLogitsLoss, 'cross_entropy': nn.CrossEntropyLoss}[t[2]]
        r = self._configured((cls.__name__,), cls, {}, dict(reduction=t[3]))(self.ts[int(t[4])], self.ts[int(t[5])])
        if t[3] != 'none': self.ts.append(None)      # the unreduced loss tensor
        self.ts.append(r)
        return f't{len(self.ts) - 1}'


def _snap(obj, seen=None, path=''):
    """every array an object holds on to: {path: (dtype, shape, bytes)} over tensors, parameters, sub-modules and containers"""
    from synapgrad.nn.modules import Module
    sg = common.impl()
    seen = set() if seen is None else seen
    out = {}
    if id(obj) in seen and not isinstance(obj, (sg.Tensor, np.ndarray)): return out
    if isinstance(obj, sg.Tensor):       # (recorded under every path that reaches it)
        out[path] = (str(obj.data.dtype), obj.data.shape, obj.data.tobytes())
    elif isinstance(obj, np.ndarray):
        out[path] = (str(obj.dtype), obj.shape, obj.tobytes())
    elif isinstance(obj, Module):
        seen.add(id(obj))
        for k, v in vars(obj).items():
            if k in ('_submodules', '_parameters') or isinstance(v, (sg.Tensor, Module, np.ndarray)):
                out.update(_snap(v, seen, f'{path}.{k}'))
            elif k == 'num_batches_tracked': out[f'{path}.{k}'] = v
    elif isinstance(obj, dict):
        for k, v in obj.items(): out.update(_snap(v, seen, f'{path}[{k}]'))
    elif isinstance(obj, (list, tuple)):
        for k, v in enumerate(obj): out.update(_snap(v, seen, f'{path}[{k}]'))
    return out


def _snap_diff(a, b):
    """paths present before AND after the call whose array changed (an object built by the call is no change)"""
    return sorted(k for k in set(a) & set(b) if a[k] != b[k])


class StatefulImpl(ReconfImpl):
    """the program's op lines go through ONE object per layer class (ReconfImpl) — here also nn.Linear, nn.BatchNorm1d / 2d and the
    running-statistics tensors handed to F.batch_norm, which live as long as the program —, every call is followed by a backward
    pass, and a call that is not a training-mode statistics update must leave every persistent array and every operand as it was"""
    def __init__(self):
        super().__init__()
        self.bnobjs, self.lin, self.changed, self.ncalls = {}, {}, [], 0

    def call_op(self, name, ins, args):
        sg, nn = self.sg, self.nn
        x = [self.ts[i] for i in ins]
        args = [str(a) for a in args]
        self.ncalls += 1
        updates = False
        if name == 'batch_norm':
            hw, hb, tr = bool(int(args[0])), bool(int(args[1])), bool(int(args[2]))
            w = x[1] if hw else None
            b = (x[2] if hw else x[1]) if hb else None
            eps, ch, dtp = common.bitsf(args[3]), x[0].shape[1], x[0].data.dtype
            key = (args[3], args[4], args[5], tr, ch, str(dtp), x[0].ndim == 4)
            if key not in self.bnobjs:
                rm = None if args[4] == '-' else sg.Tensor(np.array(common.parse_floats(args[4]), dtype=dtp))
                rv = None if args[5] == '-' else sg.Tensor(np.array(common.parse_floats(args[5]), dtype=dtp))
                layer = None
                if hw == hb:
                    layer = (nn.BatchNorm2d if x[0].ndim == 4 else nn.BatchNorm1d)(ch, eps=eps, momentum=0.1, affine=hw, track_running_stats=rm is not None, dtype=dtp.type)
                    if rm is not None: layer.running_mean, layer.running_var = rm, rv
                    if hw:       # the layer's parameters ARE the program's operand tensors
                        layer._parameters.clear()
                        object.__setattr__(layer, 'weight', w); object.__setattr__(layer, 'bias', b)
                    layer.train() if tr else layer.eval()
                self.bnobjs[key] = (layer, rm, rv)
            layer, rm, rv = self.bnobjs[key]
            updates = tr and rm is not None
            def run():
                if layer is not None and self.ncalls % 3 != 0:       # the layer object two times out of three, the function on the same buffers otherwise
                    return layer(x[0])
                return sg.batch_norm(x[0], w, b, rm, rv, tr, 0.1, eps)
        elif name == 'linear':
            w = x[1]; b = x[2] if len(x) > 2 else None
            if id(w) not in self.lin:
                m = nn.Linear(w.shape[1], w.shape[0], bias=b is not None)
                m._parameters.clear()
                object.__setattr__(m, 'weight', w); object.__setattr__(m, 'bias', b)
                self.lin[id(w)] = m
            run = lambda: self.lin[id(w)](x[0]) if self.ncalls % 3 != 0 else sg.linear(x[0], w, b)
        elif name in RECONF_OPS:
            run = lambda: ReconfImpl.call_op(self, name, ins, args)
        else:
            run = lambda: tprog.Impl.call_op(self, name, ins, args)
        held = [self.objs, self.bnobjs, self.lin, x]
        before = _snap(held)
        out = run()
        o = out[0] if isinstance(out, (tuple, list)) else out
        if o.requires_grad:
            o.backward(sg.Tensor(np.ones_like(o.data)))
        if not updates:
            diff = _snap_diff(before, _snap([self.objs, self.bnobjs, self.lin, x]))
            if diff:
                self.changed.append((self.ncalls, diff))
                raise RuntimeError(f'call {self.ncalls} changed persistent state: {diff}')
        return out


class RepModImpl(tprog.ModImpl):
    """ModImpl whose forward calls are followed by a backward pass; an eval-mode call must leave every array of the module tree
    bit-identical (answer suffix ` state-changed:<paths>` otherwise)"""
    def __init__(self):
        super().__init__()
        self.changed = []

    def run(self, line):
        t = line.split(' ')
        if t[1] != 'fwd': return super().run(line)
        sg = self.sg
        m = self.ms[int(t[2])]
        a = tprog.parse_arr(t[3] + '|' + t[4])
        x = sg.Tensor(a.copy(), requires_grad=True)
        before = _snap(m)
        orig = np.random.rand
        np.random.rand = self._rand
        try:
            out = m(x)
            if out.requires_grad: out.backward(sg.Tensor(np.ones_like(out.data)))
        finally:
            np.random.rand = orig
        ans = tprog.show_arr(out.data)
        if not m.training:
            diff = _snap_diff(before, _snap(m)) + ([] if np.array_equal(a, x.data, equal_nan=True) else ['<input>'])
            if diff:
                self.changed.append((line[:60], diff))
                ans += ' state-changed:' + ','.join(diff)
        return ans


def _run(c, keep=None):
    if c['kind'] == 'repeat':
        im = StatefulImpl()
        try:
            return [im.exec(l) for l in c['lines']]
        finally:
            if keep is not None: keep.append(im.changed)
            im.close()
    if c['kind'] == 'mfrep':
        im = RepModImpl()
        try:
            return [im.exec(l) for l in c['lines']]
        finally:
            if keep is not None: keep.append(im.changed)
    if c['kind'] != 'reconf':
        return tprog.run_program(c['lines'])
    im = ReconfImpl()
    try:
        return [im.exec(l) for l in c['lines']]
    finally:
        if keep is not None: keep.append(im.trail)
        im.close()


def impl(c):
    if c['kind'] == 'layer':
        return [outcome(lambda: _layer_impl(c))]
    return _run(c)


def _pool_geom(c):
    a = [str(x) for x in c['args']]
    return [common.parse_ints(v) for v in a[:4]]


def maxpool_ref(x, k, s, p, d):
    """max pooling read off its definition: per window the maximum over the cells that lie inside the input (padding takes no part:
    a window without any real cell gives -inf), NaN if one of them is NaN"""
    sp = x.shape[2:]
    lo = [(n + 2 * p_ - d_ * (k_ - 1) - 1) // s_ + 1 for n, k_, s_, p_, d_ in zip(sp, k, s, p, d)]
    out = np.full(x.shape[:2] + tuple(lo), -np.inf)
    import itertools
    for t in itertools.product(*[range(n) for n in lo]):
        cells = []
        for a in itertools.product(*[range(k_) for k_ in k]):
            q = [t_ * s_ - p_ + a_ * d_ for t_, s_, p_, a_, d_ in zip(t, s, p, a, d)]
            if all(0 <= q_ < n for q_, n in zip(q, sp)):
                cells.append(x[(slice(None), slice(None)) + tuple(q)])
        if cells:
            st = np.stack(cells, -1)
            out[(slice(None), slice(None)) + t] = np.where(np.isnan(st).any(-1), np.nan, np.max(np.where(np.isnan(st), -np.inf, st), -1))
    return out


def compare(c, mo, io):
    if c['kind'] == 'layer':
        return [(c['lines'][0], m, i) for m, i in zip(mo, io) if m != i]
    rtol = 1e-6 if c.get('dt') == 'f32' else 1e-9
    if c['kind'] == 'mfrep':
        return [(c['lines'][k], m[:300], str(i)[:300]) for k, (m, i) in enumerate(zip(mo, io))
                if not (m == i or (tprog.close_tokens(m, i, rtol) if ' ' in m or ' ' in str(i) else tprog.close_line(m, str(i), rtol)))][:3]
    if c.get('pointref'):
        nl = len(c['leaves'])
        d = tprog.diff_program(c['lines'][:nl + 1], mo[:nl + 1], io[:nl + 1], rtol)
        if d or io[nl] == 'rejected': return d
        ref = tprog.show_arr(point_ref(c).astype(np.float64))
        return [] if tprog.close_arr(ref, io[nl + 1], rtol) else [(c['lines'][nl + 1], 'definition: ' + ref[:280], str(io[nl + 1])[:300])]
    if c.get('nanmax'):
        # the value line is judged against the definition (see ASSUMPTIONS); everything else against the model
        nl = len(c['leaves'])
        d = tprog.diff_program(c['lines'][:nl + 1], mo[:nl + 1], io[:nl + 1], rtol)
        if d or io[nl] == 'rejected': return d
        ref = maxpool_ref(np.array(c['leaves'][0][1], dtype=np.float64).reshape(c['leaves'][0][0]), *_pool_geom(c))
        return [] if tprog.close_arr(tprog.show_arr(ref), io[nl + 1], rtol) else [(c['lines'][nl + 1], 'definition: ' + tprog.show_arr(ref)[:280], str(io[nl + 1])[:300])]
    return tprog.diff_program(c['lines'], mo, io, rtol)


def nontrivial(c):
    return not c['malformed']


def distribution(cases):
    d = {}
    def inc(k, n=1): d[k] = d.get(k, 0) + n
    for c in cases:
        inc(c['kind'] + ':' + str(c.get('op', c.get('layer'))))
        for v, where in c.get('special', []):
            inc(f"special value {v} over {where} ({c['dt']})")
            inc(f"special values in {c['op']}")
        if c.get('bd'):
            b = c['bd']
            inc(f"window boundary: {c['op']} on {b['where']} ({'accept' if b['fits'] else 'reject'})")
            for s_, v_ in zip(b['stride'], b['v']): inc(f"window boundary: stride {s_}, L+2p-d(k-1)-1 = {v_}")
            if not b['fits'] and any(-s_ < v_ < 0 for s_, v_ in zip(b['stride'], b['v'])): inc('window boundary: short of the dilated kernel by less than the stride')
        if c.get('nanmax'): inc('max pooling with NaN cells (judged against the definition)')
        if c.get('point'): inc(f"special values in some entries of a pointwise / row-wise op ({c['dt']})")
        if c.get('pointref'): inc('activation over NaN / float32 extremes (judged against the definition)')
        if c['kind'] == 'reconf':
            inc('re-configured object: calls after an attribute assignment', len(c['cfgs']) - 1)
        if c['kind'] in ('repeat', 'mfrep'):
            inc(f"repeated calls of one object ({c['kind']}): K " + ('>= 50' if c['K'] >= 50 else '< 10'))
            inc('repeated calls: total', c['K'])
            if c.get('mode'): inc(f"repeat: batch_norm {c['mode']} mode ({c['dt']})")
    return d


# ---- oracle: torch.nn.functional on the same arguments ---------------------------------------------
def _torch_ref(c):
    import torch
    import torch.nn.functional as F
    t = [torch.tensor(np.array(lf[1], dtype=np.float64).reshape(lf[0]), dtype=torch.float32 if len(lf) > 3 and lf[3] == 'f32' else torch.float64) for lf in c['leaves']]
    op, a = c['op'], [str(x) for x in c['args']]
    pair = lambda s: tuple(common.parse_ints(s))
    if op == 'flatten': return torch.flatten(t[0], int(a[0]), int(a[1]))
    if op == 'relu': return F.relu(t[0])
    if op == 'leaky_relu': return F.leaky_relu(t[0], common.bitsf(a[0]))
    if op == 'selu': return F.selu(t[0])
    if op == 'tanh': return torch.tanh(t[0])
    if op == 'sigmoid': return torch.sigmoid(t[0])
    if op == 'softmax': return F.softmax(t[0], int(a[0]))
    if op == 'log_softmax': return F.log_softmax(t[0], int(a[0]))
    if op == 'mse_loss': return F.mse_loss(t[0], t[1], reduction='none')
    if op == 'nll_loss': return F.nll_loss(t[0], t[1].long(), reduction='none')
    if op == 'cross_entropy': return F.cross_entropy(t[0], t[1].long(), reduction='none')
    if op == 'binary_cross_entropy': return F.binary_cross_entropy(t[0], t[1], reduction='none')
    if op == 'binary_cross_entropy_with_logits': return F.binary_cross_entropy_with_logits(t[0], t[1], reduction='none')
    if op == 'linear': return F.linear(t[0], t[1], t[2] if len(t) > 2 else None)
    if op == 'conv1d': return F.conv1d(t[0], t[1], t[2] if len(t) > 2 else None, int(a[1]), int(a[2]), int(a[3]))
    if op == 'conv2d': return F.conv2d(t[0], t[1], t[2] if len(t) > 2 else None, pair(a[1]), pair(a[2]), pair(a[3]))
    if op == 'max_pool1d': return F.max_pool1d(t[0], int(a[0]), int(a[1]), int(a[2]), int(a[3]))
    if op == 'avg_pool1d':
        if int(a[3]) != 1: return None
        return F.avg_pool1d(t[0], int(a[0]), int(a[1]), int(a[2]))
    if op == 'max_pool2d': return F.max_pool2d(t[0], pair(a[0]), pair(a[1]), pair(a[2]), pair(a[3]))
    if op == 'avg_pool2d':
        if pair(a[3]) != (1, 1): return None
        return F.avg_pool2d(t[0], pair(a[0]), pair(a[1]), pair(a[2]))
    if op == 'unfold':
        if common.bitsf(a[4]) != 0.0: return None
        return F.unfold(t[0], pair(a[0]), pair(a[1]), pair(a[3]), pair(a[2]))
    if op == 'fold': return F.fold(t[0], pair(a[0]), pair(a[1]), pair(a[2]), pair(a[4]), pair(a[3]))
    if op == 'batch_norm':
        hw, hb, tr = bool(int(a[0])), bool(int(a[1])), bool(int(a[2]))
        w = t[1] if hw else None
        b = (t[2] if hw else t[1]) if hb else None
        rm = None if a[4] == '-' else torch.tensor(common.parse_floats(a[4]))
        rv = None if a[5] == '-' else torch.tensor(common.parse_floats(a[5]))
        return F.batch_norm(t[0], rm, rv, w, b, tr or rm is None, 0.1, common.bitsf(a[3]))
    raise KeyError(op)


def oracle(c):
    if c['kind'] == 'layer':
        r = outcome(lambda: _layer_impl(c))
        # PyTorch rules, recomputed
        def bc(v): return (v[0], v[0]) if len(v) == 1 else tuple(v)
        def out(L, k, s, p, d):
            n = L + 2 * p - d * (k - 1) - 1
            return n // s + 1 if n >= 0 else None
        if c['layer'] in ('conv2d', 'pool2d'):
            k, d = bc(c['k']), bc(c['d'])
            s = bc(c['s']) if c['s'] is not None else k
            if c['p'] == 'same':
                if s != (1, 1) or any((dd * (kk - 1)) % 2 for kk, dd in zip(k, d)): want = 'rejected'
                else: p = tuple(dd * (kk - 1) // 2 for kk, dd in zip(k, d)); want = None
            elif c['p'] == 'valid': p = (0, 0); want = None
            else: p = bc(c['p']); want = None
            if want is None:
                o = [out(c['H'], k[0], s[0], p[0], d[0]), out(c['W'], k[1], s[1], p[1], d[1])]
                want = f"k={k[0]},{k[1]} s={s[0]},{s[1]} p={p[0]},{p[1]} d={d[0]},{d[1]} out=" + ('rejected' if None in o or 0 in o else f'{o[0]},{o[1]}')
        else:
            k, d = c['k'], c['d']
            s = c['s'] if c['s'] is not None else k
            want = None
            if c['p'] == 'same':
                if s != 1 or (d * (k - 1)) % 2: want = 'rejected'
                else: p = d * (k - 1) // 2
            elif c['p'] == 'valid': p = 0
            else: p = c['p']
            if want is None:
                o = out(c['L'], k, s, p, d)
                want = f"k={k} s={s} p={p} d={d} out=" + ('rejected' if not o else str(o))
        if r != want:
            return {'key': {'kind': 'layer', 'layer': c['layer'], 'pad': c['p'] if isinstance(c['p'], str) else 'num'}, 'case': c,
                    'what': f"{c['layer']} built from k={c['k']} s={c['s']} p={c['p']} d={c['d']} reports {r}; the documented rule gives {want}"}
        return None
    if c['kind'] == 'loss':
        return None
    if c['kind'] == 'reconf':
        return _reconf_oracle(c)
    if c['kind'] in ('repeat', 'mfrep'):
        return _repeat_oracle(c)
    io = tprog.run_program(c['lines'])
    nl = len(c['leaves'])
    cc = {k: v for k, v in c.items() if k in ('kind', 'op', 'leaves', 'args', 'malformed', 'lines', 'dt', 'special', 'bd')}
    key = {'op': c['op']}
    try:
        ref = _torch_ref(c)
        ok = True
    except Exception as e:
        ref, ok = None, False
    if io[nl] != 'rejected' and (not ok or ref is None) and _no_window(c):      # (ref None: a variant torch does not have, e.g. dilated average pooling)
        try: shape = tprog.parse_arr(io[nl + 1]).shape
        except Exception: shape = str(io[nl + 1])[:80]
        return {'key': dict(key, cls='accepted-without-a-window'), 'case': cc,
                'what': f"{c['op']}{c['args']} on input {tuple(c['leaves'][0][0])}: no window fits along some axis (L + 2p < d(k-1) + 1), torch raises; the implementation returned a result of shape {shape}"}
    if io[nl] == 'rejected':
        if ok and ref is not None and not c['malformed'] and ref.numel() > 0:
            return {'key': dict(key, cls='spurious-rejection'), 'case': cc, 'what': f"{c['op']}{c['args']} raised; torch accepts the configuration"}
        return None
    if ref is None:
        return None
    got = tprog.parse_arr(io[nl + 1])
    r = ref.numpy()
    if c['op'] == 'binary_cross_entropy':
        return None if np.allclose(got, r, rtol=1e-6, atol=1e-8) else {'key': dict(key, cls='value'), 'case': cc, 'what': 'bce differs from torch beyond its epsilon guard'}
    f32 = c.get('dt') == 'f32'
    if got.shape != r.shape or not np.allclose(got, r, rtol=1e-5 if f32 else 1e-8, atol=1e-6 if f32 else 1e-10, equal_nan=True):
        cls = 'value'
        # one specific, recorded deviation has a class of its own so that it cannot hide any other: a contraction through BLAS
        # (np.tensordot) drops the term 0 * (+-inf) where the reference gives NaN — an exactly-zero weight against a non-finite input
        if c['op'] in ('conv1d', 'conv2d') and got.shape == r.shape and len(c['leaves']) >= 2:
            x = np.array(c['leaves'][0][1], dtype=np.float64); w = np.array(c['leaves'][1][1], dtype=np.float64)
            bad = ~np.isclose(got, r, rtol=1e-5 if f32 else 1e-8, atol=1e-6 if f32 else 1e-10, equal_nan=True)
            if np.isinf(x).any() and (w == 0).any() and np.isnan(r[bad]).all() and np.isfinite(got[bad]).all():
                cls = 'zero-weight-times-inf'
        return {'key': dict(key, cls=cls), 'case': cc, 'what': f"{c['op']}{c['args']}: {got.tolist()} (shape {got.shape}) vs torch {r.tolist()} (shape {r.shape})"}
    return None


def _reconf_oracle(c):
    """every call of the re-configured object against torch on the configuration of that moment"""
    trail = []
    io = _run(c, trail)
    nl = len(c['leaves'])
    cc = {k: v for k, v in c.items() if k in ('kind', 'op', 'loss', 'leaves', 'args', 'cfgs', 'malformed', 'lines')}
    for j, cf in enumerate(c['cfgs']):
        if c['op'] == 'loss':
            sub = {'op': c['loss'], 'leaves': c['leaves'], 'args': c['args']}
        else:
            sub = {'op': c['op'], 'leaves': c['leaves'], 'args': cf}
        try:
            ref = _torch_ref(sub)
        except Exception:
            ref = None
        if ref is not None and c['op'] == 'loss':
            ref = ref.mean() if cf == 'mean' else ref.sum() if cf == 'sum' else ref
        li = nl + 2 * j
        hist = f"object history: {' ; '.join(trail[0])}" if trail else ''
        if io[li] == 'rejected':
            if ref is not None and ref.numel() > 0:
                return {'key': {'op': c['op'], 'cls': 'reconfigured-object-rejects'}, 'case': cc, 'what': f"call {j} ({c['lines'][li]}) raised on the re-configured object; torch accepts the configuration. {hist}"}
            break
        if ref is None: continue
        got, r = tprog.parse_arr(io[li + 1]), ref.numpy()
        loose = c.get('loss') == 'binary_cross_entropy'
        if got.shape != r.shape or not np.allclose(got, r, rtol=1e-6 if loose else 1e-8, atol=1e-8 if loose else 1e-10, equal_nan=True):
            return {'key': {'op': c['op'], 'cls': 'reconfigured-object'}, 'case': cc,
                    'what': f"call {j} ({c['lines'][li]}) on the re-configured object returns {got.tolist()} (shape {got.shape}); the op with the attribute values of that moment (torch) gives {r.tolist()} (shape {r.shape}). {hist}"}
    return None


def _repeat_oracle(c):
    """(i) a call that changed persistent state although it is no training-mode statistics update; (ii) a call whose answer differs
    from the FIRST answer of the same object on the same input under the same state (eval mode: bit for bit); (iii) the first call
    itself against torch (single-call oracle)"""
    changed = []
    io = _run(c, changed)
    cc = {k: v for k, v in c.items() if k != 'desc'}
    key = {'kind': c['kind'], 'op': c['op']}
    if changed and changed[0]:
        at, diff = changed[0][0]
        return {'key': dict(key, cls='persistent-state-changed'), 'case': cc,
                'what': f"call {at} of the repeated-call program changed {diff} although it neither trains nor updates statistics (eval-mode forward / backward must leave buffers and parameters bit-identical)"}
    if c['kind'] == 'repeat':
        nl = len(c['leaves'])
        first = {}
        for k, l in enumerate(c['lines']):
            if not l.startswith('t val') or '|' not in str(io[k]): continue
            j = int(l.split(' ')[2]) - nl
            i0 = c['inputs'][j]
            if i0 not in first: first[i0] = (j, io[k]); continue
            if io[k] != first[i0][1]:
                a, b = tprog.parse_arr(first[i0][1]), tprog.parse_arr(io[k])
                return {'key': dict(key, cls='call-k-differs-from-call-1'), 'case': cc,
                        'what': f"{c['op']}{c['args']}: call {j + 1} on the same operands returns another value than call {first[i0][0] + 1} (max abs difference {float(np.max(np.abs(a - b))) if a.shape == b.shape else 'shape'}); nothing but forward / backward calls in eval-like mode happened in between"}
        sub = {'kind': 'op', 'op': c['op'], 'leaves': c['leaves'][:c['nl']], 'args': c['args'], 'malformed': False, 'dt': c['dt'],
               'lines': c['lines'][:len(c['leaves'])] + [c['lines'][len(c['leaves'])].replace(f" {c['inputs'][0]},", ' 0,', 1), f"t val {len(c['leaves'])}"]}
        sub['leaves'] = c['leaves']
        return oracle(sub)
    # mfrep: eval-mode answers on one input between two state changes must coincide bit for bit
    seen, training = {}, True
    for k, l in enumerate(c['lines']):
        t = l.split(' ')
        if t[1] == 'train': training = bool(int(t[3])); seen = {}
        elif t[1] == 'fwd' and not training and '|' in str(io[k]):
            kk = (t[3], t[4])
            if kk in seen and seen[kk][1] != io[k]:
                a, b = tprog.parse_arr(seen[kk][1].split(' ')[0]), tprog.parse_arr(io[k].split(' ')[0])
                return {'key': dict(key, cls='eval-call-k-differs-from-call-1'), 'case': cc,
                        'what': f"eval-mode forward number {k - seen[kk][0] + 1} of the same module on the same input differs from the first one (max abs difference {float(np.max(np.abs(a - b)))})"}
            seen.setdefault(kk, (k, io[k]))
    return None


def search(rng, tier):
    for c in cases(rng, 'quick'):
        f = oracle(c)
        if f: yield f


def _fix(c):
    if 'leaves' in c: c['leaves'] = [tuple([tuple(lf[0])] + list(lf[1:])) for lf in c['leaves']]
    return c
def matches_known(k, fail): return k.get('key') == fail.get('key')
def rerun_known(k): return oracle(_fix(k['witness'])) is not None
def replay(fail):
    f = oracle(_fix(fail['case']))
    return {'fails': f is not None, 'now': f}
