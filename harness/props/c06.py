"""C06 — forward semantics of nn ops, layers and losses"""
import numpy as np
import common
from common import show_floats, show_ints, fbits, outcome
import tprog, gen_dag, gen_ops

tprog.ENTRIES = True        # function / Tensor method / operator / nn layer class
tprog.SPELLINGS = True
tprog.LAYOUTS = True      # leaves are handed over in C / Fortran / strided / negative-stride / offset / transposed layouts
PROP = 'C06'
LEAN_TARGETS = ['Props.C06']
REQUIRED_THEOREMS = ['Props.C06.conv_out_size', 'Props.C06.conv1d_is_cross_correlation', 'Props.C06.same_preserves_length',
                     'Props.C06.pool_default_stride', 'Props.C06.maxpool_padding_never_wins', 'Props.C06.avgpool_counts_padding', 'Props.C06.conv2d_is_cross_correlation', 'Props.C06.conv2d_accepts_iff', 'Props.C06.avgpool2d_counts_padding', 'Props.C06.maxpool2d_padding_never_wins', 'Props.C06.softmax_spec', 'Props.C06.log_softmax_spec', 'Props.C06.cross_entropy_spec', 'Props.C06.mse_spec']
RULE = ('forward values of every nn op over the C02 generators (activations, softmax family along every dim, losses, linear, '
        'conv1d/2d and max/avg pooling over a geometry grid, unfold/fold, batch_norm in all modes) with ~8 % malformed '
        'configurations; loss modules under reduction mean / sum / none (value and shape); geometry layers constructed with int '
        'and tuple arguments, default stride, padding same / valid / int / tuple, and run on a probe input: normalised attributes '
        'and output shape must equal the model; the failing-input search compares with torch.nn.functional. '
        'Non-trivial: accepted configuration with more than one output element.')
EXHAUSTIVE = {'quick': False, 'thorough': False}
ASSUMPTIONS = ['float64 values (rel 1e-9); torch is used only as the oracle of the failing-input search']
TRUSTED_BASE = ['harness/tprog.py, harness/gen_ops.py']


def op_case(rng, op):
    malformed = rng.chance(0.08)
    leaves, args = gen_ops.gen_nn(rng, op, malformed)
    c = {'kind': 'op', 'op': op, 'leaves': [tuple([lf[0], lf[1], False] + list(lf[3:])) for lf in leaves], 'args': args, 'malformed': malformed}
    lines = gen_ops.program(c, rng)
    c['lines'] = lines + [f't val {len(leaves)}']
    return c


def loss_case(rng):
    name = rng.pick(['mse_loss', 'nll_loss', 'binary_cross_entropy', 'binary_cross_entropy_with_logits', 'cross_entropy'])
    leaves, args = gen_ops.gen_nn(rng, name, False)
    red = rng.pick(['mean', 'sum', 'none'])
    c = {'kind': 'loss', 'op': name, 'leaves': leaves, 'args': args, 'red': red, 'malformed': False}
    lines = [gen_dag.leaf_line(lf[0], lf[1], lf[2], lf[3] if len(lf) > 3 else 'f64') for lf in leaves]
    lines.append(' '.join(['t loss', name, red, '0', '1'] + [str(a) for a in args]))
    k = 2 + (0 if red == 'none' else 1)
    c['lines'] = lines + [f't val {k}', f't bw {k} {"_" if red != "none" else "?"} {show_floats([1.5])}'] if red != 'none' else lines + [f't val {k}']
    if red != 'none':
        c['lines'] += ['t grad 0']
    return c


def it(rng, lo=1, hi=3):
    return [rng.randint(lo, hi)] if rng.chance(.5) else [rng.randint(lo, hi), rng.randint(lo, hi)]


def layer_case(rng):
    kind = rng.pick(['conv2d', 'conv1d', 'pool2d', 'pool1d'])
    if kind == 'conv2d':
        k, s, d = it(rng), it(rng, 1, 2), it(rng, 1, 2)
        p = rng.pick(['same', 'same', 'valid', None, None])
        p = p if p else it(rng, 0, 2)
        if p == 'same':      # the whole (kernel, dilation) parity table per axis: d*(k-1) even is honoured, odd is rejected
            k, d = it(rng, 1, 5), it(rng, 1, 4)
            if rng.chance(.8): s = [1]
        H, W = rng.randint(3, 8), rng.randint(3, 8)
        return {'kind': 'layer', 'layer': kind, 'k': k, 's': s, 'p': p, 'd': d, 'H': H, 'W': W,
                'lines': [f"layer conv2d {show_ints(k)} {show_ints(s)} {p if isinstance(p, str) else show_ints(p)} {show_ints(d)} {H} {W}"], 'malformed': False}
    if kind == 'conv1d':
        k, s, d = rng.randint(1, 4), rng.randint(1, 2), rng.randint(1, 2)
        p = rng.pick(['same', 'same', 'valid', None, None])
        p = p if p else rng.randint(0, 2)
        if p == 'same':
            k, d = rng.randint(1, 5), rng.randint(1, 4)
            if rng.chance(.8): s = 1
        Ln = rng.randint(3, 9)
        return {'kind': 'layer', 'layer': kind, 'k': k, 's': s, 'p': p, 'd': d, 'L': Ln,
                'lines': [f'layer conv1d {k} {s} {p} {d} {Ln}'], 'malformed': False}
    if kind == 'pool2d':
        k, d = it(rng), it(rng, 1, 2)
        s = None if rng.chance(.4) else it(rng)
        p = [0] if rng.chance(.5) else [v // 2 for v in (k if len(k) == 2 else k * 2)]
        H, W = rng.randint(3, 8), rng.randint(3, 8)
        return {'kind': 'layer', 'layer': kind, 'k': k, 's': s, 'p': p, 'd': d, 'H': H, 'W': W, 'max': rng.chance(.5),
                'lines': [f"layer pool2d {show_ints(k)} {'-' if s is None else show_ints(s)} {show_ints(p)} {show_ints(d)} {H} {W}"], 'malformed': False}
    k, d = rng.randint(1, 4), rng.randint(1, 2)
    s = None if rng.chance(.4) else rng.randint(1, 3)
    p = rng.randint(0, k // 2)
    Ln = rng.randint(3, 9)
    return {'kind': 'layer', 'layer': kind, 'k': k, 's': s, 'p': p, 'd': d, 'L': Ln, 'max': rng.chance(.5),
            'lines': [f"layer pool1d {k} {'-' if s is None else s} {p} {d} {Ln}"], 'malformed': False}


def cases(rng, tier):
    out = []
    gen_ops.WIDE_LEVELS = True
    per = 10 if tier == 'quick' else 300
    for op in gen_ops.OPS_NN:
        for _ in range(per * (4 if op in ('fold', 'unfold', 'conv2d', 'max_pool2d', 'avg_pool2d') else 1)):     # the 2-d geometry space is the largest
            out.append(op_case(rng, op))
    for _ in range(50 if tier == 'quick' else 1500):
        out.append(loss_case(rng))
    for _ in range(120 if tier == 'quick' else 3000):
        out.append(layer_case(rng))
    for c in out:
        c['desc'] = ' ; '.join(c['lines'])[:600]
    return out


def _arr2(v):
    a = np.broadcast_to(np.asarray(v), 2)
    return f'{int(a[0])},{int(a[1])}'


def _layer_impl(c):
    sg = common.impl()
    from synapgrad import nn
    un = lambda v: v[0] if len(v) == 1 else tuple(v)
    if c['layer'] == 'conv2d':
        p = c['p'] if isinstance(c['p'], str) else un(c['p'])
        l = nn.Conv2d(1, 2, un(c['k']), un(c['s']), p, un(c['d']))
        head = f"k={_arr2(l.kernel_size)} s={_arr2(l.stride)} p={_arr2(l.padding)} d={_arr2(l.dilation)}"
        r = outcome(lambda: l(sg.Tensor(np.zeros((1, 1, c['H'], c['W']), dtype=np.float32))))
        return head + ' out=' + ('rejected' if isinstance(r, str) else f'{r.shape[2]},{r.shape[3]}')
    if c['layer'] == 'conv1d':
        l = nn.Conv1d(1, 2, c['k'], c['s'], c['p'], c['d'])
        head = f"k={l.kernel_size} s={l.stride} p={l.padding} d={l.dilation}"
        r = outcome(lambda: l(sg.Tensor(np.zeros((1, 1, c['L']), dtype=np.float32))))
        return head + ' out=' + ('rejected' if isinstance(r, str) else f'{r.shape[2]}')
    if c['layer'] == 'pool2d':
        cls = nn.MaxPool2d if c['max'] else nn.AvgPool2d
        l = cls(un(c['k']), None if c['s'] is None else un(c['s']), un(c['p']), un(c['d']))
        head = f"k={_arr2(l.kernel_size)} s={_arr2(l.stride)} p={_arr2(l.padding)} d={_arr2(l.dilation)}"
        r = outcome(lambda: l(sg.Tensor(np.zeros((1, 1, c['H'], c['W']), dtype=np.float32))))
        return head + ' out=' + ('rejected' if isinstance(r, str) else f'{r.shape[2]},{r.shape[3]}')
    cls = nn.MaxPool1d if c['max'] else nn.AvgPool1d
    l = cls(c['k'], c['s'], c['p'], c['d'])
    head = f"k={l.kernel_size} s={l.stride} p={l.padding} d={l.dilation}"
    r = outcome(lambda: l(sg.Tensor(np.zeros((1, 1, c['L']), dtype=np.float32))))
    return head + ' out=' + ('rejected' if isinstance(r, str) else f'{r.shape[2]}')


def impl(c):
    if c['kind'] == 'layer':
        return [outcome(lambda: _layer_impl(c))]
    io = tprog.run_program(c['lines'])
    return io


def compare(c, mo, io):
    if c['kind'] == 'layer':
        return [(c['lines'][0], m, i) for m, i in zip(mo, io) if m != i]
    if c['kind'] == 'loss':
        # the upstream gradient shape of the reduced loss is 0-d: the line was written with `_`
        pass
    return tprog.diff_program(c['lines'], mo, io)


def nontrivial(c):
    return not c['malformed']


def distribution(cases):
    d = {}
    for c in cases:
        k = c['kind'] + ':' + str(c.get('op', c.get('layer')))
        d[k] = d.get(k, 0) + 1
    return d


# ---- oracle: torch.nn.functional on the same arguments ---------------------------------------------
def _torch_ref(c):
    import torch
    import torch.nn.functional as F
    t = [torch.tensor(np.array(lf[1], dtype=np.float64).reshape(lf[0])) for lf in c['leaves']]
    op, a = c['op'], [str(x) for x in c['args']]
    pair = lambda s: tuple(common.parse_ints(s))
    if op == 'relu': return F.relu(t[0])
    if op == 'leaky_relu': return F.leaky_relu(t[0], common.bitsf(a[0]))
    if op == 'selu': return F.selu(t[0])
    if op == 'tanh': return torch.tanh(t[0])
    if op == 'sigmoid': return torch.sigmoid(t[0])
    if op == 'softmax': return F.softmax(t[0], int(a[0]))
    if op == 'log_softmax': return F.log_softmax(t[0], int(a[0]))
    if op == 'mse_loss': return F.mse_loss(t[0], t[1], reduction='none')
    if op == 'nll_loss': return F.nll_loss(t[0], t[1].long(), reduction='none')
    if op == 'cross_entropy': return F.cross_entropy(t[0], t[1].long(), reduction='none')
    if op == 'binary_cross_entropy': return F.binary_cross_entropy(t[0], t[1], reduction='none')
    if op == 'binary_cross_entropy_with_logits': return F.binary_cross_entropy_with_logits(t[0], t[1], reduction='none')
    if op == 'linear': return F.linear(t[0], t[1], t[2] if len(t) > 2 else None)
    if op == 'conv1d': return F.conv1d(t[0], t[1], t[2] if len(t) > 2 else None, int(a[1]), int(a[2]), int(a[3]))
    if op == 'conv2d': return F.conv2d(t[0], t[1], t[2] if len(t) > 2 else None, pair(a[1]), pair(a[2]), pair(a[3]))
    if op == 'max_pool1d': return F.max_pool1d(t[0], int(a[0]), int(a[1]), int(a[2]), int(a[3]))
    if op == 'avg_pool1d':
        if int(a[3]) != 1: return None
        return F.avg_pool1d(t[0], int(a[0]), int(a[1]), int(a[2]))
    if op == 'max_pool2d': return F.max_pool2d(t[0], pair(a[0]), pair(a[1]), pair(a[2]), pair(a[3]))
    if op == 'avg_pool2d':
        if pair(a[3]) != (1, 1): return None
        return F.avg_pool2d(t[0], pair(a[0]), pair(a[1]), pair(a[2]))
    if op == 'unfold':
        if common.bitsf(a[4]) != 0.0: return None
        return F.unfold(t[0], pair(a[0]), pair(a[1]), pair(a[3]), pair(a[2]))
    if op == 'fold': return F.fold(t[0], pair(a[0]), pair(a[1]), pair(a[2]), pair(a[4]), pair(a[3]))
    if op == 'batch_norm':
        hw, hb, tr = bool(int(a[0])), bool(int(a[1])), bool(int(a[2]))
        w = t[1] if hw else None
        b = (t[2] if hw else t[1]) if hb else None
        rm = None if a[4] == '-' else torch.tensor(common.parse_floats(a[4]))
        rv = None if a[5] == '-' else torch.tensor(common.parse_floats(a[5]))
        return F.batch_norm(t[0], rm, rv, w, b, tr or rm is None, 0.1, common.bitsf(a[3]))
    raise KeyError(op)


def oracle(c):
    if c['kind'] == 'layer':
        r = outcome(lambda: _layer_impl(c))
        # PyTorch rules, recomputed
        def bc(v): return (v[0], v[0]) if len(v) == 1 else tuple(v)
        def out(L, k, s, p, d):
            n = L + 2 * p - d * (k - 1) - 1
            return n // s + 1 if n >= 0 else None
        if c['layer'] in ('conv2d', 'pool2d'):
            k, d = bc(c['k']), bc(c['d'])
            s = bc(c['s']) if c['s'] is not None else k
            if c['p'] == 'same':
                if s != (1, 1) or any((dd * (kk - 1)) % 2 for kk, dd in zip(k, d)): want = 'rejected'
                else: p = tuple(dd * (kk - 1) // 2 for kk, dd in zip(k, d)); want = None
            elif c['p'] == 'valid': p = (0, 0); want = None
            else: p = bc(c['p']); want = None
            if want is None:
                o = [out(c['H'], k[0], s[0], p[0], d[0]), out(c['W'], k[1], s[1], p[1], d[1])]
                want = f"k={k[0]},{k[1]} s={s[0]},{s[1]} p={p[0]},{p[1]} d={d[0]},{d[1]} out=" + ('rejected' if None in o or 0 in o else f'{o[0]},{o[1]}')
        else:
            k, d = c['k'], c['d']
            s = c['s'] if c['s'] is not None else k
            want = None
            if c['p'] == 'same':
                if s != 1 or (d * (k - 1)) % 2: want = 'rejected'
                else: p = d * (k - 1) // 2
            elif c['p'] == 'valid': p = 0
            else: p = c['p']
            if want is None:
                o = out(c['L'], k, s, p, d)
                want = f"k={k} s={s} p={p} d={d} out=" + ('rejected' if not o else str(o))
        if r != want:
            return {'key': {'kind': 'layer', 'layer': c['layer'], 'pad': c['p'] if isinstance(c['p'], str) else 'num'}, 'case': c,
                    'what': f"{c['layer']} built from k={c['k']} s={c['s']} p={c['p']} d={c['d']} reports {r}; the documented rule gives {want}"}
        return None
    if c['kind'] == 'loss':
        return None
    io = tprog.run_program(c['lines'])
    nl = len(c['leaves'])
    cc = {k: v for k, v in c.items() if k in ('kind', 'op', 'leaves', 'args', 'malformed')}
    key = {'op': c['op']}
    try:
        ref = _torch_ref(c)
        ok = True
    except Exception as e:
        ref, ok = None, False
    if io[nl] == 'rejected':
        if ok and ref is not None and not c['malformed'] and ref.numel() > 0:
            return {'key': dict(key, cls='spurious-rejection'), 'case': cc, 'what': f"{c['op']}{c['args']} raised; torch accepts the configuration"}
        return None
    if ref is None:
        return None
    got = tprog.parse_arr(io[nl + 1])
    r = ref.numpy()
    if c['op'] == 'binary_cross_entropy':
        return None if np.allclose(got, r, rtol=1e-6, atol=1e-8) else {'key': dict(key, cls='value'), 'case': cc, 'what': 'bce differs from torch beyond its epsilon guard'}
    if got.shape != r.shape or not np.allclose(got, r, rtol=1e-8, atol=1e-10, equal_nan=True):
        return {'key': dict(key, cls='value'), 'case': cc, 'what': f"{c['op']}{c['args']}: {got.tolist()} (shape {got.shape}) vs torch {r.tolist()} (shape {r.shape})"}
    return None


def search(rng, tier):
    for c in cases(rng, 'quick'):
        f = oracle(c)
        if f: yield f


def _fix(c):
    if 'leaves' in c: c['leaves'] = [tuple([tuple(lf[0])] + list(lf[1:])) for lf in c['leaves']]
    return c
def matches_known(k, fail): return k.get('key') == fail.get('key')
def rerun_known(k): return oracle(_fix(k['witness'])) is not None
def replay(fail):
    f = oracle(_fix(fail['case']))
    return {'fails': f is not None, 'now': f}
