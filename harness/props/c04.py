"""C04 — accumulation of leaf gradients across any history of backward calls"""
import numpy as np
import common
from common import show_floats, show_ints, outcome
import tprog, gen_dag
tprog.ENTRIES = True        # function / Tensor method / operator / augmented operator statement, varying from call to call

PROP = 'C04'
LEAN_TARGETS = ['Props.C04']
REQUIRED_THEOREMS = ['Props.C04.leaf_gradients_accumulate', 'Props.C04.no_leftover_leak', 'Props.C04.unreachable_untouched',
                     'Props.C04.traversal_zeroes_nonleaf_operands']
REQUIRED_THEOREMS += ['Props.C04.' + t for t in ['src_zero_check_is_model', 'src_zero_cond_is_model', 'src_root_accumulates_is_model', 'src_release_cond_is_model']]   # ties to the source read on this run
RULE = ('histories over 2-3 shared leaves: build ops (re-using any earlier result), backward from ANY tensor (earlier roots and '
        'interior nodes included, repeated), retain_grad on interior nodes, retain_grads contexts, zeroing of leaves; after every '
        'event the gradient (or its absence) of every tensor is compared with the model. Non-trivial: >= 2 backward calls from '
        'different roots sharing a leaf, with a non-leaf reached again after holding a gradient. '
        'MODULE-TREE histories: the leaves are nn.Parameter objects held by a tree of modules (depth 3-4, shared parameters, '
        'Sequential containers) that is RESTRUCTURED between sweeps — a parameter or a whole sub-module of a NESTED node replaced by '
        'assignment / register_*, removed (None / plain value), added, an existing sub-tree re-attached elsewhere — after its '
        'ancestors were listed / counted / printed / zeroed / handed to an optimizer; resets go through Module.zero_grad of any node '
        'and through Optimizer.zero_grad of optimizers built from node.parameters() at any earlier moment; the model sees the tree '
        'as C12 protocol lines (Synap.Modules: parameters() compared after every change) and the reset as the zeroing of exactly '
        'the parameters reachable at that moment (for an optimizer: at its construction) that require grad. '
        'EVERY OP of the catalogue (tensor ops and nn ops, the list-valued concat / stack / unbind among them; builder and oracle of C03) as a '
        'node that SEVERAL backward calls traverse: the same root twice, a root and then a composite root containing it (l1, then l1 + l2) '
        'in either order, an output of the op itself as root (non-uniform upstream gradient) before / between / after the final roots, '
        '2-7 calls, the leaves zeroed in between (Tensor.zero_ / Module.zero_grad / Optimizer.zero_grad) or left to accumulate; after every '
        'call every leaf gradient is compared with the model and — by the oracle — with the accumulated chain-rule value (finite differences). '
        'LAYER-OBJECT histories: several forward passes through the SAME layer objects and the same leaves (Dropout / BatchNorm objects with dictated '
        'draws / statistics, two training calls of one Dropout object every third time; one object of any layer / activation / pooling / loss class '
        'called 2-4 times on same-shape / other-shape inputs in train / eval mode) are BUILT FIRST and differentiated LATER: backward from the result '
        'of any single pass or from the total, at any moment after its root exists (between further forward passes or after all of them), in any '
        'order, resets in between; after every event every gradient is compared with the model (each call = the function it computed) and — by the '
        'oracle — with the sum of the per-call gradients of the same graph rebuilt through the functions.')
EXHAUSTIVE = {'quick': False, 'thorough': False}
ASSUMPTIONS = ['float64 programs']
TRUSTED_BASE = ['harness/tprog.py, harness/gen_dag.py', 'harness/props/c03.py: shared_case / hist_oracle (histories through every op of the catalogue)', 'harness/props/c04.py: TreeModel (which leaves a reset of a module tree must reach: walk over attributes)']
TRUSTED_BASE = TRUSTED_BASE + ['harness/engine_logic.py (reading of the conditions, context transitions, loop skeletons and class method surfaces of tensor.py / nn/modules.py, Generated/EngineLogic.lean; the Boolean translation is validated on every run by the `logic` family of C07)']
tprog.RESET_ROUTES = True
ALLOW = ['add', 'mul', 'neg', 'sum', 'clone', 'self2', 'reshape', 'slice', 'unbind', 'stack', 'pow', 'mean',
         'concat', 'matmul', 'transpose', 'movedim', 'flatten', 'squeeze', 'unsqueeze',       # (the rest of the generator's tensor-op catalogue)
         # nn ops that save something at forward time for their backward (probabilities, masks): a second sweep through the same node must find it intact
         'relu', 'tanh', 'sigmoid', 'softmax', 'log_softmax', 'cross_entropy', 'cross_entropy']


def gen_history(rng, tier, focus=False):
    """focus: histories dense in resets and in non-finite upstream gradients (an overflowed micro-batch followed by a reset)"""
    P = gen_dag.Prog()
    shapes = [(3,), (2,), (2, 2), (), (2, 3)]
    for _ in range(rng.randint(2, 3)):
        sh = rng.pick(shapes)
        P.add_leaf(sh, gen_dag.rand_data(rng, sh), rng.chance(.85))
    if rng.chance(.6):     # logits and their labels, for the losses
        P.add_leaf((2, 3), gen_dag.rand_data(rng, (2, 3)), True)
        P.add_leaf((2,), [float(rng.randrange(2)) for _ in range(2)], False, 'i64')
    flag = {}
    evs = []          # ('setrg', leaf, 0|1) | ('op', node index) | ('bw', tid, g) | ('retain', tid) | ('zero', tid) | ('ctx', 'enter'|'exit')
    nev = rng.randint(4, 14 if tier == 'quick' else 60)
    in_ctx = False
    nbw = 0
    while len(evs) < nev:
        r = rng.random()
        nt = len(P.tshape)
        if r < 0.45 or nt < 4:
            before = len(P.nodes)
            gen_dag.gen_op(rng, P, ALLOW)
            if len(P.nodes) > before:
                evs.append(('op', len(P.nodes) - 1))
        elif r < (0.65 if focus else 0.75):
            t = rng.randrange(nt)
            if rng.chance(.12):     # a call rejected after its traversal: the upstream gradient has the wrong shape
                bad = tuple(P.tshape[t]) + (2,)
                evs.append(('bw', t, gen_dag.rand_data(rng, bad, -2, 2), bad))
            else:
                g = gen_dag.rand_data(rng, P.tshape[t], -2, 2)
                if rng.chance(.5 if focus else .2):      # an overflowed / undefined entry in the upstream gradient: a reset must still clear it
                    g[rng.randrange(len(g))] = rng.pick([float('inf'), float('-inf'), float('nan')])
                evs.append(('bw', t, g)); nbw += 1
        elif r < (0.68 if focus else 0.83):
            evs.append(('retain', rng.randrange(nt)))
        elif r < (0.97 if focus else 0.93):
            leaves = [n['outs'][0] for n in P.nodes if n['kind'] == 'leaf' and n.get('dt', 'f64') == 'f64']
            if rng.chance(.3):      # freeze / unfreeze a leaf (the optimizer and module that reset it were built when it was created)
                l = rng.pick(leaves)
                flag[l] = not flag.get(l, P.nodes[P.owner[l]]['rg'])
                evs.append(('setrg', l, int(flag[l])))
            else:
                evs.append(('zero', rng.pick(leaves)))
        else:
            evs.append(('ctx', 'exit' if in_ctx else 'enter')); in_ctx = not in_ctx
    if in_ctx:
        evs.append(('ctx', 'exit'))
    return P, evs, nbw


def gen_repeat(rng, k):
    """one node of an op that saves something at forward time (probabilities, masks, outputs), swept several times with
    different upstream gradients, re-used inside a later graph, with resets in between"""
    P = gen_dag.Prog()
    x = P.add_leaf((2, 3), gen_dag.rand_data(rng, (2, 3)), True)
    w = P.add_leaf((2, 3), gen_dag.rand_data(rng, (2, 3)), rng.chance(.7))
    lab = P.add_leaf((2,), [float(rng.randrange(3)) for _ in range(2)], False, 'i64')
    name = ['cross_entropy', 'softmax', 'log_softmax', 'relu', 'sigmoid', 'tanh'][k % 6]
    a = P.add_op('mul', [x, w], [], [(2, 3)])[0]
    if name == 'cross_entropy':
        b = P.add_op(name, [a, lab], [show_ints([int(v) for v in P.nodes[P.owner[lab]]['data']])], [(2,)])[0]
    elif name in ('softmax', 'log_softmax'):
        b = P.add_op(name, [a], [rng.pick([0, 1, -1])], [(2, 3)])[0]
    else:
        b = P.add_op(name, [a], [], [(2, 3)])[0]
    sb = P.tshape[b]
    l1 = P.add_op('sum', [b], ['all', 0], [()])[0]
    c2 = P.add_op('mul', [b, b], [], [sb])[0]
    l2 = P.add_op('mean', [c2], ['all', 0], [()])[0]
    g = lambda sh: gen_dag.rand_data(rng, sh, -2, 2)
    ops = lambda *ns: [('op', P.owner[n]) for n in ns]
    evs = ops(a, b, l1) + [('bw', l1, g(())), ('bw', l1, g(()))] + ([('zero', x)] if rng.chance(.5) else []) + [('bw', b, g(sb))] + \
          ops(c2, l2) + [('bw', l2, g(())), ('bw', l1, g(())), ('zero', x), ('bw', l2, g(()))]
    return P, evs, 6


def gen_frozen_at_birth(rng):
    """a leaf that does not require grad when it (and the optimizer / module that will reset it) is created, is unfrozen later,
    accumulates, and is reset three times in a row — once through each route — with a backward call after every reset"""
    P = gen_dag.Prog()
    x = P.add_leaf((2,), gen_dag.rand_data(rng, (2,)), False)
    y = P.add_leaf((2,), gen_dag.rand_data(rng, (2,)), True)
    evs = [('setrg', x, 1)]
    a = P.add_op('mul', [x, y], [], [(2,)])[0]; l = P.add_op('sum', [a], ['all', 0], [()])[0]
    evs += [('op', P.owner[a]), ('op', P.owner[l]), ('bw', l, gen_dag.rand_data(rng, (), -2, 2))]
    for _ in range(3):
        evs += [('zero', x), ('bw', l, gen_dag.rand_data(rng, (), -2, 2)), ('zero', y), ('bw', a, gen_dag.rand_data(rng, (2,), -2, 2))]
    if rng.chance(.5):
        evs += [('setrg', y, 0), ('zero', x), ('bw', l, gen_dag.rand_data(rng, (), -2, 2)), ('setrg', y, 1), ('zero', y), ('bw', l, gen_dag.rand_data(rng, (), -2, 2))]
    return P, evs, 8


class TreeModel:
    """what the generator knows about the module tree: per module the attribute names bound to a parameter (= leaf id) or a module"""
    def __init__(self):
        self.mods = []

    def new(self):
        self.mods.append({}); return len(self.mods) - 1

    def set(self, m, name, v):
        self.mods[m].pop(name, None)
        if v is not None: self.mods[m][name] = v

    def reg(self, m, name, v):          # register_*: an existing entry of the same kind keeps its place
        if name in self.mods[m] and self.mods[m][name][0] == v[0]: self.mods[m][name] = v
        else: self.set(m, name, v)

    def below(self, m):
        seen, todo = [], [m]
        while todo:
            k = todo.pop()
            if k in seen: continue
            seen.append(k)
            todo += [v[1] for v in self.mods[k].values() if v[0] == 'm']
        return seen

    def reach(self, m):
        """leaves reachable from module m (each once)"""
        return sorted({v[1] for k in self.below(m) for v in self.mods[k].values() if v[0] == 'p'})

    def depth(self, root):
        d, todo = {root: 0}, [root]
        while todo:
            k = todo.pop(0)
            for v in self.mods[k].values():
                if v[0] == 'm' and v[1] not in d:
                    d[v[1]] = d[k] + 1; todo.append(v[1])
        return d


LINKS, PNAMES = ['sub', 'fc', 'block'], ['w', 'b', 'v', '_g']


class TreeGen:
    """events of a module-tree history (shared by the random and the scripted family)"""
    def __init__(self, rng, P, leaves, flag):
        self.rng, self.P, self.leaves, self.flag = rng, P, leaves, flag
        self.T, self.evs, self.opts, self.root = TreeModel(), [], [], 0
        self.stats = {}

    def tree(self, line):
        self.evs.append(('tree', line))

    def build(self, d):
        rng, T = self.rng, self.T
        for m in range(d):
            T.new(); self.tree('mod new')
            if m:
                name = rng.pick(LINKS); T.set(m, name, ('m', m - 1)); self.tree(f'mod set {m} {name} m{m - 1}')
        self.root = d - 1
        for l in self.leaves:
            for _ in range(2 if rng.chance(.15) else 1):        # now and then the same parameter under two owners
                if rng.chance(.85):
                    m = rng.randrange(d); name = rng.pick(PNAMES)
                    T.set(m, name, ('p', l)); self.tree(f'mod set {m} {name} p{l}')

    def pick_nested(self):
        """a module, three times out of four one that lies at depth >= 1 below the root (half of those at depth >= 2)"""
        dp = self.T.depth(self.root)
        deep = [m for m, k in dp.items() if k >= 2]; mid = [m for m, k in dp.items() if k >= 1]
        r = self.rng.random()
        if deep and r < .45: return self.rng.pick(deep), True
        if mid and r < .8: return self.rng.pick(mid), False
        return self.rng.randrange(len(self.T.mods)), False

    def mutate(self, m=None):
        rng, T = self.rng, self.T
        if m is None: m, deep = self.pick_nested()
        else: deep = self.T.depth(self.root).get(m, 0) >= 2
        names = list(T.mods[m])
        pn = [n for n in names if T.mods[m][n][0] == 'p']; mn = [n for n in names if T.mods[m][n][0] == 'm']
        r = rng.random()
        if r < .3:            # a parameter replaced (same name) or added (new name), by assignment or register_parameter
            name = rng.pick(pn) if pn and rng.chance(.7) else rng.pick(PNAMES + LINKS)
            l = rng.pick(self.leaves)
            if rng.chance(.7): T.set(m, name, ('p', l)); self.tree(f'mod set {m} {name} p{l}')
            else: T.reg(m, name, ('p', l)); self.tree(f'mod regp {m} {name} {l}')
            kind = 'parameter replaced / added'
        elif r < .55:         # a FRESH sub-module (holding a parameter of its own) in place of an old one, or added
            k = T.new(); self.tree('mod new')
            l = rng.pick(self.leaves); T.set(k, 'w', ('p', l)); self.tree(f'mod set {k} w p{l}')
            name = rng.pick(mn) if mn and rng.chance(.7) else rng.pick(LINKS + PNAMES)
            if rng.chance(.7): T.set(m, name, ('m', k)); self.tree(f'mod set {m} {name} m{k}')
            else: T.reg(m, name, ('m', k)); self.tree(f'mod regm {m} {name} {k}')
            kind = 'fresh sub-module replaced / added'
        elif r < .68:         # an EXISTING module (with whatever hangs below it) attached here as well / instead
            cands = [k for k in range(len(T.mods)) if m not in T.below(k)]
            if not cands: return self.mutate(m)
            k = rng.pick(cands)
            name = rng.pick(mn) if mn and rng.chance(.5) else rng.pick(LINKS)
            T.set(m, name, ('m', k)); self.tree(f'mod set {m} {name} m{k}')
            kind = 'existing sub-tree attached'
        elif r < .9 and names:  # removal
            name = rng.pick(names)
            T.set(m, name, None); self.tree(f'mod set {m} {name} {rng.pick(["none", "other"])}')
            kind = 'attribute removed'
        else:                 # a Sequential container over existing modules, attached here
            cands = [k for k in range(len(T.mods)) if m not in T.below(k)]
            if not cands: return self.mutate(m)
            ks = [rng.pick(cands) for _ in range(rng.randint(1, 3))]
            q = T.new(); self.tree(f'mod seq {show_ints(ks)}')
            for i, k in enumerate(ks): T.reg(q, str(i), ('m', k))
            name = rng.pick(mn) if mn and rng.chance(.5) else rng.pick(LINKS)
            T.set(m, name, ('m', q)); self.tree(f'mod set {m} {name} m{q}')
            kind = 'Sequential container attached'
        self.count(kind + (' at depth >= 2' if deep else ''))

    def count(self, k):
        self.stats[k] = self.stats.get(k, 0) + 1

    def touch(self, m=None):
        """something that evaluates parameters() of a node once: the listing itself, num_params(), repr(), the construction of an
        optimizer over it, a reset"""
        rng, T = self.rng, self.T
        if m is None: m = self.root if rng.chance(.4) else rng.randrange(len(T.mods))
        r = rng.random()
        if r < .3: self.tree(f'mod params {m}')
        elif r < .45: self.tree(f't tree touch {m} num')
        elif r < .6: self.tree(f't tree touch {m} repr')
        elif r < .8 and T.reach(m):
            self.tree(f't tree opt {m}'); self.opts.append(T.reach(m))
        else: self.reset(m)

    def reset(self, m=None, route=None):
        rng, T = self.rng, self.T
        if route is None: route = 'o' if self.opts and rng.chance(.3) else 'm'
        if route == 'o' and self.opts:
            o = rng.randrange(len(self.opts))
            self.evs.append(('ozero', o, [l for l in self.opts[o] if self.flag[l]])); self.count('reset: Optimizer.zero_grad of an optimizer built over node.parameters()')
        else:
            if m is None: m = self.root if rng.chance(.5) else rng.randrange(len(T.mods))
            self.evs.append(('mzero', m, [l for l in T.reach(m) if self.flag[l]])); self.count('reset: Module.zero_grad of a tree node')


def _tree_leaves(rng, P, n):
    shapes = [(3,), (2,), (2, 2), (), (2,)]
    flag = {}
    for _ in range(n):
        sh = rng.pick(shapes)
        l = P.add_leaf(sh, gen_dag.rand_data(rng, sh), rng.chance(.85)); flag[l] = P.nodes[P.owner[l]]['rg']
    return list(flag), flag


def gen_tree_history(rng, tier):
    """random interleaving of graph building, backward calls, tree restructuring, evaluations of parameters() and resets"""
    P = gen_dag.Prog()
    leaves, flag = _tree_leaves(rng, P, rng.randint(3, 5))
    G = TreeGen(rng, P, leaves, flag)
    G.build(rng.randint(3, 4))
    evs = G.evs
    nev = len(evs) + rng.randint(8, 18 if tier == 'quick' else 60)
    nbw = 0
    while len(evs) < nev:
        r = rng.random()
        nt = len(P.tshape)
        if r < 0.25 or nt < len(leaves) + 2:
            before = len(P.nodes)
            gen_dag.gen_op(rng, P, ALLOW)
            if len(P.nodes) > before: evs.append(('op', len(P.nodes) - 1))
        elif r < 0.5:
            t = rng.randrange(nt)
            evs.append(('bw', t, gen_dag.rand_data(rng, P.tshape[t], -2, 2))); nbw += 1
        elif r < 0.65: G.mutate()
        elif r < 0.77: G.touch()
        elif r < 0.92: G.reset()
        elif r < 0.96:
            l = rng.pick(leaves); flag[l] = not flag[l]; evs.append(('setrg', l, int(flag[l])))
        else:
            evs.append(('zero', rng.pick(leaves)))
    return P, evs, nbw, G.stats


def gen_tree_scripted(rng):
    """the fine-tuning pattern: a loss over ALL leaves; every ancestor evaluated once (each in its own way); something replaced /
    removed / added on a node at depth >= 2; backward; reset at an ancestor; backward — and once more after a second change"""
    P = gen_dag.Prog()
    leaves, flag = _tree_leaves(rng, P, rng.randint(3, 5))
    for l in leaves:            # all trainable: every backward call reaches every leaf
        P.nodes[P.owner[l]]['rg'] = True; flag[l] = True
    G = TreeGen(rng, P, leaves, flag)
    d = rng.randint(3, 4)
    G.build(d)
    evs = G.evs
    total = None
    for l in leaves:
        sq = P.add_op('mul', [l, l], [], [P.tshape[l]])[0]; evs.append(('op', P.owner[sq]))
        s_ = P.add_op('sum', [sq], ['all', 0], [()])[0]; evs.append(('op', P.owner[s_]))
        if total is None: total = s_
        else:
            total = P.add_op('add', [total, s_], [], [()])[0]; evs.append(('op', P.owner[total]))
    nbw = 0
    def bw():
        nonlocal nbw
        evs.append(('bw', total, gen_dag.rand_data(rng, (), -2, 2))); nbw += 1
    if rng.chance(.5): bw()
    for _ in range(rng.randint(1, 2)):
        for m in rng.sample(range(d), rng.randint(1, d)):      # the ancestors (and any other node) evaluated once
            G.touch(m)
        if rng.chance(.3): G.touch(G.root)
        deep = [m for m, k in G.T.depth(G.root).items() if k >= 2] or [0]
        G.mutate(rng.pick(deep))
        bw()
        G.reset(G.root if rng.chance(.7) else None)
        bw()
        if rng.chance(.5):
            G.reset(); bw()
    return P, evs, nbw, G.stats


def gen_layer_history(rng, k=0):
    """graphs BUILT FIRST through the same layer OBJECTS and the same leaves — Dropout / BatchNorm objects with dictated draws / statistics
    (two training calls of one Dropout object every third time), or one object of any layer / activation / pooling / loss class called 2-4
    times (builders and executor of C03) —, differentiated LATER: a backward call from the result of any single forward pass (non-uniform
    upstream gradient) or from the total comes at any moment after its root exists, i.e. between further forward passes through the same
    objects or after all of them, in any order, with resets in between. The per-call reference of the oracle is the same graph rebuilt
    through the FUNCTIONS with the mask / statistics of each call as constants."""
    from props import c03
    c = None
    if k % 3 == 2:
        c = c03.object_case(rng, rng.pick(c03.OBJ_OPS))
    if c is None:
        c = c03.stateful_case(rng, each='do' if k % 3 == 0 else True)
    P0, events = c['P'], c['events']
    # C04 programs create all leaves first: renumber
    P, ren = gen_dag.Prog(), {}
    for want in ('leaf', 'op'):
        for nd in P0.nodes:
            if nd['kind'] != want: continue
            if want == 'leaf':
                ren[nd['outs'][0]] = P.add_leaf(nd['shape'], nd['data'], nd['rg'], nd.get('dt', 'f64'))
            else:
                outs = P.add_op(nd['name'], [ren[i] for i in nd['ins']], nd['args'], [P0.tshape[o] for o in nd['outs']])
                if nd.get('tag'): P.nodes[-1]['tag'] = nd['tag']
                for a, b in zip(nd['outs'], outs): ren[a] = b
    ops = [i for i, nd in enumerate(P.nodes) if nd['kind'] == 'op']
    slots = [[] for _ in range(len(ops) + 1)]
    late = rng.chance(.4)           # every graph is built before the first backward call
    early = 0
    for e in events:
        t = ren[e[1]]
        lo = ops.index(P.owner[t]) + 1 if (e[0] == 'bw' and P.nodes[P.owner[t]]['kind'] == 'op') else 0
        at = len(ops) if (late or rng.chance(.4)) else rng.randint(lo, len(ops))
        early += at < len(ops)
        slots[at].append((e[0], t) + tuple(e[2:]))
    evs = []
    for i in range(len(ops) + 1):
        if i: evs.append(('op', ops[i - 1]))
        if rng.chance(.3): rng.shuffle(slots[i])
        evs += slots[i]
    nbw = sum(1 for e in evs if e[0] == 'bw')
    cc = mk(P, evs, nbw, exec_='stateful')
    cc['layers'] = dict(c.get('reuse') or {}, **{'backward calls between forward passes': early})
    return cc


def to_lines(P, evs, tree=False, pos=None):
    """interleave creation lines and events; after every event (but a tree operation) query all gradients. `pos` (a list) receives per
    event (index of its first line, index of the first gradient query after it or None)"""
    leaf_lines, _ = P.lines([k for k, n in enumerate(P.nodes) if n['kind'] == 'leaf'])
    out = list(leaf_lines)
    if tree:      # every float leaf is an nn.Parameter, known to the module world as p<k> in creation order
        out += [f"mod param {int(np.prod(n['shape'])) if n['shape'] else 1} {int(n['rg'])}" for n in P.nodes if n['kind'] == 'leaf' and n.get('dt', 'f64') == 'f64']
    out += ['t ctx new rg']
    created = sum(len(n['outs']) for n in P.nodes if n['kind'] == 'leaf')
    for e in evs:
        if pos is not None: pos.append([len(out), None])
        if e[0] == 'tree':
            out.append(e[1]); continue
        if e[0] in ('mzero', 'ozero'):
            out.append(f'mod zero {e[1]}' if e[0] == 'mzero' else f't tree ozero {e[1]}')
            out += [f't zero {l}' for l in e[2]]
        elif e[0] == 'op':
            nd = P.nodes[e[1]]
            out.append(' '.join(['t op', nd['name'], show_ints(nd['ins'])] + [str(a) for a in nd['args']] + ([nd['tag']] if nd.get('tag') else [])))
            created += len(nd['outs'])
        elif e[0] == 'bw':
            out.append(f"t bw {e[1]} {show_ints(e[3] if len(e) > 3 else P.tshape[e[1]])} {show_floats(e[2])}")
        elif e[0] == 'retain':
            out.append(f't retain {e[1]}')
        elif e[0] == 'zero':
            out.append(f't zero {e[1]}')
        elif e[0] == 'setrg':
            out.append(f't setrg {e[1]} {e[2]}')
        else:
            out.append(f't ctx {e[1]} 0')
        if pos is not None: pos[-1][1] = len(out)
        out += [f't grad {k}' for k in range(created)]
    return out


def to_model(line):
    """operations on the implementation's module objects that have no counterpart in the models (printing a module, building an optimizer,
    Optimizer.zero_grad — whose effect follows as `t zero` lines) must leave the engine alone: the model answers with its grad modes"""
    if line.startswith('t tree '): return 't modes'
    return ' '.join(tok for tok in line.split(' ') if not tok.startswith('@')) if ' @' in line else line       # (which layer OBJECT a call goes through)


def extract():
    """the decision logic of Tensor.backward is re-read from tensor.py (Generated/EngineLogic.lean); the src_* theorems are re-checked by the build"""
    import engine_logic
    return engine_logic.write()[0]


def cases(rng, tier):
    out = []
    for _ in range(100 if tier == 'quick' else 3000):
        P, evs, nbw = gen_history(rng, tier)
        out.append(mk(P, evs, nbw))
    for _ in range(30 if tier == 'quick' else 600):
        P, evs, nbw = gen_history(rng, tier, focus=True)
        out.append(mk(P, evs, nbw))
    for k in range(12 if tier == 'quick' else 240):
        out.append(mk(*gen_repeat(rng, k)))
    for _ in range(6 if tier == 'quick' else 120):
        out.append(mk(*gen_frozen_at_birth(rng)))
    for k in range(70 if tier == 'quick' else 1500):
        P, evs, nbw, stats = gen_tree_history(rng, tier) if k % 5 < 3 else gen_tree_scripted(rng)
        out.append(mk(P, evs, nbw, tree=True)); out[-1]['stats'] = stats
    # forward passes through the same layer objects first, backward calls later / in between
    for k in range(45 if tier == 'quick' else 1500):
        out.append(gen_layer_history(rng, k))
    for P, evs in corpus():
        out.append(mk(P, evs, 2))
    # every op of the catalogue as a node that several backward calls traverse (histories of C03: same root twice, l1 then l1 + l2,
    # an output of the op as root and then the final root, with / without zeroing in between)
    import gen_ops
    from props import c03
    for op in gen_ops.OPS_BASIC + gen_ops.OPS_NN:
        for k in range((3 if op in ('concat', 'stack', 'unbind') else 2) if tier == 'quick' else 40):
            c = c03.shared_case(rng, op)
            if c:
                c.update({'order': None, 'evs': c['events'], 'nbw': sum(1 for e in c['events'] if e[0] == 'bw'), 'tree': False})
                out.append(c)
    # the caller's upstream-gradient tensor object reused across backward calls (a result and then a result built on top of it, the same
    # root twice; g also an operand / a view): leaf gradients after every call, and the caller's array unchanged (histories of C03)
    for k in range(8 if tier == 'quick' else 200):
        c = c03.upstream_case(rng)
        if c:
            c.update({'order': None, 'evs': c['events'], 'nbw': sum(1 for e in c['events'] if e[0] == 'bw'), 'tree': False})
            out.append(c)
    if tier == 'thorough':
        # EXHAUSTIVE sub-family: a fixed graph  x, w leaves; a = x*w; b = a + x; c = a*b (diamond with fan-out); every history of
        # length <= 4 over {backward from a / b / c / x, retain_grad(a), retain_grad(b), zero x, enter / exit retain_grads}
        import itertools
        def graph():
            P = gen_dag.Prog()
            x = P.add_leaf((2,), [1.0, -2.0], True); w = P.add_leaf((2,), [0.5, 3.0], True)
            a = P.add_op('mul', [x, w], [], [(2,)])[0]; b = P.add_op('add', [a, x], [], [(2,)])[0]; c_ = P.add_op('mul', [a, b], [], [(2,)])[0]
            return P, x, w, a, b, c_
        P0, x, w, a, b, c_ = graph()
        alphabet = [('bw', a, [1.0, 2.0]), ('bw', b, [-1.0, 0.5]), ('bw', c_, [2.0, 1.0]), ('bw', x, [1.0, 1.0]), ('retain', a), ('retain', b), ('zero', x), ('ctx', None),
                    ('bw', c_, [1.0, 2.0, 3.0, 4.0], (2, 2))]       # the last one is rejected after its traversal (wrong gradient shape)
        for n in range(1, 5):
            for word in itertools.product(range(len(alphabet)), repeat=n):
                if not any(alphabet[k][0] == 'bw' for k in word): continue
                P, *_ = graph()
                evs, in_ctx = [('op', 2), ('op', 3), ('op', 4)], False
                for k in word:
                    e = alphabet[k]
                    if e[0] == 'ctx':
                        evs.append(('ctx', 'exit' if in_ctx else 'enter')); in_ctx = not in_ctx
                    else:
                        evs.append(e)
                if in_ctx: evs.append(('ctx', 'exit'))
                cc = mk(P, evs, sum(1 for k in word if alphabet[k][0] == 'bw')); cc['exhaustive'] = True
                out.append(cc)
    return out


def mk(P, evs, nbw, tree=False, exec_=None):
    lines = to_lines(P, evs, tree)
    return {'P': P, 'evs': evs, 'nbw': nbw, 'lines': lines, 'tree': tree, 'exec': exec_, 'desc': ' ; '.join(l for l in lines if not l.startswith('t grad'))[:900]}


def corpus():
    # l1.backward(); (l1+l2).backward()  (left-over root gradient); leaf as root twice; retained interior reached again
    P = gen_dag.Prog(); x = P.add_leaf((3,), [1., 2., 3.], True)
    a = P.add_op('mul', [x, x], [], [(3,)])[0]; l1 = P.add_op('sum', [a], ['all', 0], [()])[0]
    b = P.add_op('pow', [x], [common.fbits(2.0)], [(3,)])[0]; l2 = P.add_op('sum', [b], ['all', 0], [()])[0]
    s = P.add_op('add', [l1, l2], [], [()])[0]
    yield P, [('op', 1), ('op', 2), ('bw', l1, [1.0]), ('op', 3), ('op', 4), ('op', 5), ('bw', s, [1.0]), ('bw', s, [2.0])]
    P = gen_dag.Prog(); x = P.add_leaf((2,), [1., 2.], True)
    yield P, [('bw', x, [1., 1.]), ('bw', x, [1., 3.]), ('zero', x), ('bw', x, [2., 2.])]
    P = gen_dag.Prog(); x = P.add_leaf((2,), [1., 2.], True)
    y = P.add_op('mul', [x, x], [], [(2,)])[0]; z = P.add_op('sum', [y], ['all', 0], [()])[0]; w = P.add_op('mean', [y], ['all', 0], [()])[0]
    yield P, [('op', 1), ('retain', y), ('op', 2), ('bw', z, [1.0]), ('op', 3), ('bw', w, [3.0]), ('bw', y, [1., -1.])]
    # an overflowed gradient (inf / nan entries) followed by a reset through each route in turn (the executor cycles Module.zero_grad,
    # Optimizer.zero_grad, Tensor.zero_ over successive resets of a leaf that is an nn.Parameter) and a finite backward: the reset
    # installs zeros, so the gradient afterwards is the finite one
    inf, nan = float('inf'), float('nan')
    data = next(d for d in ([float(k + i) for i in range(2)] for k in range(1, 60)) if sum(map(ord, common.show_floats(d)[:64])) % 2 == 0)
    P = gen_dag.Prog(); x = P.add_leaf((2,), data, True)
    yield P, [('bw', x, [inf, 1.0]), ('zero', x), ('bw', x, [1., 2.]), ('bw', x, [nan, -inf]), ('zero', x), ('bw', x, [2., 2.]),
              ('bw', x, [inf, inf]), ('zero', x), ('bw', x, [3., 1.])]


class TreeImpl(tprog.Impl):
    """tensor programs whose float leaves are nn.Parameter objects living in a tree of real nn.Module objects: `mod …` lines (the C12
    protocol) act on the tree, `t tree …` lines evaluate / reset it through the public API; the `t zero` lines that follow a tree
    reset say what it has to do and are NOT executed (the tree reset alone must have done it)"""
    def __init__(self):
        super().__init__()
        self.tmods, self.tpars, self.topts, self.fleaves, self.skip = [], [], [], [], 0

    def _modes(self):
        return f'{int(self.tm.gradient__)}{int(self.tm.retain_grads__)}'

    def _reach(self, m, seen, out):
        if id(m) in seen: return out
        seen.add(id(m))
        for v in vars(m).values():
            if isinstance(v, self.nn.Parameter): out[id(v)] = v
            elif isinstance(v, self.nn.Module): self._reach(v, seen, out)
        return out

    def _tree_reset(self, i, lines, obj, params):
        """params: what the reset has to reach (walk over attributes now / the list the optimizer was given)"""
        n = 0
        while i + 1 + n < len(lines) and lines[i + 1 + n].startswith('t zero '): n += 1
        told = sorted(int(l.split(' ')[2]) for l in lines[i + 1: i + 1 + n])
        mine = sorted(k for k, x in enumerate(self.ts) if x is not None and any(x is p for p in params) and x.requires_grad)
        if told != mine: return f'generator-disagrees told={told} reachable={mine}'
        obj.zero_grad()
        self.skip = n
        return None

    def run_at(self, i, lines):
        line = lines[i]
        t = line.split(' ')
        nn = self.nn
        if t[0] == 'mod':
            t = t[1:]
            if t[0] == 'new':
                self.tmods.append(nn.Module()); return f'm{len(self.tmods) - 1}'
            if t[0] == 'param':
                x = self.fleaves[len(self.tpars)]
                assert isinstance(x, nn.Parameter) and x.size == int(t[1])
                self.tpars.append(x); return f'p{len(self.tpars) - 1}'
            if t[0] == 'set':
                v = t[3]
                val = None if v == 'none' else 3.14 if v == 'other' else self.tmods[int(v[1:])] if v[0] == 'm' else self.tpars[int(v[1:])]
                setattr(self.tmods[int(t[1])], t[2], val); return 'ok'
            if t[0] == 'regm':
                self.tmods[int(t[1])].register_module(t[2], self.tmods[int(t[3])]); return 'ok'
            if t[0] == 'regp':
                self.tmods[int(t[1])].register_parameter(t[2], self.tpars[int(t[3])]); return 'ok'
            if t[0] == 'seq':
                self.tmods.append(nn.Sequential(*[self.tmods[k] for k in common.parse_ints(t[1])])); return f'm{len(self.tmods) - 1}'
            m = self.tmods[int(t[1])]
            if t[0] == 'params':
                return show_ints([next(k for k, q in enumerate(self.tpars) if q is p) for p in m.parameters()])
            if t[0] == 'zero':
                return self._tree_reset(i, lines, m, list(self._reach(m, set(), {}).values())) or 'ok'
            return 'bad-op'
        if t[1] == 'tree':
            if t[2] == 'touch':
                m = self.tmods[int(t[3])]
                m.num_params() if t[4] == 'num' else repr(m)
            elif t[2] == 'opt':
                from synapgrad import optim
                ps = self.tmods[int(t[3])].parameters()
                self.topts.append((optim.SGD(ps, lr=0.1) if len(self.topts) % 2 == 0 else optim.Adam(ps), list(ps)))
            elif t[2] == 'ozero':
                o, ps = self.topts[int(t[3])]
                bad = self._tree_reset(i, lines, o, ps)
                if bad: return bad
            return self._modes()
        if t[1] == 'zero' and self.skip > 0:
            self.skip -= 1; return 'ok'
        r = self.run(line)
        if t[1] == 'leaf' and t[2] == 'f64':
            x = self.ts[-1]
            if not isinstance(x, nn.Parameter):        # in a tree history every float leaf is a Parameter
                from synapgrad import optim
                x = nn.Parameter(x.data, requires_grad=x.requires_grad); k = len(self.ts) - 1
                self.ts[k] = x
                self.leaf_opt[k] = optim.SGD([x], lr=0.1)
                mm = nn.Module(); mm.register_parameter('w', x); self.leaf_mod[k] = mm
            self.fleaves.append(x)
        return r


def run_tree(lines):
    im = TreeImpl()
    try:
        return [outcome(lambda: im.run_at(i, lines)) for i in range(len(lines))]
    finally:
        im.close()


def _run(c):
    if c.get('exec'):
        from props import c03
        return tprog.run_program(c['lines'], c03.EXECS[c['exec']])
    return run_tree(c['lines']) if c.get('tree') else tprog.run_program(c['lines'])


def impl(c):
    if c.get('kind') == 'hist':
        from props import c03
        return c03.impl(c)
    return _run(c)


def compare(c, mo, io):
    return tprog.diff_program(c['lines'], mo, io)


def nontrivial(c):
    roots = {e[1] for e in c['evs'] if e[0] == 'bw'}
    return c['nbw'] >= 2 and len(roots) >= 2


def distribution(cases):
    d = {}
    hist = [c for c in cases if c.get('kind') == 'hist']
    if hist:
        from props import c03
        d.update({k: v for k, v in c03.distribution(hist).items() if k.startswith('histor')})
    for c in cases:
        if c.get('exhaustive'):
            k = 'exhaustive: all histories of length <= 4 over 9 events on the diamond graph'
            d[k] = d.get(k, 0) + 1
        for e in c['evs']:
            d[e[0]] = d.get(e[0], 0) + 1
        if c.get('layers'):
            d['layer-object histories: graphs built through the same layer objects first, differentiated later'] = d.get('layer-object histories: graphs built through the same layer objects first, differentiated later', 0) + 1
            for k, v in c['layers'].items():
                if v is True or k == 'kind' or (k == 'backward calls between forward passes' and v):
                    kk = 'layer-object histories/' + (f'kind={v}' if k == 'kind' else k)
                    d[kk] = d.get(kk, 0) + 1
        if c.get('tree'):
            d['module-tree histories'] = d.get('module-tree histories', 0) + 1
            for k, v in c.get('stats', {}).items():
                d['tree: ' + k] = d.get('tree: ' + k, 0) + v
            for e in c['evs']:
                if e[0] == 'tree' and e[1].startswith(('t tree', 'mod params')):
                    k = 'tree: parameters() evaluated through ' + (e[1].split(' ')[4] if 'touch' in e[1] else 'optimizer construction' if 'opt' in e[1] else 'parameters()')
                    d[k] = d.get(k, 0) + 1
    return d


# ---- oracle: every backward call re-run in isolation on a fresh copy; leaf.grad must be the sum ----
def _isolated(P, upto_nodes, root, g):
    """leaf gradients of ONE backward call on a fresh build of the graph (`upto_nodes`: the op nodes built so far and, as
    ('setrg', leaf, v) entries, the flag changes in between — a result records its operands according to the flags at build time)"""
    lines = []
    leaf_lines, _ = P.lines([k for k, n in enumerate(P.nodes) if n['kind'] == 'leaf'])
    lines += leaf_lines
    for k in upto_nodes:
        if isinstance(k, tuple):
            lines.append(f't setrg {k[1]} {k[2]}'); continue
        nd = P.nodes[k]
        lines.append(' '.join(['t op', nd['name'], show_ints(nd['ins'])] + [str(a) for a in nd['args']]))
    leaves = [n['outs'][0] for n in P.nodes if n['kind'] == 'leaf']
    lines.append(f"t bw {root} {show_ints(P.tshape[root])} {show_floats(g)}")
    lines += [f't grad {l}' for l in leaves]
    io = tprog.run_program(lines)
    if io[len(lines) - len(leaves) - 1] == 'rejected':
        return None
    res = {}
    for l, s in zip(leaves, io[-len(leaves):]):
        res[l] = None if s == '-' else tprog.parse_arr(s)
    return res


def oracle(c):
    if c.get('kind') == 'hist':
        from props import c03
        f = c03.oracle(c)
        if f: f['case'] = dict(f['case'], kind='hist')
        return f
    P, evs = c['P'], c['evs']
    leaves = [n['outs'][0] for n in P.nodes if n['kind'] == 'leaf']
    rg = {n['outs'][0]: n['rg'] for n in P.nodes if n['kind'] == 'leaf'}
    epos = []
    lines = to_lines(P, evs, c.get('tree', False), epos)
    io = _run(dict(c, lines=lines))
    if any(x == 'rejected' for x, l in zip(io, lines) if l.startswith('t op')):
        return None
    if any(str(x).startswith('generator-disagrees') for x in io):
        return None          # the harness's own bookkeeping of the tree is off: nothing can be concluded about the property
    expect = {l: None for l in leaves}
    built = []
    created = len(leaves)
    hist = []          # the tree operations so far, for the message
    for ei, e in enumerate(evs):
        first, gpos = epos[ei]
        line_out = io[first]
        if e[0] == 'tree':
            hist.append(e[1]); continue
        if e[0] == 'op':
            built.append(e[1]); created += len(P.nodes[e[1]]['outs'])
        elif e[0] == 'setrg':
            built.append(('setrg', e[1], e[2])); rg[e[1]] = bool(e[2])
        elif e[0] == 'zero':
            expect[e[1]] = np.zeros(P.tshape[e[1]])
        elif e[0] in ('mzero', 'ozero'):
            # Module.zero_grad of a tree node / Optimizer.zero_grad: every parameter the node holds now (the optimizer was given) that requires grad
            for l in e[2]: expect[l] = np.zeros(P.tshape[l])
            hist.append(lines[first])
        elif e[0] == 'bw' and len(e) > 3 and line_out != 'rejected':
            return {'key': {'cls': 'bad-gradient-accepted'}, 'case': _strip(c, ei + 1), 'what': f'backward accepted an upstream gradient of shape {e[3]} for a tensor of shape {P.tshape[e[1]]}'}
        elif e[0] == 'bw' and line_out != 'rejected':
            # nodes needed: all built so far (the isolated run rebuilds the same graph)
            d = _isolated(P, built, e[1], e[2])
            if d is None:
                return {'key': {'cls': 'isolated-run-rejects'}, 'case': _strip(c, ei + 1), 'what': 'backward accepted in the history but rejected on a fresh graph'}
            for l in leaves:
                if d[l] is not None and rg[l]:
                    expect[l] = d[l] if expect[l] is None else expect[l] + d[l]
        grads = io[gpos: gpos + created]
        ctx = f' [module tree so far: {" ; ".join(hist)}]' if hist else ''
        for l in leaves:
            s = grads[l]
            got = None if s == '-' else tprog.parse_arr(s)
            want = expect[l]
            if (got is None) != (want is None) and not (got is not None and want is None and not np.any(got)):
                return {'key': {'cls': 'presence'}, 'case': _strip(c, ei + 1), 'what': f'after event {ei} {e[:2]} leaf t{l} grad is {got}, expected {want}{ctx}'}
            if got is not None and want is not None and not np.array_equal(np.isnan(got), np.isnan(want)):
                return {'key': {'cls': 'sum'}, 'case': _strip(c, ei + 1), 'what': f'after event {ei} {e[:2]} leaf t{l} holds {got.tolist()}, the sum of the per-call gradients since its last reset is {want.tolist()}{ctx}'}
            fin = None if got is None or want is None else np.isfinite(got) & np.isfinite(want)
            if fin is not None and (not np.array_equal(got[~fin & ~np.isnan(got)], want[~fin & ~np.isnan(want)]) or (fin.any() and np.abs(got[fin] - want[fin]).max() > 1e-9 * (1 + np.abs(want[fin]).max()))):
                return {'key': {'cls': 'sum'}, 'case': _strip(c, ei + 1), 'what': f'after event {ei} {e[:2]} leaf t{l} holds {got.tolist()}, the sum of the per-call gradients since its last reset is {want.tolist()}{ctx}'}
    return None


def _strip(c, nev=None):
    return {'nodes': c['P'].nodes, 'tshape': c['P'].tshape, 'evs': c['evs'][:nev] if nev else c['evs'], 'tree': bool(c.get('tree')), 'exec': c.get('exec')}


def _unstrip(d):
    if d.get('kind') == 'hist':
        from props import c03
        c = c03._unstrip(d)
        c.update({'kind': 'hist', 'evs': c['events'], 'nbw': sum(1 for e in c['events'] if e[0] == 'bw'), 'tree': False})
        return c
    P = gen_dag.Prog()
    for nd in d['nodes']:
        if nd['kind'] == 'leaf':
            P.add_leaf(tuple(nd['shape']), nd['data'], nd['rg'])
        else:
            P.add_op(nd['name'], nd['ins'], nd['args'], [tuple(d['tshape'][o]) for o in nd['outs']])
            if nd.get('tag'): P.nodes[-1]['tag'] = nd['tag']
    evs = [tuple(e) for e in d['evs']]
    return mk(P, evs, sum(1 for e in evs if e[0] == 'bw'), tree=bool(d.get('tree')), exec_=d.get('exec'))


def search(rng, tier):
    for k in range(120):
        if k % 4 == 3:
            f = oracle(gen_layer_history(rng, k // 4))
        elif k % 3 == 2:
            P, evs, nbw, _ = gen_tree_history(rng, 'quick') if k % 2 else gen_tree_scripted(rng)
            f = oracle(mk(P, evs, nbw, tree=True))
        else:
            P, evs, nbw = gen_history(rng, 'quick')
            f = oracle(mk(P, evs, nbw))
        if f: yield f
    import gen_ops
    from props import c03
    for op in gen_ops.OPS_BASIC + gen_ops.OPS_NN:
        for _ in range(2):
            c = c03.shared_case(rng, op)
            f = c and c03.oracle(c)
            if f:
                f['case'] = dict(f['case'], kind='hist')
                yield f


def matches_known(k, fail): return k.get('key') == fail.get('key')
def rerun_known(k): return oracle(_unstrip(k['witness'])) is not None
def replay(fail):
    f = oracle(_unstrip(fail['case']))
    return {'fails': f is not None, 'now': f}
