"""C04 — accumulation of leaf gradients across any history of backward calls"""
import numpy as np
import common
from common import show_floats, show_ints
import tprog, gen_dag
tprog.ENTRIES = True        # function / Tensor method / operator / augmented operator statement, varying from call to call

PROP = 'C04'
LEAN_TARGETS = ['Props.C04']
REQUIRED_THEOREMS = ['Props.C04.leaf_gradients_accumulate', 'Props.C04.no_leftover_leak', 'Props.C04.unreachable_untouched',
                     'Props.C04.traversal_zeroes_nonleaf_operands']
RULE = ('histories over 2-3 shared leaves: build ops (re-using any earlier result), backward from ANY tensor (earlier roots and '
        'interior nodes included, repeated), retain_grad on interior nodes, retain_grads contexts, zeroing of leaves; after every '
        'event the gradient (or its absence) of every tensor is compared with the model. Non-trivial: >= 2 backward calls from '
        'different roots sharing a leaf, with a non-leaf reached again after holding a gradient.')
EXHAUSTIVE = {'quick': False, 'thorough': False}
ASSUMPTIONS = ['float64 programs']
TRUSTED_BASE = ['harness/tprog.py, harness/gen_dag.py']
tprog.RESET_ROUTES = True
ALLOW = ['add', 'mul', 'neg', 'sum', 'clone', 'self2', 'reshape', 'slice', 'unbind', 'stack', 'pow', 'mean',
         # nn ops that save something at forward time for their backward (probabilities, masks): a second sweep through the same node must find it intact
         'relu', 'tanh', 'sigmoid', 'softmax', 'log_softmax', 'cross_entropy', 'cross_entropy']


def gen_history(rng, tier, focus=False):
    """focus: histories dense in resets and in non-finite upstream gradients (an overflowed micro-batch followed by a reset)"""
    P = gen_dag.Prog()
    shapes = [(3,), (2,), (2, 2), (), (2, 3)]
    for _ in range(rng.randint(2, 3)):
        sh = rng.pick(shapes)
        P.add_leaf(sh, gen_dag.rand_data(rng, sh), rng.chance(.85))
    if rng.chance(.6):     # logits and their labels, for the losses
        P.add_leaf((2, 3), gen_dag.rand_data(rng, (2, 3)), True)
        P.add_leaf((2,), [float(rng.randrange(2)) for _ in range(2)], False, 'i64')
    flag = {}
    evs = []          # ('setrg', leaf, 0|1) | ('op', node index) | ('bw', tid, g) | ('retain', tid) | ('zero', tid) | ('ctx', 'enter'|'exit')
    nev = rng.randint(4, 14 if tier == 'quick' else 60)
    in_ctx = False
    nbw = 0
    while len(evs) < nev:
        r = rng.random()
        nt = len(P.tshape)
        if r < 0.45 or nt < 4:
            before = len(P.nodes)
            gen_dag.gen_op(rng, P, ALLOW)
            if len(P.nodes) > before:
                evs.append(('op', len(P.nodes) - 1))
        elif r < (0.65 if focus else 0.75):
            t = rng.randrange(nt)
            if rng.chance(.12):     # a call rejected after its traversal: the upstream gradient has the wrong shape
                bad = tuple(P.tshape[t]) + (2,)
                evs.append(('bw', t, gen_dag.rand_data(rng, bad, -2, 2), bad))
            else:
                g = gen_dag.rand_data(rng, P.tshape[t], -2, 2)
                if rng.chance(.5 if focus else .2):      # an overflowed / undefined entry in the upstream gradient: a reset must still clear it
                    g[rng.randrange(len(g))] = rng.pick([float('inf'), float('-inf'), float('nan')])
                evs.append(('bw', t, g)); nbw += 1
        elif r < (0.68 if focus else 0.83):
            evs.append(('retain', rng.randrange(nt)))
        elif r < (0.97 if focus else 0.93):
            leaves = [n['outs'][0] for n in P.nodes if n['kind'] == 'leaf' and n.get('dt', 'f64') == 'f64']
            if rng.chance(.3):      # freeze / unfreeze a leaf (the optimizer and module that reset it were built when it was created)
                l = rng.pick(leaves)
                flag[l] = not flag.get(l, P.nodes[P.owner[l]]['rg'])
                evs.append(('setrg', l, int(flag[l])))
            else:
                evs.append(('zero', rng.pick(leaves)))
        else:
            evs.append(('ctx', 'exit' if in_ctx else 'enter')); in_ctx = not in_ctx
    if in_ctx:
        evs.append(('ctx', 'exit'))
    return P, evs, nbw


def gen_repeat(rng, k):
    """one node of an op that saves something at forward time (probabilities, masks, outputs), swept several times with
    different upstream gradients, re-used inside a later graph, with resets in between"""
    P = gen_dag.Prog()
    x = P.add_leaf((2, 3), gen_dag.rand_data(rng, (2, 3)), True)
    w = P.add_leaf((2, 3), gen_dag.rand_data(rng, (2, 3)), rng.chance(.7))
    lab = P.add_leaf((2,), [float(rng.randrange(3)) for _ in range(2)], False, 'i64')
    name = ['cross_entropy', 'softmax', 'log_softmax', 'relu', 'sigmoid', 'tanh'][k % 6]
    a = P.add_op('mul', [x, w], [], [(2, 3)])[0]
    if name == 'cross_entropy':
        b = P.add_op(name, [a, lab], [show_ints([int(v) for v in P.nodes[P.owner[lab]]['data']])], [(2,)])[0]
    elif name in ('softmax', 'log_softmax'):
        b = P.add_op(name, [a], [rng.pick([0, 1, -1])], [(2, 3)])[0]
    else:
        b = P.add_op(name, [a], [], [(2, 3)])[0]
    sb = P.tshape[b]
    l1 = P.add_op('sum', [b], ['all', 0], [()])[0]
    c2 = P.add_op('mul', [b, b], [], [sb])[0]
    l2 = P.add_op('mean', [c2], ['all', 0], [()])[0]
    g = lambda sh: gen_dag.rand_data(rng, sh, -2, 2)
    ops = lambda *ns: [('op', P.owner[n]) for n in ns]
    evs = ops(a, b, l1) + [('bw', l1, g(())), ('bw', l1, g(()))] + ([('zero', x)] if rng.chance(.5) else []) + [('bw', b, g(sb))] + \
          ops(c2, l2) + [('bw', l2, g(())), ('bw', l1, g(())), ('zero', x), ('bw', l2, g(()))]
    return P, evs, 6


def gen_frozen_at_birth(rng):
    """a leaf that does not require grad when it (and the optimizer / module that will reset it) is created, is unfrozen later,
    accumulates, and is reset three times in a row — once through each route — with a backward call after every reset"""
    P = gen_dag.Prog()
    x = P.add_leaf((2,), gen_dag.rand_data(rng, (2,)), False)
    y = P.add_leaf((2,), gen_dag.rand_data(rng, (2,)), True)
    evs = [('setrg', x, 1)]
    a = P.add_op('mul', [x, y], [], [(2,)])[0]; l = P.add_op('sum', [a], ['all', 0], [()])[0]
    evs += [('op', P.owner[a]), ('op', P.owner[l]), ('bw', l, gen_dag.rand_data(rng, (), -2, 2))]
    for _ in range(3):
        evs += [('zero', x), ('bw', l, gen_dag.rand_data(rng, (), -2, 2)), ('zero', y), ('bw', a, gen_dag.rand_data(rng, (2,), -2, 2))]
    if rng.chance(.5):
        evs += [('setrg', y, 0), ('zero', x), ('bw', l, gen_dag.rand_data(rng, (), -2, 2)), ('setrg', y, 1), ('zero', y), ('bw', l, gen_dag.rand_data(rng, (), -2, 2))]
    return P, evs, 8


def to_lines(P, evs):
    """interleave creation lines and events; after every event query all gradients"""
    leaf_lines, _ = P.lines([k for k, n in enumerate(P.nodes) if n['kind'] == 'leaf'])
    out = list(leaf_lines) + ['t ctx new rg']
    created = sum(len(n['outs']) for n in P.nodes if n['kind'] == 'leaf')
    for e in evs:
        if e[0] == 'op':
            nd = P.nodes[e[1]]
            out.append(' '.join(['t op', nd['name'], show_ints(nd['ins'])] + [str(a) for a in nd['args']]))
            created += len(nd['outs'])
        elif e[0] == 'bw':
            out.append(f"t bw {e[1]} {show_ints(e[3] if len(e) > 3 else P.tshape[e[1]])} {show_floats(e[2])}")
        elif e[0] == 'retain':
            out.append(f't retain {e[1]}')
        elif e[0] == 'zero':
            out.append(f't zero {e[1]}')
        elif e[0] == 'setrg':
            out.append(f't setrg {e[1]} {e[2]}')
        else:
            out.append(f't ctx {e[1]} 0')
        out += [f't grad {k}' for k in range(created)]
    return out


def cases(rng, tier):
    out = []
    for _ in range(100 if tier == 'quick' else 3000):
        P, evs, nbw = gen_history(rng, tier)
        out.append(mk(P, evs, nbw))
    for _ in range(30 if tier == 'quick' else 600):
        P, evs, nbw = gen_history(rng, tier, focus=True)
        out.append(mk(P, evs, nbw))
    for k in range(12 if tier == 'quick' else 240):
        out.append(mk(*gen_repeat(rng, k)))
    for _ in range(6 if tier == 'quick' else 120):
        out.append(mk(*gen_frozen_at_birth(rng)))
    for P, evs in corpus():
        out.append(mk(P, evs, 2))
    if tier == 'thorough':
        # EXHAUSTIVE sub-family: a fixed graph  x, w leaves; a = x*w; b = a + x; c = a*b (diamond with fan-out); every history of
        # length <= 4 over {backward from a / b / c / x, retain_grad(a), retain_grad(b), zero x, enter / exit retain_grads}
        import itertools
        def graph():
            P = gen_dag.Prog()
            x = P.add_leaf((2,), [1.0, -2.0], True); w = P.add_leaf((2,), [0.5, 3.0], True)
            a = P.add_op('mul', [x, w], [], [(2,)])[0]; b = P.add_op('add', [a, x], [], [(2,)])[0]; c_ = P.add_op('mul', [a, b], [], [(2,)])[0]
            return P, x, w, a, b, c_
        P0, x, w, a, b, c_ = graph()
        alphabet = [('bw', a, [1.0, 2.0]), ('bw', b, [-1.0, 0.5]), ('bw', c_, [2.0, 1.0]), ('bw', x, [1.0, 1.0]), ('retain', a), ('retain', b), ('zero', x), ('ctx', None),
                    ('bw', c_, [1.0, 2.0, 3.0, 4.0], (2, 2))]       # the last one is rejected after its traversal (wrong gradient shape)
        for n in range(1, 5):
            for word in itertools.product(range(len(alphabet)), repeat=n):
                if not any(alphabet[k][0] == 'bw' for k in word): continue
                P, *_ = graph()
                evs, in_ctx = [('op', 2), ('op', 3), ('op', 4)], False
                for k in word:
                    e = alphabet[k]
                    if e[0] == 'ctx':
                        evs.append(('ctx', 'exit' if in_ctx else 'enter')); in_ctx = not in_ctx
                    else:
                        evs.append(e)
                if in_ctx: evs.append(('ctx', 'exit'))
                cc = mk(P, evs, sum(1 for k in word if alphabet[k][0] == 'bw')); cc['exhaustive'] = True
                out.append(cc)
    return out


def mk(P, evs, nbw):
    lines = to_lines(P, evs)
    return {'P': P, 'evs': evs, 'nbw': nbw, 'lines': lines, 'desc': ' ; '.join(l for l in lines if not l.startswith('t grad'))[:900]}


def corpus():
    # l1.backward(); (l1+l2).backward()  (left-over root gradient); leaf as root twice; retained interior reached again
    P = gen_dag.Prog(); x = P.add_leaf((3,), [1., 2., 3.], True)
    a = P.add_op('mul', [x, x], [], [(3,)])[0]; l1 = P.add_op('sum', [a], ['all', 0], [()])[0]
    b = P.add_op('pow', [x], [common.fbits(2.0)], [(3,)])[0]; l2 = P.add_op('sum', [b], ['all', 0], [()])[0]
    s = P.add_op('add', [l1, l2], [], [()])[0]
    yield P, [('op', 1), ('op', 2), ('bw', l1, [1.0]), ('op', 3), ('op', 4), ('op', 5), ('bw', s, [1.0]), ('bw', s, [2.0])]
    P = gen_dag.Prog(); x = P.add_leaf((2,), [1., 2.], True)
    yield P, [('bw', x, [1., 1.]), ('bw', x, [1., 3.]), ('zero', x), ('bw', x, [2., 2.])]
    P = gen_dag.Prog(); x = P.add_leaf((2,), [1., 2.], True)
    y = P.add_op('mul', [x, x], [], [(2,)])[0]; z = P.add_op('sum', [y], ['all', 0], [()])[0]; w = P.add_op('mean', [y], ['all', 0], [()])[0]
    yield P, [('op', 1), ('retain', y), ('op', 2), ('bw', z, [1.0]), ('op', 3), ('bw', w, [3.0]), ('bw', y, [1., -1.])]


def impl(c):
    return tprog.run_program(c['lines'])


def compare(c, mo, io):
    return tprog.diff_program(c['lines'], mo, io)


def nontrivial(c):
    roots = {e[1] for e in c['evs'] if e[0] == 'bw'}
    return c['nbw'] >= 2 and len(roots) >= 2


def distribution(cases):
    d = {}
    for c in cases:
        if c.get('exhaustive'):
            k = 'exhaustive: all histories of length <= 4 over 9 events on the diamond graph'
            d[k] = d.get(k, 0) + 1
        for e in c['evs']:
            d[e[0]] = d.get(e[0], 0) + 1
    return d


# ---- oracle: every backward call re-run in isolation on a fresh copy; leaf.grad must be the sum ----
def _isolated(P, upto_nodes, root, g):
    """leaf gradients of ONE backward call on a fresh build of the graph (`upto_nodes`: the op nodes built so far and, as
    ('setrg', leaf, v) entries, the flag changes in between — a result records its operands according to the flags at build time)"""
    lines = []
    leaf_lines, _ = P.lines([k for k, n in enumerate(P.nodes) if n['kind'] == 'leaf'])
    lines += leaf_lines
    for k in upto_nodes:
        if isinstance(k, tuple):
            lines.append(f't setrg {k[1]} {k[2]}'); continue
        nd = P.nodes[k]
        lines.append(' '.join(['t op', nd['name'], show_ints(nd['ins'])] + [str(a) for a in nd['args']]))
    leaves = [n['outs'][0] for n in P.nodes if n['kind'] == 'leaf']
    lines.append(f"t bw {root} {show_ints(P.tshape[root])} {show_floats(g)}")
    lines += [f't grad {l}' for l in leaves]
    io = tprog.run_program(lines)
    if io[len(lines) - len(leaves) - 1] == 'rejected':
        return None
    res = {}
    for l, s in zip(leaves, io[-len(leaves):]):
        res[l] = None if s == '-' else tprog.parse_arr(s)
    return res


def oracle(c):
    P, evs = c['P'], c['evs']
    leaves = [n['outs'][0] for n in P.nodes if n['kind'] == 'leaf']
    rg = {n['outs'][0]: n['rg'] for n in P.nodes if n['kind'] == 'leaf'}
    io = tprog.run_program(c['lines'])
    if any(x == 'rejected' for x, l in zip(io, c['lines']) if l.startswith('t op')):
        return None
    expect = {l: None for l in leaves}
    built = []
    pos = sum(1 for n in P.nodes if n['kind'] == 'leaf') + 1
    created = len(leaves)
    for ei, e in enumerate(evs):
        line_out = io[pos]
        if e[0] == 'op':
            built.append(e[1]); created += len(P.nodes[e[1]]['outs'])
        elif e[0] == 'setrg':
            built.append(('setrg', e[1], e[2])); rg[e[1]] = bool(e[2])
        elif e[0] == 'zero':
            expect[e[1]] = np.zeros(P.tshape[e[1]])
        elif e[0] == 'bw' and len(e) > 3 and line_out != 'rejected':
            return {'key': {'cls': 'bad-gradient-accepted'}, 'case': _strip(c, ei + 1), 'what': f'backward accepted an upstream gradient of shape {e[3]} for a tensor of shape {P.tshape[e[1]]}'}
        elif e[0] == 'bw' and line_out != 'rejected':
            # nodes needed: all built so far (the isolated run rebuilds the same graph)
            d = _isolated(P, built, e[1], e[2])
            if d is None:
                return {'key': {'cls': 'isolated-run-rejects'}, 'case': _strip(c, ei + 1), 'what': 'backward accepted in the history but rejected on a fresh graph'}
            for l in leaves:
                if d[l] is not None and rg[l]:
                    expect[l] = d[l] if expect[l] is None else expect[l] + d[l]
        grads = io[pos + 1: pos + 1 + created]
        for l in leaves:
            s = grads[l]
            got = None if s == '-' else tprog.parse_arr(s)
            want = expect[l]
            if (got is None) != (want is None) and not (got is not None and want is None and not np.any(got)):
                return {'key': {'cls': 'presence'}, 'case': _strip(c, ei + 1), 'what': f'after event {ei} {e[:2]} leaf t{l} grad is {got}, expected {want}'}
            if got is not None and want is not None and not np.array_equal(np.isnan(got), np.isnan(want)):
                return {'key': {'cls': 'sum'}, 'case': _strip(c, ei + 1), 'what': f'after event {ei} {e[:2]} leaf t{l} holds {got.tolist()}, the sum of the per-call gradients since its last reset is {want.tolist()}'}
            fin = None if got is None or want is None else np.isfinite(got) & np.isfinite(want)
            if fin is not None and (not np.array_equal(got[~fin & ~np.isnan(got)], want[~fin & ~np.isnan(want)]) or (fin.any() and np.abs(got[fin] - want[fin]).max() > 1e-9 * (1 + np.abs(want[fin]).max()))):
                return {'key': {'cls': 'sum'}, 'case': _strip(c, ei + 1), 'what': f'after event {ei} {e[:2]} leaf t{l} holds {got.tolist()}, the sum of the per-call gradients since its last reset is {want.tolist()}'}
        pos += 1 + created
    return None


def _strip(c, nev=None):
    return {'nodes': c['P'].nodes, 'tshape': c['P'].tshape, 'evs': c['evs'][:nev] if nev else c['evs']}


def _unstrip(d):
    P = gen_dag.Prog()
    for nd in d['nodes']:
        if nd['kind'] == 'leaf':
            P.add_leaf(tuple(nd['shape']), nd['data'], nd['rg'])
        else:
            P.add_op(nd['name'], nd['ins'], nd['args'], [tuple(d['tshape'][o]) for o in nd['outs']])
    evs = [tuple(e) for e in d['evs']]
    return mk(P, evs, sum(1 for e in evs if e[0] == 'bw'))


def search(rng, tier):
    for _ in range(80):
        P, evs, nbw = gen_history(rng, 'quick')
        f = oracle(mk(P, evs, nbw))
        if f: yield f


def matches_known(k, fail): return k.get('key') == fail.get('key')
def rerun_known(k): return oracle(_unstrip(k['witness'])) is not None
def replay(fail):
    f = oracle(_unstrip(fail['case']))
    return {'fails': f is not None, 'now': f}
